#!/bin/bash
# runs every registered quick check once, sequentially; one summary line per property
cd /verif
out=.cache/allquick-$(date +%H%M).log
for p in $(python3 -c "import json;print(' '.join(c['property_id'] for c in json.load(open('MANIFEST.json'))['checks']))"); do
  t0=$(date +%s)
  ./check $p --tier quick > .cache/allquick-$p.log 2>&1; rc=$?
  t1=$(date +%s)
  echo "$p rc=$rc $((t1-t0))s $(grep -E "^$p tier=" .cache/allquick-$p.log | cut -c1-200) $(grep -c '^VIOLATION' .cache/allquick-$p.log) viol $(grep -c '^KNOWN-FINDING' .cache/allquick-$p.log) known" >> $out
done
echo DONE >> $out
