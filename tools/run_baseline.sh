#!/bin/bash
# Runs the repository's baseline test suite with the hook guard OFF (plain cargo, /repo/target) and compares with BASELINE.json.
cd /repo
mkdir -p /verif/.cache/baseline
CARGO_NET_OFFLINE=true cargo nextest run --workspace --no-fail-fast --tool-config-file pb:/w/lib/nextest.toml --profile pb --test-threads ${THREADS:-8} --offline > /verif/.cache/baseline/run.log 2>&1
echo "exit=$?" >> /verif/.cache/baseline/run.log
python3 - <<'P'
import json, xml.etree.ElementTree as ET
b=json.load(open('/root/.vp/BASELINE.json'))
root=ET.parse('/repo/target/nextest/pb/junit.xml').getroot()
passed=set(); failed=set()
for tc in root.iter('testcase'):
    tid=(tc.get('classname') or '')+'::'+(tc.get('name') or '')
    if tc.find('failure') is not None or tc.find('error') is not None: failed.add(tid)
    else: passed.add(tid)
stable=set(b['stable_pass'])
missing=sorted(stable-passed)
print('passed',len(passed),'failed',len(failed),'baseline stable',len(stable),'stable not passing now',len(missing))
for m in missing[:40]: print('  NOT PASSING:',m, '(failed)' if m in failed else '(absent)')
print('failed now:', sorted(failed)[:20])
P
