#!/usr/bin/env python3
"""
C37 translator: re-reads the lance sources on every run and regenerates
/verif/lean/LanceModel/C37/Gen.lean with

  (a) the FLAG_* constants of rust/lance-table/src/feature_flags.rs, the comparison in the bodies of
      can_read_dataset / can_write_dataset / has_deprecated_v2_feature_flag, and the ordered list of
      `manifest.<reader|writer>_feature_flags |= FLAG_X;` statements of apply_feature_flags;
  (b) from rust/lance-encoding/src/version.rs: the version string constants, the variants of
      `enum LanceFileVersion` in declaration order (= derived `Ord`), the `#[default]` variant, and the
      literal match tables of `LanceFileVersion::{resolve, try_from_major_minor, to_numbers, from_str,
      Display::fmt}` plus the comparison in `is_unstable`.

The output is plain Lean data (strings and naturals).  `LanceModel/C37/Props.lean` proves
`Gen.table = <rendering of Model.table>` by `decide`, and all property theorems are about the model
tables, so an edited match arm breaks a proof obligation.

The translator understands a small subset of Rust.  Anything else makes it REFUSE: it prints
`xlate_c37: REFUSED <construct>: <detail>` and exits with status 3 without touching Gen.lean.

The lance sources are read from $VERIF_REPO_ROOT (default /repo); `--repo DIR` overrides it.

usage: xlate_c37.py [--repo DIR] [--out FILE] [--stdout]
"""
import os
import re
import sys

ROOT = os.path.dirname(os.path.dirname(os.path.abspath(__file__)))


class Refuse(Exception):
    def __init__(self, construct, detail):
        super().__init__(f"{construct}: {detail}")
        self.construct = construct
        self.detail = detail


# ----------------------------------------------------------------------------------------------
# lexical helpers
# ----------------------------------------------------------------------------------------------

def strip_comments(src):
    """remove // line comments and /* */ block comments, keep string / char literals intact"""
    out = []
    i, n = 0, len(src)
    while i < n:
        c = src[i]
        if src.startswith("//", i):
            while i < n and src[i] != "\n":
                i += 1
        elif src.startswith("/*", i):
            j = src.find("*/", i + 2)
            if j < 0:
                raise Refuse("unterminated block comment", f"offset {i}")
            out.append(" ")
            i = j + 2
        elif c == '"':
            j = i + 1
            while j < n and src[j] != '"':
                j += 2 if src[j] == "\\" else 1
            if j >= n:
                raise Refuse("unterminated string literal", f"offset {i}")
            out.append(src[i:j + 1])
            i = j + 1
        elif c == "r" and re.match(r'r#*"', src[i:]):
            raise Refuse("raw string literal", src[i:i + 20])
        elif c == "'" and re.match(r"'(\\.|[^\\'])'", src[i:]):
            m = re.match(r"'(\\.|[^\\'])'", src[i:])
            out.append(m.group(0))
            i += len(m.group(0))
        else:
            out.append(c)
            i += 1
    return "".join(out)


def matching(src, i, open_c, close_c):
    """index of the bracket closing the one at src[i]"""
    assert src[i] == open_c
    depth = 0
    n = len(src)
    while i < n:
        c = src[i]
        if c == '"':
            j = i + 1
            while j < n and src[j] != '"':
                j += 2 if src[j] == "\\" else 1
            i = j + 1
            continue
        if c == open_c:
            depth += 1
        elif c == close_c:
            depth -= 1
            if depth == 0:
                return i
        i += 1
    raise Refuse("unbalanced brackets", f"no closing {close_c!r}")


def split_top(s, sep=","):
    """split at separators that are not nested in () [] {} or string literals"""
    parts, cur, depth, i, n = [], [], 0, 0, len(s)
    while i < n:
        c = s[i]
        if c == '"':
            j = i + 1
            while j < n and s[j] != '"':
                j += 2 if s[j] == "\\" else 1
            cur.append(s[i:j + 1])
            i = j + 1
            continue
        if c in "([{":
            depth += 1
        elif c in ")]}":
            depth -= 1
        if c == sep and depth == 0:
            parts.append("".join(cur))
            cur = []
        else:
            cur.append(c)
        i += 1
    parts.append("".join(cur))
    return [p.strip() for p in parts if p.strip()]


def squash(s):
    return re.sub(r"\s+", "", s)


def fn_body(src, name, what, within=None):
    """body (text between the outer braces) of the unique `fn name` in src"""
    hay = src if within is None else within
    ms = list(re.finditer(r"\bfn\s+" + re.escape(name) + r"\s*(<[^>]*>)?\s*\(", hay))
    if len(ms) != 1:
        raise Refuse(f"{what}: expected exactly one `fn {name}`", f"found {len(ms)}")
    m = ms[0]
    if m.group(1):
        raise Refuse(f"{what}: generic function", m.group(0))
    close_paren = matching(hay, m.end() - 1, "(", ")")
    brace = hay.find("{", close_paren)
    semi = hay.find(";", close_paren)
    if brace < 0 or (0 <= semi < brace):
        raise Refuse(f"{what}: function without a body", name)
    sig_tail = hay[close_paren + 1:brace]
    if "where" in sig_tail:
        raise Refuse(f"{what}: where clause", sig_tail.strip())
    end = matching(hay, brace, "{", "}")
    body = hay[brace + 1:end]
    # an attribute directly above the function that changes its meaning
    head = hay[max(0, m.start() - 200):m.start()]
    last_lines = head.split("\n")[-3:]
    for l in last_lines:
        if re.search(r"#\[\s*cfg", l):
            raise Refuse(f"{what}: cfg attribute on translated function", l.strip())
    if re.search(r"#\[\s*cfg", body):
        raise Refuse(f"{what}: cfg attribute inside translated function", name)
    if re.search(r"\b(macro_rules|unsafe)\b", body):
        raise Refuse(f"{what}: unsupported keyword in body", name)
    return body, sig_tail.strip(), hay[m.end():close_paren]


def single_match(body, what):
    """body must be exactly `match <scrutinee> { arms }` (optionally wrapped by `prefix(... )`);
    returns (prefix, scrutinee, [arm strings], suffix)"""
    ms = list(re.finditer(r"\bmatch\b", body))
    if len(ms) != 1:
        raise Refuse(f"{what}: expected exactly one `match`", f"found {len(ms)}")
    m = ms[0]
    brace = body.find("{", m.end())
    if brace < 0:
        raise Refuse(f"{what}: match without braces", body.strip()[:60])
    scrut = body[m.end():brace].strip()
    end = matching(body, brace, "{", "}")
    arms = split_top(body[brace + 1:end])
    return body[:m.start()].strip(), scrut, arms, body[end + 1:].strip()


def split_arm(arm, what):
    if "=>" not in arm:
        raise Refuse(f"{what}: match arm without `=>`", arm[:60])
    pat, rhs = arm.split("=>", 1)
    pat, rhs = pat.strip(), rhs.strip()
    if re.search(r"\bif\b", pat):
        raise Refuse(f"{what}: match guard", arm[:80])
    if "|" in pat:
        raise Refuse(f"{what}: or-pattern", arm[:80])
    if "@" in pat or ".." in pat:
        raise Refuse(f"{what}: binding / range pattern", arm[:80])
    return pat, rhs


VARIANT = re.compile(r"^Self::([A-Za-z_][A-Za-z0-9_]*)$")
OK_VARIANT = re.compile(r"^Ok\(\s*Self::([A-Za-z_][A-Za-z0-9_]*)\s*\)$")
STR_LIT = re.compile(r'^"((?:[^"\\]|\\.)*)"$')
IDENT = re.compile(r"^[A-Za-z_][A-Za-z0-9_]*$")
INT = re.compile(r"^[0-9][0-9_]*$")


def unescape(s, what):
    if "\\" in s:
        raise Refuse(f"{what}: escape sequence in string literal", s)
    if any(ord(c) < 0x20 or ord(c) > 0x7E for c in s):
        raise Refuse(f"{what}: non-printable / non-ASCII string literal", repr(s))
    return s


def is_err(rhs):
    return bool(re.match(r"^Err\s*\(", rhs))


# ----------------------------------------------------------------------------------------------
# feature_flags.rs
# ----------------------------------------------------------------------------------------------

CMP = re.compile(r"^([a-z_][a-z0-9_]*)(<=|>=|==|!=|<|>)([A-Z_][A-Z0-9_]*|[0-9][0-9_]*)$")


def xl_flags(path):
    src = strip_comments(open(path).read())
    # cut the test module off
    t = re.search(r"#\[cfg\(test\)\]\s*mod\s+tests\b", src)
    if t:
        src = src[:t.start()]
    consts = []
    for m in re.finditer(r"^[ \t]*(pub(?:\([a-z]+\))?\s+)?const\s+([A-Za-z_][A-Za-z0-9_]*)\s*:\s*([^=;]+?)\s*=\s*([^;]*);", src, re.M):
        name, ty, val = m.group(2), m.group(3).strip(), m.group(4).strip()
        if not name.startswith("FLAG_"):
            continue
        if ty != "u64":
            raise Refuse("FLAG constant of a type other than u64", f"{name}: {ty}")
        if not INT.match(val):
            raise Refuse("FLAG constant that is not an integer literal", f"{name} = {val}")
        consts.append((name, int(val.replace("_", ""))))
    if re.search(r"\bstatic\s+(mut\s+)?FLAG_", src):
        raise Refuse("FLAG declared as static", "static FLAG_…")
    names = [n for n, _ in consts]
    if len(set(names)) != len(names):
        raise Refuse("duplicate FLAG constant", str(names))
    if not consts:
        raise Refuse("no FLAG constants found", path)

    def cmp_fn(name):
        body, ret, params = fn_body(src, name, name)
        if squash(ret) != "->bool":
            raise Refuse(f"{name}: return type", ret)
        ps = split_top(params)
        if len(ps) != 1 or not re.match(r"^[a-z_][a-z0-9_]*\s*:\s*u64$", ps[0]):
            raise Refuse(f"{name}: parameter list", params.strip())
        p = ps[0].split(":")[0].strip()
        b = squash(body)
        m = CMP.match(b)
        if m and m.group(1) == p:
            return ("cmp", m.group(2), m.group(3))
        m2 = re.match(r"^" + re.escape(p) + r"&([A-Z_][A-Z0-9_]*)(!=|==)0$", b)
        if m2:
            return ("mask", m2.group(2), m2.group(1))
        raise Refuse(f"{name}: body outside the subset `<param> <cmp> <CONST>` / `<param> & <CONST> != 0`", body.strip()[:80])

    can_read = cmp_fn("can_read_dataset")
    can_write = cmp_fn("can_write_dataset")
    dep = cmp_fn("has_deprecated_v2_feature_flag")

    body, _, params = fn_body(src, "apply_feature_flags", "apply_feature_flags")
    ors = []
    for m in re.finditer(r"manifest\s*\.\s*(reader|writer)_feature_flags\s*([|&^+\-]?=)\s*([^;]+);", body):
        side, op, rhs = m.group(1), m.group(2), m.group(3).strip()
        if op == "=":
            if rhs != "0":
                raise Refuse("apply_feature_flags: assignment other than `= 0`", m.group(0))
            ors.append((side, "reset"))
        elif op == "|=":
            if not IDENT.match(rhs) or not rhs.startswith("FLAG_"):
                raise Refuse("apply_feature_flags: `|=` of something that is not a FLAG constant", m.group(0))
            ors.append((side, rhs))
        else:
            raise Refuse("apply_feature_flags: flag update other than `|=`", m.group(0))
    n_mentions = len(re.findall(r"_feature_flags", body))
    if n_mentions != len(ors):
        raise Refuse("apply_feature_flags: a use of *_feature_flags that is not `= 0;` or `|= FLAG_X;`",
                     f"{n_mentions} mentions, {len(ors)} understood")
    return {"consts": consts, "can_read": can_read, "can_write": can_write, "dep": dep, "ors": ors,
            "apply_params": [squash(p) for p in split_top(params)]}


# ----------------------------------------------------------------------------------------------
# version.rs
# ----------------------------------------------------------------------------------------------

def xl_version(path):
    src = strip_comments(open(path).read())
    t = re.search(r"#\[cfg\(test\)\]\s*mod\s+tests\b", src)
    if t:
        src = src[:t.start()]
    strconsts = {}
    order = []
    for m in re.finditer(r"^[ \t]*(?:pub\s+)?const\s+([A-Za-z_][A-Za-z0-9_]*)\s*:\s*&\s*(?:'static\s+)?str\s*=\s*([^;]*);", src, re.M):
        name, val = m.group(1), m.group(2).strip()
        lm = STR_LIT.match(val)
        if not lm:
            raise Refuse("string constant that is not a literal", f"{name} = {val}")
        strconsts[name] = unescape(lm.group(1), name)
        order.append(name)

    # ---- enum
    ms = list(re.finditer(r"\benum\s+LanceFileVersion\s*\{", src))
    if len(ms) != 1:
        raise Refuse("expected exactly one `enum LanceFileVersion`", f"found {len(ms)}")
    b = src.index("{", ms[0].start())
    e = matching(src, b, "{", "}")
    ebody = src[b + 1:e]
    variants, default = [], None
    for item in split_top(ebody):
        attrs = re.findall(r"#\[([^\]]*)\]", item)
        rest = re.sub(r"#\[[^\]]*\]", "", item).strip()
        for a in attrs:
            if a.strip() == "default":
                if default is not None:
                    raise Refuse("enum LanceFileVersion: two #[default] variants", rest)
                default = rest
            else:
                raise Refuse("enum LanceFileVersion: attribute on a variant", a)
        if not IDENT.match(rest):
            raise Refuse("enum LanceFileVersion: variant with payload or discriminant", rest)
        variants.append(rest)
    if len(set(variants)) != len(variants):
        raise Refuse("enum LanceFileVersion: duplicate variant", str(variants))
    # the derive list decides Ord / Default
    head = src[max(0, ms[0].start() - 300):ms[0].start()]
    dm = re.findall(r"#\[derive\(([^)]*)\)\]", head)
    if not dm:
        raise Refuse("enum LanceFileVersion: no derive attribute", "")
    derives = [d.strip() for d in dm[-1].split(",") if d.strip()]
    for need in ("PartialOrd", "Ord", "PartialEq", "Eq", "Default"):
        if need not in derives:
            raise Refuse("enum LanceFileVersion: ordering / equality / default is not derived", f"missing {need}")
    if re.search(r"impl\s+(PartialOrd|Ord|PartialEq|Default)\b[^{]*\bfor\s+LanceFileVersion", src):
        raise Refuse("enum LanceFileVersion: hand-written Ord/Eq/Default impl", "")
    if default is None:
        raise Refuse("enum LanceFileVersion: no #[default] variant", "")

    def variant(s, what):
        m = VARIANT.match(s)
        if not m or m.group(1) not in variants:
            raise Refuse(f"{what}: expected `Self::<Variant>`", s[:60])
        return m.group(1)

    def ok_variant(s, what):
        m = OK_VARIANT.match(s)
        if not m or m.group(1) not in variants:
            raise Refuse(f"{what}: expected `Ok(Self::<Variant>)`", s[:60])
        return m.group(1)

    def str_pat(s, what):
        lm = STR_LIT.match(s)
        if lm:
            return unescape(lm.group(1), what)
        if IDENT.match(s) and s in strconsts:
            return strconsts[s]
        raise Refuse(f"{what}: expected a string literal or a string constant", s[:60])

    # ---- inherent impl
    ims = list(re.finditer(r"\bimpl\s+LanceFileVersion\s*\{", src))
    if len(ims) != 1:
        raise Refuse("expected exactly one inherent `impl LanceFileVersion`", f"found {len(ims)}")
    ib = src.index("{", ims[0].start())
    ie = matching(src, ib, "{", "}")
    inherent = src[ib + 1:ie]

    # resolve
    body, ret, params = fn_body(src, "resolve", "resolve", within=inherent)
    if squash(params) != "&self" or squash(ret) != "->Self":
        raise Refuse("resolve: signature", f"({params}) {ret}")
    pre, scrut, arms, suf = single_match(body, "resolve")
    if pre or suf or scrut != "self":
        raise Refuse("resolve: body is not a single `match self`", (pre + "…" + suf)[:60])
    resolve, resolve_wild = [], None
    for a in arms:
        pat, rhs = split_arm(a, "resolve")
        if resolve_wild is not None:
            raise Refuse("resolve: arm after the wildcard", a[:60])
        if pat == "_":
            if squash(rhs) != "*self":
                raise Refuse("resolve: wildcard arm is not `*self`", rhs[:60])
            resolve_wild = "self"
        else:
            resolve.append((variant(pat, "resolve"), variant(rhs, "resolve")))
    if resolve_wild is None and len({p for p, _ in resolve}) != len(variants):
        raise Refuse("resolve: no wildcard arm and not all variants covered", "")

    # is_unstable
    body, ret, params = fn_body(src, "is_unstable", "is_unstable", within=inherent)
    m = re.match(r"^self(<=|>=|==|!=|<|>)&Self::([A-Za-z0-9_]+)$", squash(body))
    if not m or m.group(2) not in variants or squash(params) != "&self" or squash(ret) != "->bool":
        raise Refuse("is_unstable: body outside the subset `self <cmp> &Self::<Variant>`", body.strip()[:60])
    is_unstable = (m.group(1), m.group(2))

    # try_from_major_minor
    body, ret, params = fn_body(src, "try_from_major_minor", "try_from_major_minor", within=inherent)
    if squash(params) != "major:u32,minor:u32" or squash(ret) != "->Result<Self>":
        raise Refuse("try_from_major_minor: signature", f"({params}) {ret}")
    pre, scrut, arms, suf = single_match(body, "try_from_major_minor")
    if pre or suf or squash(scrut) != "(major,minor)":
        raise Refuse("try_from_major_minor: body is not a single `match (major, minor)`", scrut[:60])
    tmm, tmm_wild = [], False
    for a in arms:
        pat, rhs = split_arm(a, "try_from_major_minor")
        if tmm_wild:
            raise Refuse("try_from_major_minor: arm after the wildcard", a[:60])
        if pat == "_":
            if not is_err(rhs):
                raise Refuse("try_from_major_minor: wildcard arm is not `Err(..)`", rhs[:60])
            tmm_wild = True
            continue
        pm = re.match(r"^\(\s*([0-9][0-9_]*)\s*,\s*([0-9][0-9_]*)\s*\)$", pat)
        if not pm:
            raise Refuse("try_from_major_minor: pattern is not a pair of integer literals", pat[:60])
        tmm.append(((int(pm.group(1)), int(pm.group(2))), ok_variant(rhs, "try_from_major_minor")))
    if not tmm_wild:
        raise Refuse("try_from_major_minor: no wildcard `Err` arm", "")

    # to_numbers
    body, ret, params = fn_body(src, "to_numbers", "to_numbers", within=inherent)
    if squash(params) != "&self" or squash(ret) != "->(u32,u32)":
        raise Refuse("to_numbers: signature", f"({params}) {ret}")
    pre, scrut, arms, suf = single_match(body, "to_numbers")
    if pre or suf or scrut != "self":
        raise Refuse("to_numbers: body is not a single `match self`", scrut[:60])
    to_numbers = []
    for a in arms:
        pat, rhs = split_arm(a, "to_numbers")
        v = variant(pat, "to_numbers")
        pm = re.match(r"^\(\s*([0-9][0-9_]*)\s*,\s*([0-9][0-9_]*)\s*\)$", rhs)
        if pm:
            to_numbers.append((v, (int(pm.group(1)), int(pm.group(2)))))
        elif squash(rhs) == "self.resolve().to_numbers()":
            to_numbers.append((v, None))
        else:
            raise Refuse("to_numbers: arm is neither a literal pair nor `self.resolve().to_numbers()`", rhs[:60])
    if {v for v, _ in to_numbers} != set(variants) or len(to_numbers) != len(variants):
        raise Refuse("to_numbers: arms do not cover every variant exactly once", str([v for v, _ in to_numbers]))

    # Display
    dms = list(re.finditer(r"\bimpl\s+(?:std::fmt::|fmt::)?Display\s+for\s+LanceFileVersion\s*\{", src))
    if len(dms) != 1:
        raise Refuse("expected exactly one `impl Display for LanceFileVersion`", f"found {len(dms)}")
    db = src.index("{", dms[0].start())
    de = matching(src, db, "{", "}")
    body, ret, params = fn_body(src, "fmt", "Display::fmt", within=src[db + 1:de])
    pre, scrut, arms, suf = single_match(body, "Display::fmt")
    if squash(pre) != 'write!(f,"{}",' or squash(suf) != ")" or scrut != "self":
        raise Refuse("Display::fmt: body is not `write!(f, \"{}\", match self {..})`", (pre + " … " + suf)[:80])
    display = []
    for a in arms:
        pat, rhs = split_arm(a, "Display::fmt")
        display.append((variant(pat, "Display::fmt"), str_pat(rhs, "Display::fmt")))
    if {v for v, _ in display} != set(variants) or len(display) != len(variants):
        raise Refuse("Display::fmt: arms do not cover every variant exactly once", str([v for v, _ in display]))

    # FromStr
    fms = list(re.finditer(r"\bimpl\s+(?:std::str::)?FromStr\s+for\s+LanceFileVersion\s*\{", src))
    if len(fms) != 1:
        raise Refuse("expected exactly one `impl FromStr for LanceFileVersion`", f"found {len(fms)}")
    fb = src.index("{", fms[0].start())
    fe = matching(src, fb, "{", "}")
    body, ret, params = fn_body(src, "from_str", "from_str", within=src[fb + 1:fe])
    if squash(params) != "value:&str":
        raise Refuse("from_str: signature", params)
    pre, scrut, arms, suf = single_match(body, "from_str")
    if pre or suf:
        raise Refuse("from_str: body is not a single `match`", (pre + "…" + suf)[:60])
    sq = squash(scrut)
    if sq == "value.to_lowercase().as_str()":
        lowercases = True
    elif sq == "value":
        lowercases = False
    else:
        raise Refuse("from_str: scrutinee is neither `value` nor `value.to_lowercase().as_str()`", scrut[:60])
    from_str, fs_wild = [], False
    for a in arms:
        pat, rhs = split_arm(a, "from_str")
        if fs_wild:
            raise Refuse("from_str: arm after the wildcard", a[:60])
        if pat == "_":
            if not is_err(rhs):
                raise Refuse("from_str: wildcard arm is not `Err(..)`", rhs[:60])
            fs_wild = True
            continue
        from_str.append((str_pat(pat, "from_str"), ok_variant(rhs, "from_str")))
    if not fs_wild:
        raise Refuse("from_str: no wildcard `Err` arm", "")

    return {"strconsts": [(n, strconsts[n]) for n in order], "variants": variants, "default": default,
            "resolve": resolve, "resolve_wild": resolve_wild is not None, "is_unstable": is_unstable,
            "tmm": tmm, "to_numbers": to_numbers, "display": display, "from_str": from_str,
            "lowercases": lowercases}


# ----------------------------------------------------------------------------------------------
# Lean output
# ----------------------------------------------------------------------------------------------

def ls(s):
    assert all(0x20 <= ord(c) <= 0x7E for c in s)
    return '"' + s.replace("\\", "\\\\").replace('"', '\\"') + '"'


def llist(items):
    return "[" + ", ".join(items) + "]"


def render(fl, ve, repo):
    o = []
    w = o.append
    w("/-")
    w("GENERATED by tools/xlate_c37.py on every `./check C37` — do not edit; overwritten on every run.")
    w("Sources: rust/lance-table/src/feature_flags.rs, rust/lance-encoding/src/version.rs")
    w("Plain data only.  Props.lean proves each table equal to the rendering of the hand-written model table.")
    w("-/")
    w("namespace LanceModel.C37.Gen")
    w("")
    w("/-- `pub const FLAG_*: u64` of feature_flags.rs, in source order -/")
    w("def flags : List (String × Nat) :=")
    w("  " + llist(f"({ls(n)}, {v})" for n, v in fl["consts"]))
    w("")
    w("/-- body of `can_read_dataset`: (shape, operator, right-hand constant) -/")
    w("def canRead : String × String × String := (" + ", ".join(ls(x) for x in fl["can_read"]) + ")")
    w("/-- body of `can_write_dataset` -/")
    w("def canWrite : String × String × String := (" + ", ".join(ls(x) for x in fl["can_write"]) + ")")
    w("/-- body of `has_deprecated_v2_feature_flag` -/")
    w("def hasDeprecatedV2 : String × String × String := (" + ", ".join(ls(x) for x in fl["dep"]) + ")")
    w("")
    w("/-- the flag updates of `apply_feature_flags` in source order: (side, FLAG name | \"reset\") -/")
    w("def applyUpdates : List (String × String) :=")
    w("  " + llist(f"({ls(a)}, {ls(b)})" for a, b in fl["ors"]))
    w("/-- parameter list of `apply_feature_flags` (whitespace removed) -/")
    w("def applyParams : List String := " + llist(ls(p) for p in fl["apply_params"]))
    w("")
    w("/-- `pub const …: &str` of version.rs -/")
    w("def strConsts : List (String × String) :=")
    w("  " + llist(f"({ls(a)}, {ls(b)})" for a, b in ve["strconsts"]))
    w("")
    w("/-- variants of `enum LanceFileVersion` in declaration order (= the derived `Ord`) -/")
    w("def variants : List String := " + llist(ls(v) for v in ve["variants"]))
    w("/-- the `#[default]` variant -/")
    w("def defaultVariant : String := " + ls(ve["default"]))
    w("")
    w("/-- `resolve`: the explicit arms; the wildcard arm is `*self` -/")
    w("def resolveArms : List (String × String) :=")
    w("  " + llist(f"({ls(a)}, {ls(b)})" for a, b in ve["resolve"]))
    w("def resolveHasWildcardSelf : Bool := " + ("true" if ve["resolve_wild"] else "false"))
    w("")
    w("/-- `is_unstable`: `self <op> &Self::<variant>` -/")
    w("def isUnstable : String × String := (" + ls(ve["is_unstable"][0]) + ", " + ls(ve["is_unstable"][1]) + ")")
    w("")
    w("/-- `try_from_major_minor`: the literal arms; the wildcard arm is `Err` -/")
    w("def tryFromMajorMinorArms : List ((Nat × Nat) × String) :=")
    w("  " + llist(f"(({a}, {b}), {ls(v)})" for (a, b), v in ve["tmm"]))
    w("")
    w("/-- `to_numbers`: `some (major, minor)` for a literal arm, `none` for `self.resolve().to_numbers()` -/")
    w("def toNumbersArms : List (String × Option (Nat × Nat)) :=")
    w("  " + llist(f"({ls(v)}, " + ("none" if p is None else f"some ({p[0]}, {p[1]})") + ")" for v, p in ve["to_numbers"]))
    w("")
    w("/-- `Display::fmt`: variant ↦ text (string constants resolved) -/")
    w("def displayArms : List (String × String) :=")
    w("  " + llist(f"({ls(a)}, {ls(b)})" for a, b in ve["display"]))
    w("")
    w("/-- `FromStr::from_str`: text ↦ variant, in arm order (string constants resolved); wildcard is `Err` -/")
    w("def fromStrArms : List (String × String) :=")
    w("  " + llist(f"({ls(a)}, {ls(b)})" for a, b in ve["from_str"]))
    w("/-- the scrutinee of `from_str` is `value.to_lowercase().as_str()` -/")
    w("def fromStrLowercases : Bool := " + ("true" if ve["lowercases"] else "false"))
    w("")
    w("end LanceModel.C37.Gen")
    return "\n".join(o) + "\n"


def main():
    argv = sys.argv[1:]
    repo = os.environ.get("VERIF_REPO_ROOT") or "/repo"
    out = os.path.join(ROOT, "lean", "LanceModel", "C37", "Gen.lean")
    to_stdout = False
    i = 0
    while i < len(argv):
        if argv[i] == "--repo":
            repo = argv[i + 1]
            i += 2
        elif argv[i] == "--out":
            out = argv[i + 1]
            i += 2
        elif argv[i] == "--stdout":
            to_stdout = True
            i += 1
        else:
            print(__doc__)
            sys.exit(2)
    try:
        fl = xl_flags(os.path.join(repo, "rust/lance-table/src/feature_flags.rs"))
        ve = xl_version(os.path.join(repo, "rust/lance-encoding/src/version.rs"))
        text = render(fl, ve, repo)
    except Refuse as r:
        print(f"xlate_c37: REFUSED {r.construct}: {r.detail}")
        sys.exit(3)
    except OSError as e:
        print(f"xlate_c37: REFUSED unreadable source: {e}")
        sys.exit(3)
    if to_stdout:
        sys.stdout.write(text)
        return
    old = None
    try:
        old = open(out).read()
    except OSError:
        pass
    if old != text:          # keep the mtime when nothing changed, so lake does not rebuild
        tmp = out + ".tmp"
        open(tmp, "w").write(text)
        os.replace(tmp, out)
    print(f"xlate_c37: wrote {os.path.relpath(out, ROOT)} ({len(fl['consts'])} flags, {len(ve['variants'])} variants, "
          f"{len(ve['tmm'])}+{len(ve['to_numbers'])}+{len(ve['display'])}+{len(ve['from_str'])}+{len(ve['resolve'])} arms)")


if __name__ == "__main__":
    main()
