#!/usr/bin/env python3
import sys
pid=sys.argv[1]; extra=sys.argv[2] if len(sys.argv)>2 else ""
t=open('/verif/tools/builder_prompt.txt').read()
print(t.replace('{PID}',pid).replace('{pid}',pid.lower()).replace('{EXTRA}',extra))
