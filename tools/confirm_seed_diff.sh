#!/bin/bash
# tools/confirm_seed_diff.sh <PID> <k> <WT> <crate> <demo test filter> : demo delivered as demo.diff (a #[test] added to the crate)
PID=$1; K=$2; WT=$3; CRATE=$4; F=$5; OUT=/tmp/seed-out/$PID/$K
export CARGO_TARGET_DIR=$WT-target CARGO_NET_OFFLINE=true
cd $WT || exit 2
git checkout -q -- . ; git clean -fdq
git apply $OUT/demo.diff || { echo "demo.diff does not apply"; exit 3; }
echo "== demo WITHOUT patch"; cargo test --offline -p $CRATE --lib $F 2>&1 | grep -E "^test result|error(\[|:)" | head -5
git apply $OUT/patch.diff || { echo "patch does not apply"; exit 3; }
echo "== existing lib tests + demo WITH patch (only the demo may fail)"; cargo test --offline -p $CRATE --lib 2>&1 | grep -E "^test result|^test .* FAILED|error(\[|:)" | head -8
git checkout -q -- . ; git clean -fdq
