#!/usr/bin/env python3
"""tools/keep_seed.py PID k confirm_log mut_log  -> copies /tmp/seed-out/PID/k into /verif/seeded/PID-k/ with an augmented meta.json"""
import json, os, shutil, sys, re
pid, k, clog, mlog = sys.argv[1:5]
src = f"/tmp/seed-out/{pid}/{k}"; dst = f"/verif/seeded/{pid}-{k}"
os.makedirs(dst, exist_ok=True)
for f in os.listdir(src):
    if os.path.isfile(os.path.join(src, f)) and os.path.getsize(os.path.join(src, f)) < 200000:
        shutil.copy(os.path.join(src, f), os.path.join(dst, f))
meta = json.load(open(os.path.join(src, "meta.json")))
ct = open(clog).read() if os.path.exists(clog) else ""
mt = open(mlog).read() if os.path.exists(mlog) else ""
viol = re.findall(r"^VIOLATION property=\S+ replay=\S+( no-failing-input-found)?", mt, re.M)
summ = re.search(r"^C\d\d tier=.*$", mt, re.M)
meta["confirmed_by_coordinator"] = {
    "how": "tools/confirm_seed.sh in the seeder's scratch worktree: demo passes without the patch; with the patch the crate's existing lib tests pass and the demo fails",
    "log_excerpt": [l for l in ct.splitlines() if l.startswith("test result") or l.startswith("==")][-12:],
}
meta["check_run"] = {"cmd": f"tools/mutcheck.sh {pid} --patch seeded/{pid}-{k}/patch.diff", "summary": summ.group(0) if summ else None,
                     "violations": len(viol), "no_failing_input_found": sum(1 for v in viol if v)}
meta["caught_by"] = (f"./check {pid}: " + ("oracle failure with replay input" if viol and not all(viol) else "broken correspondence/proof, no failing input found")) if viol else None
json.dump(meta, open(os.path.join(dst, "meta.json"), "w"), indent=1)
print(dst, "caught_by=", meta["caught_by"])
