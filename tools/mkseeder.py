#!/usr/bin/env python3
"""tools/mkseeder.py Cxx N -> creates worktree /tmp/seed-cxx, prints the seeder prompt (property text only)."""
import json, sys, subprocess, os
pid, n = sys.argv[1], sys.argv[2]
p = [json.loads(l) for l in open('/verif/properties.jsonl') if json.loads(l)['id'] == pid][0]
wt = sys.argv[3] if len(sys.argv) > 3 else f"/tmp/seed-{pid.lower()}"
if not os.path.exists(wt):
    subprocess.run(["git", "-C", "/repo", "worktree", "add", "--detach", wt, "HEAD"], check=True, stdout=subprocess.DEVNULL, stderr=subprocess.DEVNULL)
subprocess.run(["git", "-C", wt, "checkout", "-q", "--detach", subprocess.run(["git", "-C", "/repo", "rev-parse", "HEAD"], capture_output=True, text=True).stdout.strip()])
out = f"/tmp/seed-out/{pid}"
os.makedirs(out, exist_ok=True)
t = open('/verif/tools/seeder_prompt.txt').read()
for k, v in {"{WT}": wt, "{TGT}": wt + "-target", "{TITLE}": p["title"], "{STATEMENT}": p["statement"], "{QUANT}": p["quantifier"]["text"],
             "{FILES}": ", ".join(p["anchors"]["files"]), "{N}": n, "{OUT}": out, "{PID}": pid}.items():
    t = t.replace(k, v)
print(t)
