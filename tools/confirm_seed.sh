#!/bin/bash
# tools/confirm_seed.sh <PID> <k> <crate> <test-name> [lib-test-filter]
# Confirms a seeded change in the seeder's scratch worktree: (1) demo passes without the patch, (2) with the patch the crate
# compiles and its existing lib tests pass, (3) the demo fails with the patch. Leaves the worktree clean.
PID=$1; K=$2; CRATE=$3; TNAME=$4; FILTER=${5:-}
WT=/tmp/seed-$(echo $PID | tr A-Z a-z); OUT=/tmp/seed-out/$PID/$K
export CARGO_TARGET_DIR=$WT-target CARGO_NET_OFFLINE=true
cd $WT || exit 2
git checkout -q -- . ; git clean -fdq
TDIR=${TDIR:-$(ls -d rust/$CRATE 2>/dev/null || ls -d rust/*/$CRATE | head -1)}
mkdir -p $TDIR/tests; cp $OUT/demo.rs $TDIR/tests/$TNAME.rs
echo "== demo WITHOUT patch"; cargo test --offline -p $CRATE --test $TNAME 2>&1 | grep -E "^test result|error(\[|:)" | head -5
git apply $OUT/patch.diff || { echo "patch does not apply"; exit 3; }
echo "== existing lib tests WITH patch"; cargo test --offline -p $CRATE --lib $FILTER 2>&1 | grep -E "^test result|error(\[|:)|FAILED|failed" | head -8
echo "== demo WITH patch"; cargo test --offline -p $CRATE --test $TNAME 2>&1 | grep -E "^test result|error(\[|:)" | head -5
git checkout -q -- . ; git clean -fdq
