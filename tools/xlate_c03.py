#!/usr/bin/env python3
"""
C03 translator: re-reads rust/lance/src/io/commit/conflict_resolver.rs (and the variant list of `enum Operation` in
rust/lance/src/dataset/transaction.rs) on every run and regenerates /verif/lean/LanceModel/C03/Gen.lean with the
SKELETON of the conflict matrix: for every (own operation kind, other operation kind) the shape of the match arm that
`TransactionRebase::check_txn` reaches:

    ok        the arm body is exactly `Ok(())`
    retry     the arm body is exactly `Err(self.retryable_conflict_err(other_transaction, other_version, location!()))`
    incompat  the arm body is exactly `Err(self.incompatible_conflict_err(other_transaction, other_version, location!()))`
    cond      anything else (a computation)

`LanceModel/C03/Props.lean` proves `Gen.table` = `Model.skeleton` (by `decide`); `Model.checkTxn` looks every arm up in
`Model.skeleton`, and the theorems are about `Model.checkTxn`, so an edited match arm breaks a proof obligation.  The
bodies of `cond` arms are not translated (they are modelled by hand and covered by the correspondence run); a hash of
each normalised `cond` body is written as a comment.

Subset of Rust understood (anything else: `xlate_c03: REFUSED <construct>: <detail>`, exit status 3, Gen.lean untouched):
  * `fn check_txn`: `let op = &self.transaction.operation; match op { arms }`, every arm `Operation::K { .. } =>`
    followed by `self.check_<x>_txn(other_transaction, other_version)` (optionally in braces) or `Ok(())`;
  * every `fn check_<x>_txn`: optionally one wrapper `if let Operation::K { .. } = &self.transaction.operation { M }
    else { Err(wrong_operation_err(&self.transaction.operation)) }` whose K is the kind that dispatches to it; M (or the
    whole body) is exactly one `match &other_transaction.operation { arms }`;
  * arm patterns: `Operation::K`, `Operation::K { … }`, alternatives with `|`, or the wildcard `_` (last arm only);
    no guards, no bindings with `@`.
Every kind must be matched by exactly one arm of each function.

The lance sources are read from $VERIF_REPO_ROOT (default /repo); `--repo DIR` overrides it.

usage: xlate_c03.py [--repo DIR] [--out FILE] [--stdout]
"""
import hashlib
import os
import re
import sys

ROOT = os.path.dirname(os.path.dirname(os.path.abspath(__file__)))

# Rust variant -> Lean constructor of LanceModel.C03.Kind
KINDS = {
    "Append": "append", "Delete": "delete", "Update": "update", "Overwrite": "overwrite", "Rewrite": "rewrite",
    "CreateIndex": "createIndex", "DataReplacement": "dataReplacement", "Merge": "merge", "Restore": "restore",
    "ReserveFragments": "reserveFragments", "Project": "project", "UpdateConfig": "updateConfig",
    "UpdateMemWalState": "updateMemWalState", "Clone": "clone", "UpdateBases": "updateBases",
}
ORDER = list(KINDS.keys())


class Refuse(Exception):
    def __init__(self, construct, detail):
        super().__init__(f"{construct}: {detail}")
        self.construct = construct
        self.detail = detail


def strip_comments(src):
    out = []
    i, n = 0, len(src)
    while i < n:
        c = src[i]
        if src.startswith("//", i):
            while i < n and src[i] != "\n":
                i += 1
        elif src.startswith("/*", i):
            j = src.find("*/", i + 2)
            if j < 0:
                raise Refuse("unterminated block comment", f"offset {i}")
            out.append(" ")
            i = j + 2
        elif c == '"':
            j = i + 1
            while j < n and src[j] != '"':
                j += 2 if src[j] == "\\" else 1
            if j >= n:
                raise Refuse("unterminated string literal", f"offset {i}")
            out.append(src[i:j + 1])
            i = j + 1
        elif c == "r" and re.match(r'r#*"', src[i:]) and (i == 0 or not (src[i - 1].isalnum() or src[i - 1] == "_")):
            raise Refuse("raw string literal", src[i:i + 20])
        elif c == "'" and re.match(r"'(\\.|[^\\'])'", src[i:]):
            m = re.match(r"'(\\.|[^\\'])'", src[i:])
            out.append(m.group(0))
            i += len(m.group(0))
        else:
            out.append(c)
            i += 1
    return "".join(out)


def skip_string(s, i):
    j = i + 1
    while j < len(s) and s[j] != '"':
        j += 2 if s[j] == "\\" else 1
    return j + 1


def matching(src, i):
    """index of the bracket closing the one at src[i] (any of ([{ )"""
    pairs = {"(": ")", "[": "]", "{": "}"}
    stack = []
    n = len(src)
    while i < n:
        c = src[i]
        if c == '"':
            i = skip_string(src, i)
            continue
        if c in pairs:
            stack.append(pairs[c])
        elif c in ")]}":
            if not stack or stack[-1] != c:
                raise Refuse("unbalanced brackets", src[max(0, i - 30):i + 10])
            stack.pop()
            if not stack:
                return i
        i += 1
    raise Refuse("unbalanced brackets", "no closing bracket")


def squash(s):
    return re.sub(r"\s+", "", s)


def fn_body(src, name):
    ms = list(re.finditer(r"\bfn\s+" + re.escape(name) + r"\s*\(", src))
    if len(ms) != 1:
        raise Refuse(f"expected exactly one `fn {name}`", f"found {len(ms)}")
    close_paren = matching(src, ms[0].end() - 1)
    brace = src.find("{", close_paren)
    semi = src.find(";", close_paren)
    if brace < 0 or (0 <= semi < brace):
        raise Refuse(f"fn {name}", "no body")
    return src[brace + 1:matching(src, brace)]


def parse_arms(body, where):
    """[(pattern text, body text)] of the arms in a match body"""
    arms = []
    i, n = 0, len(body)
    while True:
        while i < n and body[i].isspace():
            i += 1
        if i >= n:
            break
        # pattern: up to the top-level `=>`
        j, depth = i, 0
        while j < n:
            c = body[j]
            if c == '"':
                j = skip_string(body, j)
                continue
            if c in "([{":
                depth += 1
            elif c in ")]}":
                depth -= 1
            elif depth == 0 and body.startswith("=>", j):
                break
            j += 1
        if j >= n:
            raise Refuse(f"{where}: match arm", "no `=>` in " + body[i:i + 60].strip())
        pat = body[i:j].strip()
        j += 2
        while j < n and body[j].isspace():
            j += 1
        if j < n and body[j] == "{":
            k = matching(body, j)
            arm_body = body[j:k + 1]
            j = k + 1
            while j < n and body[j].isspace():
                j += 1
            if j < n and body[j] == ",":
                j += 1
        else:
            k, depth = j, 0
            while k < n:
                c = body[k]
                if c == '"':
                    k = skip_string(body, k)
                    continue
                if c in "([{":
                    depth += 1
                elif c in ")]}":
                    depth -= 1
                elif c == "," and depth == 0:
                    break
                k += 1
            arm_body = body[j:k]
            j = k + 1
        arms.append((pat, arm_body.strip()))
        i = j
    return arms


def split_alts(pat, where):
    alts, cur, depth, i = [], [], 0, 0
    while i < len(pat):
        c = pat[i]
        if c in "([{":
            depth += 1
        elif c in ")]}":
            depth -= 1
        if c == "|" and depth == 0:
            alts.append("".join(cur).strip())
            cur = []
        else:
            cur.append(c)
        i += 1
    alts.append("".join(cur).strip())
    if any(not a for a in alts):
        raise Refuse(f"{where}: pattern", pat)
    return alts


def pattern_kinds(pat, where):
    """list of variant names, or ['_']"""
    if re.search(r"\bif\b", re.sub(r"\{[^{}]*\}", "", pat)):
        raise Refuse(f"{where}: match guard", pat[:80])
    out = []
    for a in split_alts(pat, where):
        if a == "_":
            out.append("_")
            continue
        m = re.fullmatch(r"Operation::([A-Za-z]+)\s*(\{.*\})?", a, re.S)
        if not m:
            raise Refuse(f"{where}: pattern", a[:80])
        if m.group(1) not in KINDS:
            raise Refuse(f"{where}: unknown Operation variant", m.group(1))
        if m.group(2) and "@" in m.group(2):
            raise Refuse(f"{where}: binding with @", a[:80])
        out.append(m.group(1))
    return out


OK = "Ok(())"
RETRY = ["Err(self.retryable_conflict_err(other_transaction,other_version,location!()))",
         "Err(self.retryable_conflict_err(other_transaction,other_version,location!(),))"]
INCOMPAT = ["Err(self.incompatible_conflict_err(other_transaction,other_version,location!()))",
            "Err(self.incompatible_conflict_err(other_transaction,other_version,location!(),))"]


def classify(body):
    s = squash(body)
    while s.startswith("{") and s.endswith("}") and matching(s, 0) == len(s) - 1:
        s = s[1:-1]
    if s == OK:
        return "ok"
    if s in RETRY:
        return "retry"
    if s in INCOMPAT:
        return "incompat"
    return "cond"


def unwrap_single_match(body, where, scrutinee):
    """body must be exactly `match <scrutinee> { arms }`; returns the arms text"""
    s = body.strip()
    m = re.match(r"match\s+" + scrutinee + r"\s*\{", s)
    if not m:
        raise Refuse(f"{where}: expected `match {scrutinee}`", s[:80])
    brace = m.end() - 1
    close = matching(s, brace)
    if s[close + 1:].strip() not in ("", ";"):
        raise Refuse(f"{where}: code after the match", s[close + 1:close + 80].strip())
    return s[brace + 1:close]


def xl_operation_variants(path):
    src = strip_comments(open(path).read())
    m = re.search(r"\bpub\s+enum\s+Operation\s*\{", src)
    if not m:
        raise Refuse("enum Operation", "not found")
    body = src[m.end():matching(src, m.end() - 1)]
    names, i, n = [], 0, len(body)
    while i < n:
        c = body[i]
        if c.isspace() or c == ",":
            i += 1
            continue
        if c == "#":
            j = body.find("[", i)
            i = matching(body, j) + 1
            continue
        m2 = re.match(r"([A-Z][A-Za-z0-9]*)", body[i:])
        if not m2:
            raise Refuse("enum Operation: variant", body[i:i + 40])
        names.append(m2.group(1))
        i += len(m2.group(1))
        while i < n and body[i].isspace():
            i += 1
        if i < n and body[i] in "{(":
            i = matching(body, i) + 1
    return names


def xl_matrix(path):
    src = strip_comments(open(path).read())
    # ---- dispatch
    body = fn_body(src, "check_txn")
    s = body.strip()
    m = re.match(r"let\s+op\s*=\s*&self\.transaction\.operation\s*;", s)
    if not m:
        raise Refuse("check_txn", "expected `let op = &self.transaction.operation;`")
    arms = parse_arms(unwrap_single_match(s[m.end():], "check_txn", "op"), "check_txn")
    dispatch = {}
    for pat, b in arms:
        for k in pattern_kinds(pat, "check_txn"):
            if k == "_":
                raise Refuse("check_txn", "wildcard arm")
            if k in dispatch:
                raise Refuse("check_txn", f"{k} matched twice")
            sb = squash(b)
            while sb.startswith("{") and sb.endswith("}"):
                sb = sb[1:-1]
            if sb == OK:
                dispatch[k] = None
            else:
                m2 = re.fullmatch(r"self\.(check_[a-z_]+_txn)\(other_transaction,other_version\)", sb)
                if not m2:
                    raise Refuse("check_txn: arm body", b[:80])
                dispatch[k] = m2.group(1)
    missing = [k for k in ORDER if k not in dispatch]
    if missing:
        raise Refuse("check_txn", f"kinds without an arm: {missing}")
    # ---- one function per own kind
    table, conds = {}, {}
    for own in ORDER:
        fn = dispatch[own]
        if fn is None:
            for other in ORDER:
                table[(own, other)] = "ok"
            continue
        where = f"{fn}"
        b = fn_body(src, fn).strip()
        m = re.match(r"if\s+let\s+Operation::([A-Za-z]+)\s*(\{[^{}]*\})?\s*=\s*&self\.transaction\.operation\s*\{", b, re.S)
        if m:
            if m.group(1) != own:
                raise Refuse(where, f"wrapper destructures {m.group(1)} but check_txn dispatches {own} to it")
            brace = m.end() - 1
            close = matching(b, brace)
            rest = squash(b[close + 1:])
            if rest != "else{Err(wrong_operation_err(&self.transaction.operation))}":
                raise Refuse(f"{where}: else branch of the wrapper", b[close + 1:close + 100].strip())
            inner = b[brace + 1:close]
        else:
            inner = b
        arms = parse_arms(unwrap_single_match(inner, where, r"&other_transaction\.operation"), where)
        seen = {}
        for idx, (pat, ab) in enumerate(arms):
            ks = pattern_kinds(pat, where)
            cls = classify(ab)
            for k in ks:
                if k == "_":
                    if idx != len(arms) - 1 or len(ks) != 1:
                        raise Refuse(where, "wildcard that is not the last arm")
                    for other in ORDER:
                        if other not in seen:
                            seen[other] = (cls, ab)
                else:
                    if k in seen:
                        raise Refuse(where, f"{k} matched twice")
                    seen[k] = (cls, ab)
        missing = [k for k in ORDER if k not in seen]
        if missing:
            raise Refuse(where, f"kinds without an arm: {missing}")
        for other in ORDER:
            cls, ab = seen[other]
            table[(own, other)] = cls
            if cls == "cond":
                conds[(own, other)] = hashlib.sha1(squash(ab).encode()).hexdigest()[:12]
    return dispatch, table, conds


def render(dispatch, table, conds, repo):
    o = []
    w = o.append
    w("/-")
    w("GENERATED by tools/xlate_c03.py from rust/lance/src/io/commit/conflict_resolver.rs — do not edit.")
    w("Skeleton of the conflict matrix: (own kind, other kind, shape of the match arm).")
    w("Hashes of the normalised bodies of the computed arms (steering only, never an alarm):")
    for (a, b), h in sorted(conds.items(), key=lambda x: (ORDER.index(x[0][0]), ORDER.index(x[0][1]))):
        w(f"  {a} / {b}: {h}")
    w("-/")
    w("import LanceModel.C03.Model")
    w("namespace LanceModel.C03.Gen")
    w("open LanceModel.C03")
    w("")
    w("/-- the function `check_txn` dispatches each own kind to (`none` = the arm is `Ok(())`) -/")
    w("def dispatch : List (Kind × Option String) :=")
    w("  [" + ",\n   ".join(f"(.{KINDS[k]}, " + ("none" if dispatch[k] is None else f'some "{dispatch[k]}"') + ")" for k in ORDER) + "]")
    w("")
    w("def table : List (Kind × Kind × Arm) :=")
    rows = []
    for a in ORDER:
        rows.append(", ".join(f"(.{KINDS[a]}, .{KINDS[b]}, .{table[(a, b)]})" for b in ORDER))
    w("  [" + ",\n   ".join(rows) + "]")
    w("")
    w("def lookup (own other : Kind) : Option Arm :=")
    w("  (table.find? (fun e => e.1 == own && e.2.1 == other)).map (·.2.2)")
    w("")
    w("end LanceModel.C03.Gen")
    return "\n".join(o) + "\n"


def main():
    argv = sys.argv[1:]
    repo = os.environ.get("VERIF_REPO_ROOT") or "/repo"
    out = os.path.join(ROOT, "lean", "LanceModel", "C03", "Gen.lean")
    to_stdout = False
    i = 0
    while i < len(argv):
        if argv[i] == "--repo":
            repo = argv[i + 1]
            i += 2
        elif argv[i] == "--out":
            out = argv[i + 1]
            i += 2
        elif argv[i] == "--stdout":
            to_stdout = True
            i += 1
        else:
            print(__doc__)
            sys.exit(2)
    try:
        variants = xl_operation_variants(os.path.join(repo, "rust/lance/src/dataset/transaction.rs"))
        if sorted(variants) != sorted(ORDER):
            raise Refuse("enum Operation", f"variants {variants} are not the 15 the model knows")
        dispatch, table, conds = xl_matrix(os.path.join(repo, "rust/lance/src/io/commit/conflict_resolver.rs"))
        text = render(dispatch, table, conds, repo)
    except Refuse as r:
        print(f"xlate_c03: REFUSED {r.construct}: {r.detail}")
        sys.exit(3)
    except OSError as e:
        print(f"xlate_c03: REFUSED unreadable source: {e}")
        sys.exit(3)
    if to_stdout:
        sys.stdout.write(text)
        return
    old = None
    try:
        old = open(out).read()
    except OSError:
        pass
    if old != text:
        tmp = out + ".tmp"
        open(tmp, "w").write(text)
        os.replace(tmp, out)
    n = {c: sum(1 for v in table.values() if v == c) for c in ("ok", "retry", "incompat", "cond")}
    print(f"xlate_c03: wrote {os.path.relpath(out, ROOT)} (225 cells: {n['ok']} ok, {n['retry']} retry, "
          f"{n['incompat']} incompat, {n['cond']} cond)")


if __name__ == "__main__":
    main()
