#!/usr/bin/env python3
"""tools/mkseeder_multi.py WT N C07 C12 ... -> one seeder prompt covering several properties (N changes each), one worktree/target."""
import json, sys, subprocess, os
wt, n, pids = sys.argv[1], sys.argv[2], sys.argv[3:]
props = {json.loads(l)['id']: json.loads(l) for l in open('/verif/properties.jsonl') if l.strip()}
if not os.path.exists(wt):
    subprocess.run(["git", "-C", "/repo", "worktree", "add", "--detach", wt, "HEAD"], check=True, stdout=subprocess.DEVNULL, stderr=subprocess.DEVNULL)
subprocess.run(["git", "-C", wt, "checkout", "-q", "--detach", subprocess.run(["git", "-C", "/repo", "rev-parse", "HEAD"], capture_output=True, text=True).stdout.strip()])
t = open('/verif/tools/seeder_prompt.txt').read()
head, rest = t.split("The project is supposed to satisfy this semantic property:")
body = rest.split("TASK:", 1)[1]
plist = ""
for pid in pids:
    p = props[pid]
    os.makedirs(f"/tmp/seed-out/{pid}", exist_ok=True)
    plist += f"\n[{pid}] {p['title']}\n  {p['statement']}\n  (quantified over: {p['quantifier']['text']})\n  Anchored in: {', '.join(p['anchors']['files'])}\n"
out = head + "The project is supposed to satisfy these semantic properties (treat each one separately):\n" + plist + \
      f"\nTASK (repeat for EACH property above, one after the other, in the order given; finish one property before starting the next so that partial results are usable): " + body
out = out.replace("{WT}", wt).replace("{TGT}", wt + "-target").replace("{N}", n).replace("{OUT}", "/tmp/seed-out/<property id>").replace("{PID}", "<property id>")
print(out)
