#!/usr/bin/env python3
"""Regenerate /verif/MANIFEST.json from props/*.json + properties.jsonl (run after adding a property)."""
import json, os, glob, subprocess
ROOT = os.path.dirname(os.path.dirname(os.path.abspath(__file__)))
props = {}
for f in sorted(glob.glob(os.path.join(ROOT, "props", "C*.json"))):
    p = json.load(open(f))
    props[p["id"]] = p
allp = [json.loads(l) for l in open(os.path.join(ROOT, "properties.jsonl")) if l.strip()]
na_reasons = {}
nf = os.path.join(ROOT, "props", "not_applicable.json")
if os.path.exists(nf):
    na_reasons = json.load(open(nf))
hooks_commits = []
hf = os.path.join(ROOT, "props", "hooks.json")
hooks = json.load(open(hf)) if os.path.exists(hf) else {}
try:
    out = subprocess.run(["git", "-C", "/repo", "log", "--format=%H %s", "454af79..HEAD"], capture_output=True, text=True).stdout
    hooks["source_commits"] = [l.split()[0] for l in out.splitlines() if l.split(" ", 1)[1].startswith("hook:")][::-1]
except Exception:
    pass
checks, na = [], []
for q in allp:
    pid = q["id"]
    if pid in props and not props[pid].get("disabled") and not all(k in props[pid] for k in ("level_text", "level_note", "theorems", "lean_modules")):
        print(f"warning: props/{pid}.json is incomplete (needs level_text, level_note, theorems, lean_modules) - not registered yet")
        na.append({"property_id": pid, "reason": "check under construction in this snapshot (registration file incomplete); not decided by any other technique"})
        continue
    if pid in props and not props[pid].get("disabled"):
        p = props[pid]
        checks.append({
            "property_id": pid,
            "quick_cmd": f"./check {pid} --tier quick",
            "thorough_cmd": f"./check {pid} --tier thorough",
            "evidence_file": f"/verif/evidence/{pid}.json",
            "replay_cmd_template": f"./check {pid} --replay {{path}}",
            "engine": "lean4-proof+correspondence",
            "level_claimed": {
                "category": p.get("level", "proof"),
                "text": p["level_text"],
                "design_ref": p.get("design_ref", f"DESIGN.md §6 {pid}"),
            },
            "level_note": p["level_note"],
            "technique": p.get("technique", "Lean 4 theorems about a hand-written executable model; model tied to the code by a seeded differential (correspondence) run through a line protocol"),
        })
    else:
        na.append({"property_id": pid, "reason": na_reasons.get(pid, "no check is registered for this property in this snapshot: its Lean model and correspondence harness are designed (DESIGN.md §6) but not built yet; it is not decided by any other technique")})
m = {
    "version": 1,
    "setup_cmd": "./setup.sh",
    "hooks": {
        "guard": "--cfg lancedb_lance_verif",
        "enable": "RUSTFLAGS='--cfg lancedb_lance_verif' via /verif/harness/.cargo/config.toml ([build] rustflags); every check builds /repo's crates as path dependencies of /verif/harness into /verif/harness/target",
        "baseline_off_cmd": "cd /repo && cargo nextest run --workspace --no-fail-fast --offline --test-threads 8 || cargo test --workspace --no-fail-fast --offline",
        "source_commits": hooks.get("source_commits", []),
        "add_only": True,
    },
    "engines": [{
        "name": "lean4-proof+correspondence",
        "path": "/verif/check",
        "serves_properties": [c["property_id"] for c in checks],
        "kind_free_text": "Lean 4 (4.33.0) theorems over hand-written executable models (lean/LanceModel/Cxx), audited with #print axioms on every run; each model is executed by a compiled Lean driver on the same seeded op lines the Rust harness (harness/src/bin/cxx.rs) feeds to the real lance code; outputs are diffed; property oracles are evaluated on the implementation's own outputs",
    }],
    "checks": checks,
    "notes": "See DESIGN.md. `./check Cxx` = lake build of the property's theorem modules + axiom audit + forbidden-token scan, cargo build of the harness against /repo's working tree, seeded correspondence run, property-oracle evaluation, known-findings classification (known_findings.json), search on a broken tie.",
    "not_applicable": na,
}
json.dump(m, open(os.path.join(ROOT, "MANIFEST.json"), "w"), indent=1)
print(f"MANIFEST.json: {len(checks)} checks, {len(na)} not_applicable")
try:
    import jsonschema
    jsonschema.validate(m, json.load(open("/root/.vp/MANIFEST.schema.json")))
    print("schema ok")
except ImportError:
    pass
