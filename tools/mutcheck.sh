#!/bin/bash
# tools/mutcheck.sh Cxx --patch p.diff | --file <path relative to repo root> <mutated copy of that file>  [-- extra ./check args]
# Evaluates a seeded change WITHOUT touching /repo: under .cache/mut.lock, sync the shared scratch worktree /tmp/mutwt to
# /repo's HEAD, apply the change there, run `VERIF_REPO_ROOT=/tmp/mutwt ./check Cxx`, revert. Prints the check's output;
# exit code = the check's exit code (1 = the change was detected).
set -u
PID="$1"; shift
WT=/tmp/mutwt
cd /verif
mkdir -p .cache
exec 9>.cache/mut.lock
flock 9
if [ ! -d "$WT/.git" ] && [ ! -f "$WT/.git" ]; then git -C /repo worktree add --detach "$WT" HEAD >/dev/null 2>&1; fi
git -C "$WT" checkout -q -- . ; git -C "$WT" clean -fdq -e target
git -C "$WT" checkout -q --detach "$(git -C /repo rev-parse HEAD)"
case "$1" in
  --patch) git -C "$WT" apply "$2" || { echo "patch does not apply"; exit 3; }; shift 2;;
  --file)  cp "$3" "$WT/$2" || exit 3; shift 3;;
  *) echo "usage"; exit 2;;
esac
[ "${1:-}" = "--" ] && shift
git -C "$WT" diff --stat | tail -3
VERIF_REPO_ROOT="$WT" ./check "$PID" "$@"
rc=$?
git -C "$WT" checkout -q -- . ; git -C "$WT" clean -fdq -e target
exit $rc
