#!/bin/bash
# tools/mutcheck.sh Cxx --patch p.diff | --file <path relative to repo root> <mutated copy of that file>  [-- extra ./check args]
# Evaluates a seeded change WITHOUT touching /repo: takes the first free scratch slot (/tmp/mutwt, /tmp/mutwt2;
# one lock each), syncs that worktree to /repo's HEAD, applies the change there, runs `VERIF_REPO_ROOT=<slot> ./check Cxx`,
# reverts. Prints the check's output; exit code = the check's exit code (1 = the change was detected).
set -u
PID="$1"; shift
cd /verif
mkdir -p .cache
WT=""
while [ -z "$WT" ]; do
  for s in mutwt mutwt2 mutwt3; do
    exec 9>".cache/$s.lock"
    if flock -n 9; then WT="/tmp/$s"; break; fi
  done
  [ -z "$WT" ] && sleep 5
done
if [ ! -e "$WT/.git" ]; then git -C /repo worktree prune; git -C /repo worktree add --detach "$WT" HEAD >/dev/null 2>&1; fi
git -C "$WT" checkout -q -- . ; git -C "$WT" clean -fdq -e target
git -C "$WT" checkout -q --detach "$(git -C /repo rev-parse HEAD)"
case "$1" in
  --patch) git -C "$WT" apply "$(realpath "$2")" || { echo "patch does not apply"; exit 3; }; shift 2;;
  --file)  cp "$3" "$WT/$2" || exit 3; shift 3;;
  *) echo "usage"; exit 2;;
esac
[ "${1:-}" = "--" ] && shift
echo "[mutcheck] slot $WT"; git -C "$WT" diff --stat | tail -3
VERIF_REPO_ROOT="$WT" ./check "$PID" "$@"
rc=$?
git -C "$WT" checkout -q -- . ; git -C "$WT" clean -fdq -e target
exit $rc
