#!/bin/bash
# tools/seed_pipeline.sh PID WT crate testname [lib filter] : for k in 1..3 confirm (in WT) + mutcheck + keep
PID=$1; WT=$2; CRATE=$3; TN=$4; FILTER=${5:-}
cd /verif
for k in ${KS:-1 2 3}; do
  [ -d /tmp/seed-out/$PID/$k ] || continue
  ( export SEED_WT=$WT; sed "s#^WT=.*#WT=$WT; OUT=/tmp/seed-out/\$PID/\$K#" tools/confirm_seed.sh > .cache/confirm_tmp_$PID.sh; bash .cache/confirm_tmp_$PID.sh $PID $k $CRATE $TN $FILTER ) > .cache/confirm-$PID-$k.log 2>&1
  tools/mutcheck.sh $PID --patch /tmp/seed-out/$PID/$k/patch.diff > .cache/mut-$PID-$k.log 2>&1; echo "rc=$?" >> .cache/mut-$PID-$k.log
  python3 tools/keep_seed.py $PID $k .cache/confirm-$PID-$k.log .cache/mut-$PID-$k.log
done
