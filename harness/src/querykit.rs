//! querykit — shared kit for SQL-style predicates over integer cells (three-valued logic).  Owned by C12; other bins
//! (C16 / C19 / C20 / C29 …) include it read-only:
//!
//! ```ignore
//! #[path = "../querykit.rs"]
//! #[allow(dead_code)]
//! mod querykit;
//! ```
//!
//! The Lean counterpart is `lean/LanceModel/Query/Eval.lean` (`Expr`, `eval3`, `parseExpr`, `showExpr`) with the algebraic
//! lemmas in `lean/LanceModel/Query/Lemmas.lean`.  A row is a slice of `Option<i64>` cells (`None` = NULL), as in tablekit.
//!
//! # Grammar (`Expr`)
//!
//! ```text
//! expr ::= TRUE | FALSE
//!        | col op lit | col op col            op in  =  !=  <  <=  >  >=
//!        | col IS NULL | col IS NOT NULL
//!        | col IN (v, …)                      v = integer literal or NULL; at least one element
//!        | col BETWEEN lo AND hi
//!        | NOT expr | expr AND expr | expr OR expr
//! ```
//! Evaluation is SQL's three-valued (Kleene) logic: `eval3(e, row) -> Option<bool>` (`None` = NULL/UNKNOWN):
//! a comparison with a NULL operand is NULL; `x IN (vs)` is TRUE if some non-NULL `v = x`, else NULL if `x` is NULL or some
//! `v` is NULL, else FALSE; `x BETWEEN lo AND hi` is `lo <= x AND x <= hi`; `NOT NULL = NULL`; `FALSE AND NULL = FALSE`;
//! `TRUE OR NULL = TRUE`.  A column index outside the row reads as NULL (`max_col` lets the caller reject such an expr).
//!
//! # Canonical prefix text form (tokens separated by ONE space, no space inside a token; self-delimiting)
//!
//! ```text
//! expr    ::= "T" | "F"
//!           | cmp col operand          cmp ::= eq | ne | lt | le | gt | ge ;  col ::= "c" nat ;  operand ::= col | int
//!           | "isnull" col | "notnull" col
//!           | "in" col vlist           vlist ::= v ("," v)* ;  v ::= int | "n"
//!           | "between" col int int
//!           | "not" expr | "and" expr expr | "or" expr expr
//! int     ::= ["-"] digit+             |int| < 2^63  (i64 without i64::MIN: `-9223372036854775808` is not an i64 literal in SQL)
//! ```
//! e.g. `and lt c0 3 not isnull c1`  =  `c0 < 3 AND NOT (c1 IS NULL)`.  `parse_prefix(tokens)` returns the expression and
//! the number of tokens consumed, so an expression can sit in the middle of an op line.  `show` prints the same form.
//!
//! # SQL form
//!
//! `to_sql(e, &namer)` prints a lance / DataFusion filter string; `namer(i)` gives the SQL name of column `i`
//! (`default_namer` = `c<i>`; merge_insert conditions use `source.c<i>` / `target.c<i>`).  Sub-expressions of NOT / AND / OR
//! are parenthesised: `(c0 < 3) AND (NOT (c1 IS NULL))`.
//!
//! # Generator
//!
//! `gen_pred(rng, rows, width, opts)` draws a predicate whose literals come from the cells of `rows` (± 1) and — by
//! rejection sampling with `eval3` — is TRUE on 10–60 % of `rows` when such a predicate is found within the retry budget
//! (the last candidate is returned otherwise).  `GenOpts::max_depth` bounds the nesting; `GenOpts::null_in_list` allows
//! NULL inside IN lists; `GenOpts::avoid_cols` lists columns not to mention.  Predicates in which one column occurs in two
//! IN-like atoms are never returned (`has_mergeable_inlists`: DataFusion's IN-list simplifier is not NULL-safe under NOT).

use hcommon::Rng;

pub type QCell = Option<i64>;

#[derive(Clone, Copy, Debug, PartialEq, Eq)]
pub enum Cmp {
    Eq,
    Ne,
    Lt,
    Le,
    Gt,
    Ge,
}

impl Cmp {
    pub const ALL: [Cmp; 6] = [Cmp::Eq, Cmp::Ne, Cmp::Lt, Cmp::Le, Cmp::Gt, Cmp::Ge];
    pub fn token(&self) -> &'static str {
        match self {
            Cmp::Eq => "eq",
            Cmp::Ne => "ne",
            Cmp::Lt => "lt",
            Cmp::Le => "le",
            Cmp::Gt => "gt",
            Cmp::Ge => "ge",
        }
    }
    pub fn from_token(s: &str) -> Option<Self> {
        Self::ALL.iter().copied().find(|c| c.token() == s)
    }
    pub fn sql(&self) -> &'static str {
        match self {
            Cmp::Eq => "=",
            Cmp::Ne => "!=",
            Cmp::Lt => "<",
            Cmp::Le => "<=",
            Cmp::Gt => ">",
            Cmp::Ge => ">=",
        }
    }
    pub fn holds(&self, a: i64, b: i64) -> bool {
        match self {
            Cmp::Eq => a == b,
            Cmp::Ne => a != b,
            Cmp::Lt => a < b,
            Cmp::Le => a <= b,
            Cmp::Gt => a > b,
            Cmp::Ge => a >= b,
        }
    }
}

#[derive(Clone, Copy, Debug, PartialEq, Eq)]
pub enum Operand {
    Col(usize),
    Lit(i64),
}

#[derive(Clone, Debug, PartialEq, Eq)]
pub enum Expr {
    True,
    False,
    Cmp(Cmp, usize, Operand),
    IsNull(usize),
    NotNull(usize),
    In(usize, Vec<QCell>),
    Between(usize, i64, i64),
    Not(Box<Expr>),
    And(Box<Expr>, Box<Expr>),
    Or(Box<Expr>, Box<Expr>),
}

// ------------------------------------------------------------------------------------------------
// canonical prefix text
// ------------------------------------------------------------------------------------------------

/// strict integer literal: optional '-', digits, |v| < 2^63
pub fn parse_lit(s: &str) -> Option<i64> {
    let digits = s.strip_prefix('-').unwrap_or(s);
    if digits.is_empty() || !digits.bytes().all(|b| b.is_ascii_digit()) {
        return None;
    }
    let v: i64 = s.parse().ok()?;
    if v == i64::MIN {
        None
    } else {
        Some(v)
    }
}

pub fn parse_col(s: &str) -> Option<usize> {
    let d = s.strip_prefix('c')?;
    if d.is_empty() || d.len() > 4 || !d.bytes().all(|b| b.is_ascii_digit()) {
        return None;
    }
    d.parse().ok()
}

fn parse_operand(s: &str) -> Option<Operand> {
    if s.starts_with('c') {
        parse_col(s).map(Operand::Col)
    } else {
        parse_lit(s).map(Operand::Lit)
    }
}

fn parse_vlist(s: &str) -> Option<Vec<QCell>> {
    s.split(',').map(|v| if v == "n" { Some(None) } else { parse_lit(v).map(Some) }).collect()
}

/// parse one expression from the front of `toks`; returns it with the number of tokens consumed
pub fn parse_prefix(toks: &[&str]) -> Option<(Expr, usize)> {
    let head = *toks.first()?;
    match head {
        "T" => Some((Expr::True, 1)),
        "F" => Some((Expr::False, 1)),
        "isnull" => Some((Expr::IsNull(parse_col(toks.get(1)?)?), 2)),
        "notnull" => Some((Expr::NotNull(parse_col(toks.get(1)?)?), 2)),
        "in" => Some((Expr::In(parse_col(toks.get(1)?)?, parse_vlist(toks.get(2)?)?), 3)),
        "between" => Some((Expr::Between(parse_col(toks.get(1)?)?, parse_lit(toks.get(2)?)?, parse_lit(toks.get(3)?)?), 4)),
        "not" => {
            let (e, n) = parse_prefix(&toks[1..])?;
            Some((Expr::Not(Box::new(e)), n + 1))
        }
        "and" | "or" => {
            let (a, n) = parse_prefix(&toks[1..])?;
            let (b, m) = parse_prefix(&toks[1 + n..])?;
            let e = if head == "and" { Expr::And(Box::new(a), Box::new(b)) } else { Expr::Or(Box::new(a), Box::new(b)) };
            Some((e, 1 + n + m))
        }
        _ => {
            let op = Cmp::from_token(head)?;
            Some((Expr::Cmp(op, parse_col(toks.get(1)?)?, parse_operand(toks.get(2)?)?), 3))
        }
    }
}

/// parse a whole token list as exactly one expression
pub fn parse_all(toks: &[&str]) -> Option<Expr> {
    let (e, n) = parse_prefix(toks)?;
    if n == toks.len() {
        Some(e)
    } else {
        None
    }
}

pub fn show_vcell(c: &QCell) -> String {
    match c {
        None => "n".into(),
        Some(v) => v.to_string(),
    }
}

pub fn show(e: &Expr) -> String {
    match e {
        Expr::True => "T".into(),
        Expr::False => "F".into(),
        Expr::Cmp(op, c, Operand::Col(d)) => format!("{} c{c} c{d}", op.token()),
        Expr::Cmp(op, c, Operand::Lit(v)) => format!("{} c{c} {v}", op.token()),
        Expr::IsNull(c) => format!("isnull c{c}"),
        Expr::NotNull(c) => format!("notnull c{c}"),
        Expr::In(c, vs) => format!("in c{c} {}", vs.iter().map(show_vcell).collect::<Vec<_>>().join(",")),
        Expr::Between(c, lo, hi) => format!("between c{c} {lo} {hi}"),
        Expr::Not(a) => format!("not {}", show(a)),
        Expr::And(a, b) => format!("and {} {}", show(a), show(b)),
        Expr::Or(a, b) => format!("or {} {}", show(a), show(b)),
    }
}

// ------------------------------------------------------------------------------------------------
// SQL
// ------------------------------------------------------------------------------------------------

pub fn default_namer(i: usize) -> String {
    format!("c{i}")
}

pub fn to_sql(e: &Expr, namer: &dyn Fn(usize) -> String) -> String {
    match e {
        Expr::True => "TRUE".into(),
        Expr::False => "FALSE".into(),
        Expr::Cmp(op, c, Operand::Col(d)) => format!("{} {} {}", namer(*c), op.sql(), namer(*d)),
        Expr::Cmp(op, c, Operand::Lit(v)) => format!("{} {} {v}", namer(*c), op.sql()),
        Expr::IsNull(c) => format!("{} IS NULL", namer(*c)),
        Expr::NotNull(c) => format!("{} IS NOT NULL", namer(*c)),
        Expr::In(c, vs) => format!(
            "{} IN ({})",
            namer(*c),
            vs.iter().map(|v| v.map(|x| x.to_string()).unwrap_or_else(|| "NULL".into())).collect::<Vec<_>>().join(", ")
        ),
        Expr::Between(c, lo, hi) => format!("{} BETWEEN {lo} AND {hi}", namer(*c)),
        Expr::Not(a) => format!("NOT ({})", to_sql(a, namer)),
        Expr::And(a, b) => format!("({}) AND ({})", to_sql(a, namer), to_sql(b, namer)),
        Expr::Or(a, b) => format!("({}) OR ({})", to_sql(a, namer), to_sql(b, namer)),
    }
}

// ------------------------------------------------------------------------------------------------
// evaluation (used by generators for selectivity and by oracles as the SQL reference)
// ------------------------------------------------------------------------------------------------

pub fn cell_at(row: &[QCell], i: usize) -> QCell {
    row.get(i).copied().flatten()
}

pub fn eval3(e: &Expr, row: &[QCell]) -> Option<bool> {
    match e {
        Expr::True => Some(true),
        Expr::False => Some(false),
        Expr::Cmp(op, c, rhs) => {
            let a = cell_at(row, *c)?;
            let b = match rhs {
                Operand::Col(d) => cell_at(row, *d)?,
                Operand::Lit(v) => *v,
            };
            Some(op.holds(a, b))
        }
        Expr::IsNull(c) => Some(cell_at(row, *c).is_none()),
        Expr::NotNull(c) => Some(cell_at(row, *c).is_some()),
        Expr::In(c, vs) => {
            let x = cell_at(row, *c)?;
            if vs.iter().any(|v| *v == Some(x)) {
                Some(true)
            } else if vs.iter().any(|v| v.is_none()) {
                None
            } else {
                Some(false)
            }
        }
        Expr::Between(c, lo, hi) => {
            let x = cell_at(row, *c)?;
            Some(*lo <= x && x <= *hi)
        }
        Expr::Not(a) => eval3(a, row).map(|b| !b),
        Expr::And(a, b) => match (eval3(a, row), eval3(b, row)) {
            (Some(false), _) | (_, Some(false)) => Some(false),
            (Some(true), Some(true)) => Some(true),
            _ => None,
        },
        Expr::Or(a, b) => match (eval3(a, row), eval3(b, row)) {
            (Some(true), _) | (_, Some(true)) => Some(true),
            (Some(false), Some(false)) => Some(false),
            _ => None,
        },
    }
}

/// largest column index mentioned (None = mentions no column)
pub fn max_col(e: &Expr) -> Option<usize> {
    match e {
        Expr::True | Expr::False => None,
        Expr::Cmp(_, c, Operand::Col(d)) => Some(*c.max(d)),
        Expr::Cmp(_, c, _) | Expr::IsNull(c) | Expr::NotNull(c) | Expr::In(c, _) | Expr::Between(c, _, _) => Some(*c),
        Expr::Not(a) => max_col(a),
        Expr::And(a, b) | Expr::Or(a, b) => max_col(a).max(max_col(b)),
    }
}

/// does the expression mention column `c`?
pub fn mentions(e: &Expr, c: usize) -> bool {
    match e {
        Expr::True | Expr::False => false,
        Expr::Cmp(_, a, Operand::Col(d)) => *a == c || *d == c,
        Expr::Cmp(_, a, _) | Expr::IsNull(a) | Expr::NotNull(a) | Expr::In(a, _) | Expr::Between(a, _, _) => *a == c,
        Expr::Not(a) => mentions(a, c),
        Expr::And(a, b) | Expr::Or(a, b) => mentions(a, c) || mentions(b, c),
    }
}

/// does column `c` occur under a NOT, or in a `!=` comparison?  (the shapes lance's scalar-index planner turns into
/// `ScalarIndexExpr::Not`, whose two-valued answer also returns the rows where the column is NULL — C19's finding)
pub fn negates_col(e: &Expr, c: usize) -> bool {
    match e {
        Expr::Cmp(Cmp::Ne, a, Operand::Col(d)) => *a == c || *d == c,
        Expr::Cmp(Cmp::Ne, a, _) => *a == c,
        Expr::Not(a) => mentions(a, c),
        Expr::And(a, b) | Expr::Or(a, b) => negates_col(a, c) || negates_col(b, c),
        _ => false,
    }
}

fn inlike_cols(e: &Expr, out: &mut Vec<usize>) {
    match e {
        Expr::In(c, _) | Expr::Cmp(Cmp::Eq, c, Operand::Lit(_)) | Expr::Cmp(Cmp::Ne, c, Operand::Lit(_)) => out.push(*c),
        Expr::Not(a) => inlike_cols(a, out),
        Expr::And(a, b) | Expr::Or(a, b) => {
            inlike_cols(a, out);
            inlike_cols(b, out);
        }
        _ => {}
    }
}

/// does some column occur in two IN-like atoms (`IN (…)`, `= literal`, `!= literal`)?  DataFusion's simplifier merges such
/// atoms (`x = 1 OR x = 2` becomes `x IN (1, 2)`; `x IN (A) AND x IN (B)` becomes `x IN (A ∩ B)`, and FALSE when the
/// intersection is empty) without regard to NULLs: `NOT (c0 IN (-1,5,0) AND c0 IN (6,-2))` is TRUE for a NULL c0 after
/// simplification, NULL in SQL (C12 finding `datafusion_inlist_intersection_null`).  `gen_pred` never returns this shape.
pub fn has_mergeable_inlists(e: &Expr) -> bool {
    let mut cols = vec![];
    inlike_cols(e, &mut cols);
    cols.sort();
    cols.windows(2).any(|w| w[0] == w[1])
}

/// add `k` to every column index (used to address the second half of a combined row)
pub fn shift_cols(e: &Expr, f: &dyn Fn(usize) -> usize) -> Expr {
    match e {
        Expr::True => Expr::True,
        Expr::False => Expr::False,
        Expr::Cmp(op, c, Operand::Col(d)) => Expr::Cmp(*op, f(*c), Operand::Col(f(*d))),
        Expr::Cmp(op, c, r) => Expr::Cmp(*op, f(*c), *r),
        Expr::IsNull(c) => Expr::IsNull(f(*c)),
        Expr::NotNull(c) => Expr::NotNull(f(*c)),
        Expr::In(c, vs) => Expr::In(f(*c), vs.clone()),
        Expr::Between(c, lo, hi) => Expr::Between(f(*c), *lo, *hi),
        Expr::Not(a) => Expr::Not(Box::new(shift_cols(a, f))),
        Expr::And(a, b) => Expr::And(Box::new(shift_cols(a, f)), Box::new(shift_cols(b, f))),
        Expr::Or(a, b) => Expr::Or(Box::new(shift_cols(a, f)), Box::new(shift_cols(b, f))),
    }
}

// ------------------------------------------------------------------------------------------------
// generator
// ------------------------------------------------------------------------------------------------

#[derive(Clone, Debug)]
pub struct GenOpts {
    pub max_depth: usize,
    pub null_in_list: bool,
    /// columns the predicate must not mention
    pub avoid_cols: Vec<usize>,
    /// selectivity window in percent of rows on which the predicate is TRUE
    pub lo_pct: usize,
    pub hi_pct: usize,
}

impl Default for GenOpts {
    fn default() -> Self {
        Self { max_depth: 3, null_in_list: true, avoid_cols: vec![], lo_pct: 10, hi_pct: 60 }
    }
}

fn gen_lit(rng: &mut Rng, rows: &[Vec<QCell>], col: usize) -> i64 {
    let vals: Vec<i64> = rows.iter().filter_map(|r| cell_at(r, col)).collect();
    if vals.is_empty() || rng.chance(1, 8) {
        return rng.below(21) as i64 - 10;
    }
    let v = *rng.pick(&vals);
    v.saturating_add(rng.below(3) as i64 - 1).clamp(i64::MIN + 1, i64::MAX)
}

fn gen_atom(rng: &mut Rng, rows: &[Vec<QCell>], cols: &[usize], opts: &GenOpts) -> Expr {
    let c = *rng.pick(cols);
    match rng.below(20) {
        0 => Expr::True,
        1 => Expr::False,
        2 | 3 => Expr::IsNull(c),
        4 | 5 => Expr::NotNull(c),
        6..=8 => {
            let n = 1 + rng.usize(3);
            let mut vs: Vec<QCell> = (0..n).map(|_| Some(gen_lit(rng, rows, c))).collect();
            if opts.null_in_list && rng.chance(1, 6) {
                let at = rng.usize(vs.len() + 1);
                vs.insert(at, None);
            }
            Expr::In(c, vs)
        }
        9 | 10 => {
            let a = gen_lit(rng, rows, c);
            let b = gen_lit(rng, rows, c);
            if rng.chance(1, 10) {
                Expr::Between(c, a.max(b), a.min(b)) // empty range
            } else {
                Expr::Between(c, a.min(b), a.max(b))
            }
        }
        11..=13 if cols.len() > 1 => {
            let d = *rng.pick(cols);
            Expr::Cmp(*rng.pick(&Cmp::ALL), c, Operand::Col(d))
        }
        _ => Expr::Cmp(*rng.pick(&Cmp::ALL), c, Operand::Lit(gen_lit(rng, rows, c))),
    }
}

fn gen_expr(rng: &mut Rng, rows: &[Vec<QCell>], cols: &[usize], depth: usize, opts: &GenOpts) -> Expr {
    if depth == 0 || rng.chance(2, 5) {
        return gen_atom(rng, rows, cols, opts);
    }
    match rng.below(5) {
        0 | 1 => Expr::Not(Box::new(gen_expr(rng, rows, cols, depth - 1, opts))),
        2 | 3 => Expr::And(Box::new(gen_expr(rng, rows, cols, depth - 1, opts)), Box::new(gen_expr(rng, rows, cols, depth - 1, opts))),
        _ => Expr::Or(Box::new(gen_expr(rng, rows, cols, depth - 1, opts)), Box::new(gen_expr(rng, rows, cols, depth - 1, opts))),
    }
}

/// fraction (in percent) of `rows` on which `e` is TRUE
pub fn selectivity_pct(e: &Expr, rows: &[Vec<QCell>]) -> usize {
    if rows.is_empty() {
        return 0;
    }
    rows.iter().filter(|r| eval3(e, r) == Some(true)).count() * 100 / rows.len()
}

/// a predicate over columns `0..width` that is TRUE on `lo_pct..=hi_pct` percent of `rows` when one is found in 24 tries
pub fn gen_pred(rng: &mut Rng, rows: &[Vec<QCell>], width: usize, opts: &GenOpts) -> Expr {
    let cols: Vec<usize> = (0..width).filter(|c| !opts.avoid_cols.contains(c)).collect();
    if cols.is_empty() {
        return Expr::True;
    }
    let mut last = Expr::True;
    for _ in 0..24 {
        let depth = rng.usize(opts.max_depth + 1);
        let e = gen_expr(rng, rows, &cols, depth, opts);
        if has_mergeable_inlists(&e) {
            continue;
        }
        let s = selectivity_pct(&e, rows);
        if rows.is_empty() || (opts.lo_pct <= s && s <= opts.hi_pct) {
            return e;
        }
        last = e;
    }
    last
}
