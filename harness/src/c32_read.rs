//! C32: value tree -> real lance / prost values (the op lines carry values in `Debug` syntax).
use std::collections::HashMap;
use std::sync::Arc;

use super::tree::{R, T};
use lance::dataset::transaction::{
    DataReplacementGroup, Operation, RewriteGroup, RewrittenIndex, Transaction, UpdateMap, UpdateMapEntry, UpdateMode,
};
use lance_core::datatypes::{Dictionary, Encoding, Field, LogicalType, Schema};
use lance_file::format::pb as fpb;
use lance_index::mem_wal::{MemWal, MemWalId, State};
use lance_io::utils::CachedFileSize;
use lance_table::format::{
    pb, BasePath, DataFile, DataStorageFormat, DeletionFile, DeletionFileType, ExternalFile, Fragment, IndexMetadata,
    Manifest, RowDatasetVersionMeta, RowIdMeta, WriterVersion,
};

macro_rules! any {
    ($url:expr, $val:expr) => {{
        let mut a = pb::IndexMetadata::default().index_details.unwrap_or_default();
        a.type_url = $url;
        a.value = $val;
        a
    }};
}
pub(crate) use any;

fn opt_str(t: &T) -> R<Option<String>> {
    t.opt(|x| x.str())
}
fn opt_u32(t: &T) -> R<Option<u32>> {
    t.opt(|x| x.u32())
}
fn str_map(t: &T) -> R<HashMap<String, String>> {
    Ok(t.map(|k| k.str(), |v| v.str())?.into_iter().collect())
}
fn i32s(t: &T) -> R<Vec<i32>> {
    t.list(|x| x.i32())
}
fn u64s(t: &T) -> R<Vec<u64>> {
    t.list(|x| x.u64())
}
fn u32s(t: &T) -> R<Vec<u32>> {
    t.list(|x| x.u32())
}

// ---------------- in-memory values ----------------

pub fn external_file(t: &T) -> R<ExternalFile> {
    Ok(ExternalFile { path: t.field("path")?.str()?, offset: t.field("offset")?.u64()?, size: t.field("size")?.u64()? })
}

pub fn data_file(t: &T) -> R<DataFile> {
    let sz = match t.field("file_size_bytes")? {
        T::U(n, xs) if n == "CachedFileSize" && xs.len() == 1 => xs[0].u64()?,
        _ => return Err("CachedFileSize".into()),
    };
    Ok(DataFile {
        path: t.field("path")?.str()?,
        fields: i32s(t.field("fields")?)?,
        column_indices: i32s(t.field("column_indices")?)?,
        file_major_version: t.field("file_major_version")?.u32()?,
        file_minor_version: t.field("file_minor_version")?.u32()?,
        file_size_bytes: CachedFileSize::new(sz),
        base_id: opt_u32(t.field("base_id")?)?,
    })
}

pub fn deletion_file(t: &T) -> R<DeletionFile> {
    let ft = match t.field("file_type")?.rec_name() {
        "Array" => DeletionFileType::Array,
        "Bitmap" => DeletionFileType::Bitmap,
        o => return Err(format!("file_type {o}")),
    };
    Ok(DeletionFile {
        read_version: t.field("read_version")?.u64()?,
        id: t.field("id")?.u64()?,
        file_type: ft,
        num_deleted_rows: t.field("num_deleted_rows")?.opt(|x| x.usize())?,
        base_id: opt_u32(t.field("base_id")?)?,
    })
}

fn seq_meta(t: &T) -> R<(Option<Vec<u8>>, Option<ExternalFile>)> {
    let (n, xs) = t.variant()?;
    match (n, xs.len()) {
        ("Inline", 1) => Ok((Some(xs[0].bytes()?), None)),
        ("External", 1) => Ok((None, Some(external_file(&xs[0])?))),
        _ => Err(format!("seq meta {n}")),
    }
}

pub fn row_id_meta(t: &T) -> R<RowIdMeta> {
    Ok(match seq_meta(t)? {
        (Some(b), _) => RowIdMeta::Inline(b),
        (_, Some(f)) => RowIdMeta::External(f),
        _ => unreachable!(),
    })
}

pub fn version_meta(t: &T) -> R<RowDatasetVersionMeta> {
    Ok(match seq_meta(t)? {
        (Some(b), _) => RowDatasetVersionMeta::Inline(b),
        (_, Some(f)) => RowDatasetVersionMeta::External(f),
        _ => unreachable!(),
    })
}

pub fn fragment(t: &T) -> R<Fragment> {
    Ok(Fragment {
        id: t.field("id")?.u64()?,
        files: t.field("files")?.list(data_file)?,
        deletion_file: t.field("deletion_file")?.opt(deletion_file)?,
        row_id_meta: t.field("row_id_meta")?.opt(row_id_meta)?,
        physical_rows: t.field("physical_rows")?.opt(|x| x.usize())?,
        last_updated_at_version_meta: t.field("last_updated_at_version_meta")?.opt(version_meta)?,
        created_at_version_meta: t.field("created_at_version_meta")?.opt(version_meta)?,
    })
}

fn fragments(t: &T) -> R<Vec<Fragment>> {
    t.list(fragment)
}

pub fn field(t: &T) -> R<Field> {
    let lt = match t.field("logical_type")? {
        T::U(n, xs) if n == "LogicalType" && xs.len() == 1 => xs[0].str()?,
        _ => return Err("LogicalType".into()),
    };
    let enc = t.field("encoding")?.opt(|e| match e.rec_name() {
        "Plain" => Ok(Encoding::Plain),
        "VarBinary" => Ok(Encoding::VarBinary),
        "Dictionary" => Ok(Encoding::Dictionary),
        "RLE" => Ok(Encoding::RLE),
        o => Err(format!("encoding {o}")),
    })?;
    Ok(Field {
        name: t.field("name")?.str()?,
        id: t.field("id")?.i32()?,
        parent_id: t.field("parent_id")?.i32()?,
        logical_type: LogicalType::from(lt.as_str()),
        metadata: str_map(t.field("metadata")?)?,
        encoding: enc,
        nullable: t.field("nullable")?.bool()?,
        children: t.field("children")?.list(field)?,
        dictionary: t.field("dictionary")?.opt(|d| {
            Ok(Dictionary { offset: d.field("offset")?.usize()?, length: d.field("length")?.usize()?, values: None })
        })?,
        unenforced_primary_key: t.field("unenforced_primary_key")?.bool()?,
    })
}

pub fn schema(t: &T) -> R<Schema> {
    Ok(Schema { fields: t.field("fields")?.list(field)?, metadata: str_map(t.field("metadata")?)? })
}

pub fn base_path(t: &T) -> R<BasePath> {
    Ok(BasePath {
        id: t.field("id")?.u32()?,
        name: opt_str(t.field("name")?)?,
        is_dataset_root: t.field("is_dataset_root")?.bool()?,
        path: t.field("path")?.str()?,
    })
}

fn writer_version(t: &T) -> R<WriterVersion> {
    Ok(WriterVersion {
        library: t.field("library")?.str()?,
        version: t.field("version")?.str()?,
        prerelease: opt_str(t.field("prerelease")?)?,
        build_metadata: opt_str(t.field("build_metadata")?)?,
    })
}

fn storage_format(t: &T) -> R<DataStorageFormat> {
    Ok(DataStorageFormat { file_format: t.field("file_format")?.str()?, version: t.field("version")?.str()? })
}

pub fn manifest(t: &T) -> R<Manifest> {
    let base_paths: HashMap<u32, BasePath> = t.field("base_paths")?.map(|k| k.u32(), base_path)?.into_iter().collect();
    let mut m = Manifest::new(
        schema(t.field("schema")?)?,
        Arc::new(fragments(t.field("fragments")?)?),
        storage_format(t.field("data_storage_format")?)?,
        base_paths,
    );
    m.version = t.field("version")?.u64()?;
    m.branch = opt_str(t.field("branch")?)?;
    m.writer_version = t.field("writer_version")?.opt(writer_version)?;
    m.version_aux_data = t.field("version_aux_data")?.usize()?;
    m.index_section = t.field("index_section")?.opt(|x| x.usize())?;
    m.timestamp_nanos = t.field("timestamp_nanos")?.u128()?;
    m.tag = opt_str(t.field("tag")?)?;
    m.reader_feature_flags = t.field("reader_feature_flags")?.u64()?;
    m.writer_feature_flags = t.field("writer_feature_flags")?.u64()?;
    m.max_fragment_id = opt_u32(t.field("max_fragment_id")?)?;
    m.transaction_file = opt_str(t.field("transaction_file")?)?;
    m.transaction_section = t.field("transaction_section")?.opt(|x| x.usize())?;
    m.next_row_id = t.field("next_row_id")?.u64()?;
    m.config = str_map(t.field("config")?)?;
    m.table_metadata = str_map(t.field("table_metadata")?)?;
    Ok(m)
}

fn uuid(t: &T) -> R<uuid::Uuid> {
    match t {
        T::A(a) => uuid::Uuid::parse_str(a).map_err(|e| e.to_string()),
        _ => Err("uuid".into()),
    }
}

fn bitmap(t: &T) -> R<roaring::RoaringBitmap> {
    match t {
        T::U(n, xs) if n == "Bm" && xs.len() == 1 => Ok(u32s(&xs[0])?.into_iter().collect()),
        _ => Err("bitmap (only the member-list form can be read)".into()),
    }
}

fn date_time(t: &T) -> R<chrono::DateTime<chrono::Utc>> {
    match t {
        T::U(n, xs) if n == "At" && xs.len() == 1 => {
            let v = xs[0].i128()?;
            chrono::DateTime::from_timestamp(v.div_euclid(1_000_000_000) as i64, v.rem_euclid(1_000_000_000) as u32)
                .ok_or_else(|| "date range".to_string())
        }
        _ => Err("At".into()),
    }
}

pub fn index_metadata(t: &T) -> R<IndexMetadata> {
    Ok(IndexMetadata {
        uuid: uuid(t.field("uuid")?)?,
        fields: i32s(t.field("fields")?)?,
        name: t.field("name")?.str()?,
        dataset_version: t.field("dataset_version")?.u64()?,
        fragment_bitmap: t.field("fragment_bitmap")?.opt(bitmap)?,
        index_details: t
            .field("index_details")?
            .opt(|a| Ok(Arc::new(any!(a.field("type_url")?.str()?, a.field("value")?.bytes()?))))?,
        index_version: t.field("index_version")?.i32()?,
        created_at: t.field("created_at")?.opt(date_time)?,
        base_id: opt_u32(t.field("base_id")?)?,
    })
}

pub fn mem_wal(t: &T) -> R<MemWal> {
    let id = t.field("id")?;
    let st = match t.field("state")?.rec_name() {
        "Open" => State::Open,
        "Sealed" => State::Sealed,
        "Flushed" => State::Flushed,
        "Merged" => State::Merged,
        o => return Err(format!("state {o}")),
    };
    Ok(MemWal {
        id: MemWalId { region: id.field("region")?.str()?, generation: id.field("generation")?.u64()? },
        mem_table_location: t.field("mem_table_location")?.str()?,
        wal_location: t.field("wal_location")?.str()?,
        wal_entries: t.field("wal_entries")?.bytes()?,
        state: st,
        owner_id: t.field("owner_id")?.str()?,
        last_updated_dataset_version: t.field("last_updated_dataset_version")?.u64()?,
    })
}

fn update_map(t: &T) -> R<UpdateMap> {
    Ok(UpdateMap {
        update_entries: t
            .field("update_entries")?
            .list(|e| Ok(UpdateMapEntry { key: e.field("key")?.str()?, value: opt_str(e.field("value")?)? }))?,
        replace: t.field("replace")?.bool()?,
    })
}

fn rewrite_group(t: &T) -> R<RewriteGroup> {
    Ok(RewriteGroup { old_fragments: fragments(t.field("old_fragments")?)?, new_fragments: fragments(t.field("new_fragments")?)? })
}

fn rewritten_index(t: &T) -> R<RewrittenIndex> {
    let d = t.field("new_index_details")?;
    Ok(RewrittenIndex {
        old_id: uuid(t.field("old_id")?)?,
        new_id: uuid(t.field("new_id")?)?,
        new_index_details: any!(d.field("type_url")?.str()?, d.field("value")?.bytes()?),
        new_index_version: t.field("new_index_version")?.u32()?,
    })
}

pub fn operation(t: &T) -> R<Operation> {
    Ok(match t.rec_name() {
        "Append" => Operation::Append { fragments: fragments(t.field("fragments")?)? },
        "Delete" => Operation::Delete {
            updated_fragments: fragments(t.field("updated_fragments")?)?,
            deleted_fragment_ids: u64s(t.field("deleted_fragment_ids")?)?,
            predicate: t.field("predicate")?.str()?,
        },
        "Overwrite" => Operation::Overwrite {
            fragments: fragments(t.field("fragments")?)?,
            schema: schema(t.field("schema")?)?,
            config_upsert_values: t.field("config_upsert_values")?.opt(str_map)?,
            initial_bases: t.field("initial_bases")?.opt(|b| b.list(base_path))?,
        },
        "CreateIndex" => Operation::CreateIndex {
            new_indices: t.field("new_indices")?.list(index_metadata)?,
            removed_indices: t.field("removed_indices")?.list(index_metadata)?,
        },
        "Rewrite" => Operation::Rewrite {
            groups: t.field("groups")?.list(rewrite_group)?,
            rewritten_indices: t.field("rewritten_indices")?.list(rewritten_index)?,
            frag_reuse_index: t.field("frag_reuse_index")?.opt(index_metadata)?,
        },
        "DataReplacement" => Operation::DataReplacement {
            replacements: t.field("replacements")?.list(|g| match g {
                T::U(n, xs) if n == "DataReplacementGroup" && xs.len() == 2 => {
                    Ok(DataReplacementGroup(xs[0].u64()?, data_file(&xs[1])?))
                }
                _ => Err("DataReplacementGroup".into()),
            })?,
        },
        "Merge" => Operation::Merge { fragments: fragments(t.field("fragments")?)?, schema: schema(t.field("schema")?)? },
        "Restore" => Operation::Restore { version: t.field("version")?.u64()? },
        "ReserveFragments" => Operation::ReserveFragments { num_fragments: t.field("num_fragments")?.u32()? },
        "Update" => Operation::Update {
            removed_fragment_ids: u64s(t.field("removed_fragment_ids")?)?,
            updated_fragments: fragments(t.field("updated_fragments")?)?,
            new_fragments: fragments(t.field("new_fragments")?)?,
            fields_modified: u32s(t.field("fields_modified")?)?,
            mem_wal_to_merge: t.field("mem_wal_to_merge")?.opt(mem_wal)?,
            fields_for_preserving_frag_bitmap: u32s(t.field("fields_for_preserving_frag_bitmap")?)?,
            update_mode: t.field("update_mode")?.opt(|m| match m.rec_name() {
                "RewriteRows" => Ok(UpdateMode::RewriteRows),
                "RewriteColumns" => Ok(UpdateMode::RewriteColumns),
                o => Err(format!("update mode {o}")),
            })?,
        },
        "Project" => Operation::Project { schema: schema(t.field("schema")?)? },
        "UpdateConfig" => Operation::UpdateConfig {
            config_updates: t.field("config_updates")?.opt(update_map)?,
            table_metadata_updates: t.field("table_metadata_updates")?.opt(update_map)?,
            schema_metadata_updates: t.field("schema_metadata_updates")?.opt(update_map)?,
            field_metadata_updates: t.field("field_metadata_updates")?.map(|k| k.i32(), update_map)?.into_iter().collect(),
        },
        "UpdateMemWalState" => Operation::UpdateMemWalState {
            added: t.field("added")?.list(mem_wal)?,
            updated: t.field("updated")?.list(mem_wal)?,
            removed: t.field("removed")?.list(mem_wal)?,
        },
        "Clone" => Operation::Clone {
            is_shallow: t.field("is_shallow")?.bool()?,
            ref_name: opt_str(t.field("ref_name")?)?,
            ref_version: t.field("ref_version")?.u64()?,
            ref_path: t.field("ref_path")?.str()?,
            branch_name: opt_str(t.field("branch_name")?)?,
        },
        "UpdateBases" => Operation::UpdateBases { new_bases: t.field("new_bases")?.list(base_path)? },
        o => return Err(format!("operation {o}")),
    })
}

pub fn transaction(t: &T) -> R<Transaction> {
    Ok(Transaction {
        read_version: t.field("read_version")?.u64()?,
        uuid: t.field("uuid")?.str()?,
        operation: operation(t.field("operation")?)?,
        tag: opt_str(t.field("tag")?)?,
        transaction_properties: t.field("transaction_properties")?.opt(|m| Ok(Arc::new(str_map(m)?)))?,
    })
}

// ---------------- protobuf messages ----------------

fn enum_i32(t: &T, names: &[&str]) -> R<i32> {
    match t {
        T::A(a) => match names.iter().position(|n| n == a) {
            Some(i) => Ok(i as i32),
            None => a.parse().map_err(|_| format!("enum {a}")),
        },
        _ => Err("enum".into()),
    }
}

fn pb_external(t: &T) -> R<pb::ExternalFile> {
    Ok(pb::ExternalFile { path: t.field("path")?.str()?, offset: t.field("offset")?.u64()?, size: t.field("size")?.u64()? })
}

pub fn pb_data_file(t: &T) -> R<pb::DataFile> {
    Ok(pb::DataFile {
        path: t.field("path")?.str()?,
        fields: i32s(t.field("fields")?)?,
        column_indices: i32s(t.field("column_indices")?)?,
        file_major_version: t.field("file_major_version")?.u32()?,
        file_minor_version: t.field("file_minor_version")?.u32()?,
        file_size_bytes: t.field("file_size_bytes")?.u64()?,
        base_id: opt_u32(t.field("base_id")?)?,
    })
}

pub fn pb_deletion_file(t: &T) -> R<pb::DeletionFile> {
    Ok(pb::DeletionFile {
        file_type: enum_i32(t.field("file_type")?, &["ArrowArray", "Bitmap"])?,
        read_version: t.field("read_version")?.u64()?,
        id: t.field("id")?.u64()?,
        num_deleted_rows: t.field("num_deleted_rows")?.u64()?,
        base_id: opt_u32(t.field("base_id")?)?,
    })
}

pub fn pb_fragment(t: &T) -> R<pb::DataFragment> {
    use pb::data_fragment as df;
    let one = |t: &T| -> R<(String, Option<Vec<u8>>, Option<pb::ExternalFile>)> {
        let (n, xs) = t.variant()?;
        if xs.len() != 1 {
            return Err("oneof".into());
        }
        if n.starts_with("Inline") {
            Ok((n.to_string(), Some(xs[0].bytes()?), None))
        } else {
            Ok((n.to_string(), None, Some(pb_external(&xs[0])?)))
        }
    };
    Ok(pb::DataFragment {
        id: t.field("id")?.u64()?,
        files: t.field("files")?.list(pb_data_file)?,
        deletion_file: t.field("deletion_file")?.opt(pb_deletion_file)?,
        physical_rows: t.field("physical_rows")?.u64()?,
        row_id_sequence: t.field("row_id_sequence")?.opt(|x| {
            Ok(match one(x)? {
                (_, Some(b), _) => df::RowIdSequence::InlineRowIds(b),
                (_, _, Some(f)) => df::RowIdSequence::ExternalRowIds(f),
                _ => unreachable!(),
            })
        })?,
        last_updated_at_version_sequence: t.field("last_updated_at_version_sequence")?.opt(|x| {
            Ok(match one(x)? {
                (_, Some(b), _) => df::LastUpdatedAtVersionSequence::InlineLastUpdatedAtVersions(b),
                (_, _, Some(f)) => df::LastUpdatedAtVersionSequence::ExternalLastUpdatedAtVersions(f),
                _ => unreachable!(),
            })
        })?,
        created_at_version_sequence: t.field("created_at_version_sequence")?.opt(|x| {
            Ok(match one(x)? {
                (_, Some(b), _) => df::CreatedAtVersionSequence::InlineCreatedAtVersions(b),
                (_, _, Some(f)) => df::CreatedAtVersionSequence::ExternalCreatedAtVersions(f),
                _ => unreachable!(),
            })
        })?,
    })
}

fn pb_fragments(t: &T) -> R<Vec<pb::DataFragment>> {
    t.list(pb_fragment)
}

fn bytes_map(t: &T) -> R<HashMap<String, Vec<u8>>> {
    Ok(t.map(|k| k.str(), |v| v.bytes())?.into_iter().collect())
}

pub fn pb_field(t: &T) -> R<fpb::Field> {
    Ok(fpb::Field {
        r#type: enum_i32(t.field("r#type")?, &["Parent", "Repeated", "Leaf"])?,
        name: t.field("name")?.str()?,
        id: t.field("id")?.i32()?,
        parent_id: t.field("parent_id")?.i32()?,
        logical_type: t.field("logical_type")?.str()?,
        nullable: t.field("nullable")?.bool()?,
        metadata: bytes_map(t.field("metadata")?)?,
        unenforced_primary_key: t.field("unenforced_primary_key")?.bool()?,
        encoding: enum_i32(t.field("encoding")?, &["None", "Plain", "VarBinary", "Dictionary", "Rle"])?,
        dictionary: t
            .field("dictionary")?
            .opt(|d| Ok(fpb::Dictionary { offset: d.field("offset")?.i64()?, length: d.field("length")?.i64()? }))?,
        extension_name: t.field("extension_name")?.str()?,
    })
}

fn pb_base_path(t: &T) -> R<pb::BasePath> {
    Ok(pb::BasePath {
        id: t.field("id")?.u32()?,
        name: opt_str(t.field("name")?)?,
        is_dataset_root: t.field("is_dataset_root")?.bool()?,
        path: t.field("path")?.str()?,
    })
}

pub fn pb_manifest(t: &T) -> R<pb::Manifest> {
    let mut m = pb::Manifest::default();
    m.fields = t.field("fields")?.list(pb_field)?;
    m.schema_metadata = bytes_map(t.field("schema_metadata")?)?;
    m.fragments = pb_fragments(t.field("fragments")?)?;
    m.version = t.field("version")?.u64()?;
    m.version_aux_data = t.field("version_aux_data")?.u64()?;
    m.writer_version = t.field("writer_version")?.opt(|w| {
        Ok(pb::manifest::WriterVersion {
            library: w.field("library")?.str()?,
            version: w.field("version")?.str()?,
            prerelease: opt_str(w.field("prerelease")?)?,
            build_metadata: opt_str(w.field("build_metadata")?)?,
        })
    })?;
    m.index_section = t.field("index_section")?.opt(|x| x.u64())?;
    if let Some((s, n)) = t.field("timestamp")?.opt(|ts| Ok((ts.field("seconds")?.i64()?, ts.field("nanos")?.i32()?)))? {
        let mut ts = pb::Manifest::default().timestamp.unwrap_or_default();
        ts.seconds = s;
        ts.nanos = n;
        m.timestamp = Some(ts);
    }
    m.tag = t.field("tag")?.str()?;
    m.reader_feature_flags = t.field("reader_feature_flags")?.u64()?;
    m.writer_feature_flags = t.field("writer_feature_flags")?.u64()?;
    m.max_fragment_id = opt_u32(t.field("max_fragment_id")?)?;
    m.transaction_file = t.field("transaction_file")?.str()?;
    m.transaction_section = t.field("transaction_section")?.opt(|x| x.u64())?;
    m.next_row_id = t.field("next_row_id")?.u64()?;
    m.data_format = t.field("data_format")?.opt(|f| {
        Ok(pb::manifest::DataStorageFormat { file_format: f.field("file_format")?.str()?, version: f.field("version")?.str()? })
    })?;
    m.config = str_map(t.field("config")?)?;
    m.table_metadata = str_map(t.field("table_metadata")?)?;
    m.base_paths = t.field("base_paths")?.list(pb_base_path)?;
    m.branch = opt_str(t.field("branch")?)?;
    Ok(m)
}

fn pb_uuid(t: &T) -> R<Option<pb::Uuid>> {
    t.opt(|u| Ok(pb::Uuid { uuid: u.field("uuid")?.bytes()? }))
}

/// `[]` = no bytes, `Bm([..])` = roaring serialisation of the set, `Garbage` = bytes roaring rejects
fn pb_bitmap_bytes(t: &T) -> R<Vec<u8>> {
    match t {
        T::L(xs) if xs.is_empty() => Ok(vec![]),
        T::U(n, xs) if n == "Bm" && xs.len() == 1 => {
            let bm: roaring::RoaringBitmap = u32s(&xs[0])?.into_iter().collect();
            let mut out = vec![];
            bm.serialize_into(&mut out).map_err(|e| e.to_string())?;
            Ok(out)
        }
        T::A(a) if a == "Garbage" => Ok(vec![1, 2, 3]),
        _ => Err("bitmap bytes".into()),
    }
}

pub fn pb_index_metadata(t: &T) -> R<pb::IndexMetadata> {
    Ok(pb::IndexMetadata {
        uuid: pb_uuid(t.field("uuid")?)?,
        fields: i32s(t.field("fields")?)?,
        name: t.field("name")?.str()?,
        dataset_version: t.field("dataset_version")?.u64()?,
        fragment_bitmap: pb_bitmap_bytes(t.field("fragment_bitmap")?)?,
        index_details: t.field("index_details")?.opt(|a| Ok(any!(a.field("type_url")?.str()?, a.field("value")?.bytes()?)))?,
        index_version: t.field("index_version")?.opt(|x| x.i32())?,
        created_at: t.field("created_at")?.opt(|x| x.u64())?,
        base_id: opt_u32(t.field("base_id")?)?,
    })
}

pub fn pb_mem_wal(t: &T) -> R<pb::mem_wal_index_details::MemWal> {
    Ok(pb::mem_wal_index_details::MemWal {
        id: t.field("id")?.opt(|i| {
            Ok(pb::mem_wal_index_details::MemWalId { region: i.field("region")?.str()?, generation: i.field("generation")?.u64()? })
        })?,
        mem_table_location: t.field("mem_table_location")?.str()?,
        wal_location: t.field("wal_location")?.str()?,
        wal_entries: t.field("wal_entries")?.bytes()?,
        state: enum_i32(t.field("state")?, &["Open", "Sealed", "Flushed", "Merged"])?,
        owner_id: t.field("owner_id")?.str()?,
        last_updated_dataset_version: t.field("last_updated_dataset_version")?.u64()?,
    })
}

fn pb_update_map(t: &T) -> R<pb::transaction::UpdateMap> {
    Ok(pb::transaction::UpdateMap {
        update_entries: t.field("update_entries")?.list(|e| {
            Ok(pb::transaction::UpdateMapEntry { key: e.field("key")?.str()?, value: opt_str(e.field("value")?)? })
        })?,
        replace: t.field("replace")?.bool()?,
    })
}

pub fn pb_operation(t0: &T) -> R<pb::transaction::Operation> {
    use pb::transaction as tx;
    use pb::transaction::Operation as O;
    let (name, xs) = t0.variant()?;
    if xs.len() != 1 {
        return Err("operation payload".into());
    }
    let t = &xs[0];
    Ok(match name {
        "Append" => O::Append(tx::Append { fragments: pb_fragments(t.field("fragments")?)? }),
        "Delete" => O::Delete(tx::Delete {
            updated_fragments: pb_fragments(t.field("updated_fragments")?)?,
            deleted_fragment_ids: u64s(t.field("deleted_fragment_ids")?)?,
            predicate: t.field("predicate")?.str()?,
        }),
        "Overwrite" => O::Overwrite(tx::Overwrite {
            fragments: pb_fragments(t.field("fragments")?)?,
            schema: t.field("schema")?.list(pb_field)?,
            schema_metadata: bytes_map(t.field("schema_metadata")?)?,
            config_upsert_values: str_map(t.field("config_upsert_values")?)?,
            initial_bases: t.field("initial_bases")?.list(pb_base_path)?,
        }),
        "CreateIndex" => O::CreateIndex(tx::CreateIndex {
            new_indices: t.field("new_indices")?.list(pb_index_metadata)?,
            removed_indices: t.field("removed_indices")?.list(pb_index_metadata)?,
        }),
        "Rewrite" => O::Rewrite(tx::Rewrite {
            old_fragments: pb_fragments(t.field("old_fragments")?)?,
            new_fragments: pb_fragments(t.field("new_fragments")?)?,
            groups: t.field("groups")?.list(|g| {
                Ok(tx::rewrite::RewriteGroup {
                    old_fragments: pb_fragments(g.field("old_fragments")?)?,
                    new_fragments: pb_fragments(g.field("new_fragments")?)?,
                })
            })?,
            rewritten_indices: t.field("rewritten_indices")?.list(|r| {
                Ok(tx::rewrite::RewrittenIndex {
                    old_id: pb_uuid(r.field("old_id")?)?,
                    new_id: pb_uuid(r.field("new_id")?)?,
                    new_index_details: r
                        .field("new_index_details")?
                        .opt(|a| Ok(any!(a.field("type_url")?.str()?, a.field("value")?.bytes()?)))?,
                    new_index_version: r.field("new_index_version")?.u32()?,
                })
            })?,
        }),
        "Merge" => O::Merge(tx::Merge {
            fragments: pb_fragments(t.field("fragments")?)?,
            schema: t.field("schema")?.list(pb_field)?,
            schema_metadata: bytes_map(t.field("schema_metadata")?)?,
        }),
        "Restore" => O::Restore(tx::Restore { version: t.field("version")?.u64()? }),
        "ReserveFragments" => O::ReserveFragments(tx::ReserveFragments { num_fragments: t.field("num_fragments")?.u32()? }),
        "Update" => O::Update(tx::Update {
            removed_fragment_ids: u64s(t.field("removed_fragment_ids")?)?,
            updated_fragments: pb_fragments(t.field("updated_fragments")?)?,
            new_fragments: pb_fragments(t.field("new_fragments")?)?,
            fields_modified: u32s(t.field("fields_modified")?)?,
            mem_wal_to_merge: t.field("mem_wal_to_merge")?.opt(pb_mem_wal)?,
            fields_for_preserving_frag_bitmap: u32s(t.field("fields_for_preserving_frag_bitmap")?)?,
            update_mode: enum_i32(t.field("update_mode")?, &["RewriteRows", "RewriteColumns"])?,
        }),
        "Project" => O::Project(tx::Project { schema: t.field("schema")?.list(pb_field)? }),
        "UpdateConfig" => O::UpdateConfig(tx::UpdateConfig {
            config_updates: t.field("config_updates")?.opt(pb_update_map)?,
            table_metadata_updates: t.field("table_metadata_updates")?.opt(pb_update_map)?,
            schema_metadata_updates: t.field("schema_metadata_updates")?.opt(pb_update_map)?,
            field_metadata_updates: t.field("field_metadata_updates")?.map(|k| k.i32(), pb_update_map)?.into_iter().collect(),
            upsert_values: str_map(t.field("upsert_values")?)?,
            delete_keys: t.field("delete_keys")?.list(|x| x.str())?,
            schema_metadata: str_map(t.field("schema_metadata")?)?,
            field_metadata: t
                .field("field_metadata")?
                .map(|k| k.u32(), |m| Ok(tx::update_config::FieldMetadataUpdate { metadata: str_map(m.field("metadata")?)? }))?
                .into_iter()
                .collect(),
        }),
        "DataReplacement" => O::DataReplacement(tx::DataReplacement {
            replacements: t.field("replacements")?.list(|g| {
                Ok(tx::DataReplacementGroup {
                    fragment_id: g.field("fragment_id")?.u64()?,
                    new_file: g.field("new_file")?.opt(pb_data_file)?,
                })
            })?,
        }),
        "UpdateMemWalState" => O::UpdateMemWalState(tx::UpdateMemWalState {
            added: t.field("added")?.list(pb_mem_wal)?,
            updated: t.field("updated")?.list(pb_mem_wal)?,
            removed: t.field("removed")?.list(pb_mem_wal)?,
        }),
        "Clone" => O::Clone(tx::Clone {
            is_shallow: t.field("is_shallow")?.bool()?,
            ref_name: opt_str(t.field("ref_name")?)?,
            ref_version: t.field("ref_version")?.u64()?,
            ref_path: t.field("ref_path")?.str()?,
            branch_name: opt_str(t.field("branch_name")?)?,
        }),
        "UpdateBases" => O::UpdateBases(tx::UpdateBases { new_bases: t.field("new_bases")?.list(pb_base_path)? }),
        o => return Err(format!("pb operation {o}")),
    })
}

pub fn pb_transaction(t: &T) -> R<pb::Transaction> {
    Ok(pb::Transaction {
        read_version: t.field("read_version")?.u64()?,
        uuid: t.field("uuid")?.str()?,
        tag: t.field("tag")?.str()?,
        transaction_properties: str_map(t.field("transaction_properties")?)?,
        operation: t.field("operation")?.opt(pb_operation)?,
    })
}

pub fn pb_enc_array(t: &T) -> R<pb::EncodedU64Array> {
    use pb::encoded_u64_array as ea;
    let arr = t.field("array")?.opt(|k| {
        let (n, xs) = k.variant()?;
        if xs.len() != 1 {
            return Err("array payload".into());
        }
        let x = &xs[0];
        Ok(match n {
            "U16Array" => ea::Array::U16Array(ea::U16Array { base: x.field("base")?.u64()?, offsets: x.field("offsets")?.bytes()? }),
            "U32Array" => ea::Array::U32Array(ea::U32Array { base: x.field("base")?.u64()?, offsets: x.field("offsets")?.bytes()? }),
            "U64Array" => ea::Array::U64Array(ea::U64Array { values: x.field("values")?.bytes()? }),
            o => return Err(format!("array kind {o}")),
        })
    })?;
    Ok(pb::EncodedU64Array { array: arr })
}

pub fn pb_segment(t: &T) -> R<pb::U64Segment> {
    use pb::u64_segment as us;
    let seg = t.field("segment")?.opt(|k| {
        let (n, xs) = k.variant()?;
        if xs.len() != 1 {
            return Err("segment payload".into());
        }
        let x = &xs[0];
        Ok(match n {
            "Range" => us::Segment::Range(us::Range { start: x.field("start")?.u64()?, end: x.field("end")?.u64()? }),
            "RangeWithHoles" => us::Segment::RangeWithHoles(us::RangeWithHoles {
                start: x.field("start")?.u64()?,
                end: x.field("end")?.u64()?,
                holes: x.field("holes")?.opt(pb_enc_array)?,
            }),
            "RangeWithBitmap" => us::Segment::RangeWithBitmap(us::RangeWithBitmap {
                start: x.field("start")?.u64()?,
                end: x.field("end")?.u64()?,
                bitmap: x.field("bitmap")?.bytes()?,
            }),
            "SortedArray" => us::Segment::SortedArray(pb_enc_array(x)?),
            "Array" => us::Segment::Array(pb_enc_array(x)?),
            o => return Err(format!("segment kind {o}")),
        })
    })?;
    Ok(pb::U64Segment { segment: seg })
}

pub fn pb_row_id_sequence(t: &T) -> R<pb::RowIdSequence> {
    Ok(pb::RowIdSequence { segments: t.field("segments")?.list(pb_segment)? })
}

pub fn pb_version_sequence(t: &T) -> R<pb::RowDatasetVersionSequence> {
    Ok(pb::RowDatasetVersionSequence {
        runs: t
            .field("runs")?
            .list(|r| Ok(pb::RowDatasetVersionRun { span: r.field("span")?.opt(pb_segment)?, version: r.field("version")?.u64()? }))?,
    })
}
