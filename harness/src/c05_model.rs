//! C05 helper: the projection of a REAL lance manifest / transaction to the structure the Lean model
//! (`lean/LanceModel/C05/Model.lean`) works on, its canonical text, and the harness's OWN evaluation of the
//! well-formedness predicate `WF` and of the transaction precondition `Valid` (the property oracle; it never looks
//! at the Lean model).
//!
//! Canonical text (no token contains a space)
//! ```text
//! ints     ::= "_" | int ("," int)*
//! frag     ::= id ":" rows ":" dels(ints) ":" rid("n"|nat) ":" files        files ::= "_" | file ("/" file)*   file ::= "e" | ints
//! frags    ::= "_" | frag (";" frag)*
//! index    ::= name ":" uuid# ":" fields(ints) ":" bitmap("n"|ints)
//! indices  ::= "_" | index (";" index)*
//! txn      ::= overwrite s=<0|1> sch=<ints> frags=<frags> | append frags=<frags> | delete upd=<frags> del=<ints>
//!            | update rm=<ints> upd=<frags> new=<frags> fm=<ints> fp=<ints> rr=<0|1>
//!            | rewrite groups=<"_"|group("+"group)*> ri=<"_"|old">"new(","…)*>      group ::= oldids(ints) ">" frags
//!            | merge sch=<ints> frags=<frags> | project sch=<ints> | createindex new=<indices> rm=<ints>
//!            | reserve n=<nat> | config | restore v=<nat> | other
//! ```

use std::collections::{BTreeSet, HashMap, HashSet};

#[derive(Clone, Debug, PartialEq, Eq)]
pub struct MFrag {
    pub id: u64,
    pub files: Vec<Vec<i32>>,
    pub rows: u64,
    pub dels: Vec<u64>,
    pub rid: Option<u64>,
}

#[derive(Clone, Debug, PartialEq, Eq)]
pub struct MIndex {
    pub name: String,
    pub uuid: usize,
    pub fields: Vec<i32>,
    pub bitmap: Option<Vec<u64>>,
}

#[derive(Clone, Debug, PartialEq, Eq)]
pub struct MManifest {
    pub version: u64,
    pub stable: bool,
    pub schema: Vec<i32>,
    pub frags: Vec<MFrag>,
    pub max_frag: Option<u64>,
    pub next_row_id: u64,
    pub indices: Vec<MIndex>,
}

#[derive(Clone, Debug, PartialEq, Eq)]
pub enum MOp {
    Overwrite { cfg_stable: bool, schema: Vec<i32>, frags: Vec<MFrag> },
    Append { frags: Vec<MFrag> },
    Delete { updated: Vec<MFrag>, deleted: Vec<u64> },
    Update { removed: Vec<u64>, updated: Vec<MFrag>, new: Vec<MFrag>, fm: Vec<i32>, fp: Vec<i32>, rewrite_rows: bool },
    Rewrite { groups: Vec<(Vec<u64>, Vec<MFrag>)>, rewritten: Vec<(usize, usize)> },
    Merge { schema: Vec<i32>, frags: Vec<MFrag> },
    Project { schema: Vec<i32> },
    CreateIndex { new: Vec<MIndex>, removed: Vec<usize> },
    Reserve { n: u64 },
    Config,
    Restore { version: u64 },
    Other,
}

// ------------------------------------------------------------------------------------------------
// text
// ------------------------------------------------------------------------------------------------

pub fn show_ints<T: ToString>(xs: &[T]) -> String {
    if xs.is_empty() {
        "_".into()
    } else {
        xs.iter().map(|x| x.to_string()).collect::<Vec<_>>().join(",")
    }
}

pub fn show_frag(f: &MFrag) -> String {
    let files = if f.files.is_empty() {
        "_".to_string()
    } else {
        f.files.iter().map(|x| if x.is_empty() { "e".to_string() } else { show_ints(x) }).collect::<Vec<_>>().join("/")
    };
    format!(
        "{}:{}:{}:{}:{}",
        f.id,
        f.rows,
        show_ints(&f.dels),
        f.rid.map(|k| k.to_string()).unwrap_or_else(|| "n".into()),
        files
    )
}

pub fn show_frags(fs: &[MFrag]) -> String {
    if fs.is_empty() {
        "_".into()
    } else {
        fs.iter().map(show_frag).collect::<Vec<_>>().join(";")
    }
}

pub fn show_index(ix: &MIndex) -> String {
    format!(
        "{}:{}:{}:{}",
        ix.name,
        ix.uuid,
        show_ints(&ix.fields),
        match &ix.bitmap {
            None => "n".to_string(),
            Some(b) => show_ints(b),
        }
    )
}

pub fn show_indices(xs: &[MIndex]) -> String {
    if xs.is_empty() {
        "_".into()
    } else {
        xs.iter().map(show_index).collect::<Vec<_>>().join(";")
    }
}

pub fn show_op(op: &MOp) -> String {
    match op {
        MOp::Overwrite { cfg_stable, schema, frags } => {
            format!("overwrite s={} sch={} frags={}", *cfg_stable as u8, show_ints(schema), show_frags(frags))
        }
        MOp::Append { frags } => format!("append frags={}", show_frags(frags)),
        MOp::Delete { updated, deleted } => format!("delete upd={} del={}", show_frags(updated), show_ints(deleted)),
        MOp::Update { removed, updated, new, fm, fp, rewrite_rows } => format!(
            "update rm={} upd={} new={} fm={} fp={} rr={}",
            show_ints(removed),
            show_frags(updated),
            show_frags(new),
            show_ints(fm),
            show_ints(fp),
            *rewrite_rows as u8
        ),
        MOp::Rewrite { groups, rewritten } => {
            let g = if groups.is_empty() {
                "_".to_string()
            } else {
                groups.iter().map(|(o, n)| format!("{}>{}", show_ints(o), show_frags(n))).collect::<Vec<_>>().join("+")
            };
            let r = if rewritten.is_empty() {
                "_".to_string()
            } else {
                rewritten.iter().map(|(a, b)| format!("{a}>{b}")).collect::<Vec<_>>().join(",")
            };
            format!("rewrite groups={g} ri={r}")
        }
        MOp::Merge { schema, frags } => format!("merge sch={} frags={}", show_ints(schema), show_frags(frags)),
        MOp::Project { schema } => format!("project sch={}", show_ints(schema)),
        MOp::CreateIndex { new, removed } => format!("createindex new={} rm={}", show_indices(new), show_ints(removed)),
        MOp::Reserve { n } => format!("reserve n={n}"),
        MOp::Config => "config".into(),
        MOp::Restore { version } => format!("restore v={version}"),
        MOp::Other => "other".into(),
    }
}

/// the part of an output line that dumps one committed version
pub fn show_manifest(m: &MManifest) -> String {
    format!(
        "v={} st={} sch={} max={} nrid={} frags={} idx={}",
        m.version,
        m.stable as u8,
        show_ints(&m.schema),
        m.max_frag.map(|x| x.to_string()).unwrap_or_else(|| "n".into()),
        m.next_row_id,
        show_frags(&m.frags),
        show_indices(&{
            // bitmaps have set semantics: print sorted
            let mut v = m.indices.clone();
            for ix in v.iter_mut() {
                if let Some(b) = ix.bitmap.as_mut() {
                    b.sort();
                    b.dedup();
                }
            }
            v
        })
    )
}

// ------------------------------------------------------------------------------------------------
// the oracle's own predicates (mirrors of `WF`, `FilesLive`, `Valid` — written against the property text, ≤ 20
// lines each)
// ------------------------------------------------------------------------------------------------

fn nodup<T: std::hash::Hash + Eq>(xs: impl IntoIterator<Item = T>) -> bool {
    let mut s = HashSet::new();
    xs.into_iter().all(|x| s.insert(x))
}

fn schema_ok(s: &[i32]) -> bool {
    nodup(s.iter()) && s.iter().all(|x| *x >= 0)
}

fn frag_core(f: &MFrag) -> bool {
    f.files.iter().flatten().all(|x| *x >= 0 || *x == -2)
        && nodup(f.files.iter().flatten().filter(|x| **x >= 0))
        && f.dels.iter().all(|o| *o < f.rows)
        && nodup(f.dels.iter())
}

fn frag_ok(stable: bool, f: &MFrag) -> bool {
    frag_core(f) && f.rid == if stable { Some(f.rows) } else { None }
}

fn new_frag_ok(stable: bool, f: &MFrag) -> bool {
    frag_core(f) && f.rid.map(|k| stable && k <= f.rows).unwrap_or(true)
}

fn le_max(mx: Option<u64>, i: u64) -> bool {
    mx.map(|m| i <= m).unwrap_or(false)
}

/// the clauses of `WF` the real manifest violates (empty = well formed)
pub fn wf_violations(m: &MManifest) -> Vec<&'static str> {
    let mut v = vec![];
    if !nodup(m.schema.iter()) {
        v.push("schema_field_ids_not_unique");
    }
    if !m.schema.iter().all(|x| *x >= 0) {
        v.push("schema_field_id_negative");
    }
    for f in &m.frags {
        if !f.files.iter().flatten().all(|x| *x >= 0 || *x == -2) {
            v.push("file_field_id_not_a_field_or_tombstone");
        }
        if !nodup(f.files.iter().flatten().filter(|x| **x >= 0)) {
            v.push("field_stored_by_two_files");
        }
        if !f.dels.iter().all(|o| *o < f.rows) || !nodup(f.dels.iter()) {
            v.push("deletion_vector_out_of_range");
        }
        if f.rid != if m.stable { Some(f.rows) } else { None } {
            v.push("row_id_sequence_length");
        }
        if !le_max(m.max_frag, f.id) {
            v.push("fragment_id_above_max");
        }
    }
    if !m.frags.windows(2).all(|w| w[0].id < w[1].id) {
        v.push("fragment_ids_not_increasing");
    }
    for ix in &m.indices {
        if !ix.fields.iter().all(|x| m.schema.contains(x)) {
            v.push("index_field_not_in_schema");
        }
        if !ix.bitmap.iter().flatten().all(|i| le_max(m.max_frag, *i)) {
            v.push("index_bitmap_names_unknown_fragment");
        }
    }
    if !nodup(m.indices.iter().map(|i| &i.name)) {
        v.push("index_names_not_unique");
    }
    if !nodup(m.indices.iter().map(|i| i.uuid)) {
        v.push("index_uuids_not_unique");
    }
    v.sort();
    v.dedup();
    v
}

/// `FilesLive`: every data file still stores a field of the schema
pub fn files_live(m: &MManifest) -> bool {
    m.frags.iter().all(|f| f.files.iter().all(|file| file.iter().any(|x| m.schema.contains(x))))
}

/// `Valid` / `ValidCreate`: what the writers must guarantee about a transaction (mirror of the Lean definition)
pub fn valid(prev: Option<&MManifest>, op: &MOp) -> bool {
    let Some(m) = prev else {
        return match op {
            MOp::Overwrite { cfg_stable, schema, frags } => {
                schema_ok(schema) && frags.iter().all(|f| f.id == 0 && new_frag_ok(*cfg_stable, f))
            }
            _ => false,
        };
    };
    let st = m.stable;
    let ids: BTreeSet<u64> = m.frags.iter().map(|f| f.id).collect();
    let uuids: BTreeSet<usize> = m.indices.iter().map(|i| i.uuid).collect();
    match op {
        MOp::Append { frags } => frags.iter().all(|f| f.id == 0 && new_frag_ok(st, f)),
        MOp::Delete { updated, .. } => updated.iter().all(|f| frag_ok(st, f)),
        MOp::Update { updated, new, .. } => {
            updated.iter().all(|f| frag_ok(st, f)) && new.iter().all(|f| f.id == 0 && new_frag_ok(st, f))
        }
        MOp::Overwrite { schema, frags, .. } => schema_ok(schema) && frags.iter().all(|f| f.id == 0 && new_frag_ok(st, f)),
        MOp::Rewrite { groups, rewritten } => {
            groups.iter().flat_map(|g| g.1.iter()).all(|f| {
                f.id != 0 && frag_ok(st, f) && !ids.contains(&f.id) && le_max(m.max_frag, f.id)
            }) && nodup(groups.iter().flat_map(|g| g.1.iter()).map(|f| f.id))
                && rewritten.iter().all(|p| !uuids.contains(&p.1))
                && nodup(rewritten.iter().map(|p| p.1))
        }
        MOp::Merge { schema, frags } => {
            schema_ok(schema) && frags.iter().all(|f| frag_ok(st, f)) && nodup(frags.iter().map(|f| f.id))
        }
        MOp::Project { schema } => schema_ok(schema),
        MOp::CreateIndex { new, .. } => {
            new.iter().all(|ix| {
                ix.fields.iter().all(|x| m.schema.contains(x))
                    && ix.bitmap.iter().flatten().all(|i| ids.contains(i))
                    && !uuids.contains(&ix.uuid)
            }) && nodup(new.iter().map(|i| &i.name))
                && nodup(new.iter().map(|i| i.uuid))
        }
        MOp::Reserve { .. } | MOp::Config | MOp::Restore { .. } => true,
        MOp::Other => false,
    }
}

/// first-occurrence numbering of index uuids within one case
#[derive(Default)]
pub struct UuidMap(pub HashMap<String, usize>);

impl UuidMap {
    pub fn get(&mut self, u: &str) -> usize {
        let n = self.0.len();
        *self.0.entry(u.to_string()).or_insert(n)
    }
}
