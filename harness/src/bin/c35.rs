//! C35: distance kernels agree with the scalar definitions.
//!
//! Interpreter of the C35 line protocol against the REAL `lance_linalg::distance::{l2, dot, cosine, hamming, norm_l2}`,
//! `lance_linalg::kernels::{argmin*, argmax*}` and `lance_index::vector::kmeans::{compute_partition,
//! compute_partitions_arrow_array}`, a seeded generator and the property oracle.
//!
//! EXACT lines.  Vectors are integer valued and small enough that every partial sum of the real kernels is an exactly
//! representable integer (guard `range_ok`, shared with the Lean driver): |x| <= 256 is exact in f32 / f64 / f16 (11-bit
//! significand: integers to 2048) / bf16 (8-bit significand: integers to 256); all kernels of f16 / bf16 accumulate in
//! f32 (`l2_scalar::<f16, f32, 16>` …), so the bound is the f32 one: n·(2M)² <= 2^24.  The only f16 accumulation is
//! `norm_squared_fsl(Float16)`, exact while the row sum stays <= 2048 (`f16-range` otherwise).  The real f32 result,
//! converted to an integer, is printed and must equal the Lean model's `Int`.
//!
//!   l2|dot|dotd T a b        -> <int>                    T::l2 / dot / dot_distance (unequal lengths allowed: safe code)
//!   norm T a                 -> <int>                    N with fl(sqrt(N)) == norm_l2(a) (sqrt is injective on the range)
//!   cosn T a b               -> <int>                    cosine_with_norms(a, 1, 1, b) = 1 - xy   (exact)
//!   cos|cosf T a b           -> xy:xx:yy | nan           cosine(a,b) / cosine_fast(a, 1.0, b): the float result is compared
//!                                                        with 1 - xy/(sqrt(xx)·sqrt(yy)) on the exact integers within a few
//!                                                        ulp (a TEST, tag float_tolerance_cases); `precondition` if len differ
//!   ham|hams a b             -> <int>
//!   l2b T dim from to        -> [ints] | panic           L2::l2_batch (trait method, no assume!)
//!   l2db|dotb|cosb T dim f t -> [..] | precondition      l2_distance_batch / dot_distance_batch / cosine_distance_batch
//!   hamb dim f t             -> [..] | precondition
//!   nsq T dim values         -> [ints]                   norm_squared_fsl
//!   arrow K T dim f t bits   -> [v|null,…]               K_distance_arrow_batch with a validity bitmap (`-` = none)
//!   argmin|argminopt|argmaxopt NT vals / argminf vals    -> `idx val` | none
//!   part T metric dim centroids vectors -> [i:d,…]       compute_partitions_arrow_array
//!   part1 T metric centroids vector     -> i | none      compute_partition
//!   parth dim centroids vectors         -> [i:d,…]       compute_partitions_arrow_array (UInt8, Hamming)
//!   tol K T …bits…           -> tested                   random REAL-valued vectors vs an f64 reference within a rounding
//!                                                        tolerance: a TEST (oracle only), never part of the proof

use std::sync::Arc;

use arrow_array::{
    Array, ArrayRef, FixedSizeListArray, Float16Array, Float32Array, Float64Array, Int8Array, UInt8Array,
};
use arrow_buffer::NullBuffer;
use arrow_schema::Field;
use half::{bf16, f16};
use hcommon::*;
use lance_index::vector::kmeans::{compute_partition, compute_partitions_arrow_array};
use lance_linalg::distance::hamming::{hamming, hamming_distance_arrow_batch, hamming_distance_batch, hamming_scalar};
use lance_linalg::distance::{
    cosine_distance, cosine_distance_arrow_batch, cosine_distance_batch, dot, dot_distance, dot_distance_arrow_batch,
    dot_distance_batch, l2, l2_distance_arrow_batch, l2_distance_batch, norm_l2, norm_squared_fsl, Cosine, DistanceType,
    Dot, Normalize, L2,
};
use lance_linalg::kernels::{argmax_opt, argmin, argmin_value, argmin_value_float, argmin_value_opt};

const BAD: &str = "bad-op";
const PRE: &str = "precondition";
const TWO24: i128 = 16_777_216;

// ------------------------------------------------------------------ element types

trait Elem: Copy + L2 + Dot + Cosine + Normalize + 'static {
    fn of(v: i64) -> Self;
    fn to64(self) -> f64;
    fn from_bits(b: u64) -> Self;
    /// fl_T(sqrt(n)) as the kernel computes it, cast to f32
    fn sqrt_of(n: i64) -> f32;
}
impl Elem for f32 {
    fn of(v: i64) -> Self {
        v as f32
    }
    fn to64(self) -> f64 {
        self as f64
    }
    fn from_bits(b: u64) -> Self {
        f32::from_bits(b as u32)
    }
    fn sqrt_of(n: i64) -> f32 {
        (n as f32).sqrt()
    }
}
impl Elem for f64 {
    fn of(v: i64) -> Self {
        v as f64
    }
    fn to64(self) -> f64 {
        self
    }
    fn from_bits(b: u64) -> Self {
        f64::from_bits(b)
    }
    fn sqrt_of(n: i64) -> f32 {
        (n as f64).sqrt() as f32
    }
}
impl Elem for f16 {
    fn of(v: i64) -> Self {
        f16::from_f32(v as f32)
    }
    fn to64(self) -> f64 {
        self.to_f64()
    }
    fn from_bits(b: u64) -> Self {
        f16::from_bits(b as u16)
    }
    fn sqrt_of(n: i64) -> f32 {
        (n as f32).sqrt()
    }
}
impl Elem for bf16 {
    fn of(v: i64) -> Self {
        bf16::from_f32(v as f32)
    }
    fn to64(self) -> f64 {
        self.to_f64()
    }
    fn from_bits(b: u64) -> Self {
        bf16::from_bits(b as u16)
    }
    fn sqrt_of(n: i64) -> f32 {
        (n as f32).sqrt()
    }
}
impl Elem for u8 {
    fn of(v: i64) -> Self {
        v as u8
    }
    fn to64(self) -> f64 {
        self as f64
    }
    fn from_bits(b: u64) -> Self {
        b as u8
    }
    fn sqrt_of(n: i64) -> f32 {
        (n as f32).sqrt()
    }
}

fn conv<T: Elem>(v: &[i64]) -> Vec<T> {
    v.iter().map(|&x| T::of(x)).collect()
}

// ------------------------------------------------------------------ parsing (mirrors Driver.lean)

fn parse_int_list(s: &str) -> Option<Vec<i64>> {
    if s == "-" {
        return Some(vec![]);
    }
    s.split(',')
        .map(|t| {
            // Lean's String.toInt?: optional leading '-', then digits (no '+', no blanks, `_` separators not generated)
            let d = t.strip_prefix('-').unwrap_or(t);
            if d.is_empty() || !d.bytes().all(|c| c.is_ascii_digit()) || d.len() > 17 {
                None
            } else {
                t.parse::<i64>().ok()
            }
        })
        .collect()
}

fn in_range(ty: &str, x: i64) -> bool {
    match ty {
        "u8" => (0..=255).contains(&x),
        "i8" => (-128..=127).contains(&x),
        _ => (-256..=256).contains(&x),
    }
}

fn parse_vec(ty: &str, s: &str) -> Option<Vec<i64>> {
    let v = parse_int_list(s)?;
    if v.iter().all(|&x| in_range(ty, x)) {
        Some(v)
    } else {
        None
    }
}

fn known_ty(ty: &str) -> Option<bool> {
    // Some(arrow_only)
    match ty {
        "f32" | "f64" | "f16" | "bf16" | "u8" => Some(false),
        "i8" => Some(true),
        _ => None,
    }
}

fn range_ok(op: &str, ty: &str, vs: &[Vec<i64>]) -> bool {
    let n = vs.iter().map(|v| v.len()).max().unwrap_or(0) as i128;
    let m = vs.iter().flat_map(|v| v.iter()).map(|x| x.unsigned_abs() as i128).max().unwrap_or(0);
    // `norm` prints N recovered from fl(sqrt N): the correctly rounded f32 square root is injective on integers only up to 2^22
    if ty == "u8" {
        n * m * m <= if op == "norm" { TWO24 / 4 } else { TWO24 }
    } else {
        n * 4 * m * m <= TWO24
    }
}

fn vec_slots(toks: &[&str]) -> Option<(usize, Vec<usize>)> {
    let op = *toks.first()?;
    match op {
        "l2" | "dot" | "dotd" | "cos" | "cosf" | "cosn" => Some((1, vec![2, 3])),
        "norm" => Some((1, vec![2])),
        "l2b" | "l2db" | "dotb" | "cosb" => Some((1, vec![3, 4])),
        "nsq" => Some((1, vec![3])),
        "arrow" => {
            if toks.get(1) == Some(&"ham") {
                None
            } else {
                Some((2, vec![4, 5]))
            }
        }
        "part" => Some((1, vec![4, 5])),
        "part1" => Some((1, vec![3, 4])),
        _ => None,
    }
}

fn out_of_range(toks: &[&str]) -> bool {
    match vec_slots(toks) {
        Some((tpos, vpos)) => match toks.get(tpos) {
            Some(ty) => {
                let vs: Vec<Vec<i64>> = vpos.iter().filter_map(|&i| toks.get(i).and_then(|s| parse_int_list(s))).collect();
                !range_ok(toks[0], ty, &vs)
            }
            None => false,
        },
        None => false,
    }
}

fn parse_nat(s: &str) -> Option<usize> {
    if s.is_empty() || !s.bytes().all(|c| c.is_ascii_digit()) || s.len() > 9 {
        return None;
    }
    s.parse().ok()
}

// ------------------------------------------------------------------ scalar references (independent of the kernels)

fn ref_l2(a: &[i64], b: &[i64]) -> i64 {
    a.iter().zip(b).map(|(x, y)| (x - y) * (x - y)).sum()
}
fn ref_dot(a: &[i64], b: &[i64]) -> i64 {
    a.iter().zip(b).map(|(x, y)| x * y).sum()
}
fn ref_ham(a: &[i64], b: &[i64]) -> i64 {
    a.iter().zip(b).map(|(x, y)| ((*x as u8) ^ (*y as u8)).count_ones() as i64).sum()
}

fn f32_int(v: f32) -> String {
    if v.is_finite() && v.fract() == 0.0 && v.abs() < 9.0e15 {
        format!("{}", v as i64)
    } else {
        format!("nonint:{:08x}", v.to_bits())
    }
}

struct Ctx {
    fails: Vec<OracleFailure>,
    tags: Vec<String>,
    line: usize,
    exact_nonempty: bool,
}
impl Ctx {
    fn tag(&mut self, t: &str) {
        self.tags.push(t.to_string());
    }
    fn fail(&mut self, key: &str, what: String) {
        self.fails.push(OracleFailure { what, key: Some(key.to_string()), line: self.line });
    }
    /// oracle: a kernel output against the scalar definition
    fn expect_int(&mut self, what: &str, got: &str, want: i64) {
        if got != want.to_string() {
            self.fail("kernel_ne_scalar", format!("{what}: kernel gave {got}, scalar definition gives {want}"));
        }
    }
}

// ------------------------------------------------------------------ cosine float comparison (a test, not a proof)

/// `1 - xy / (sqrt(xx) sqrt(yy))` on exact integers, in f64; `r` is the real f32 result.
fn cos_show(ctx: &mut Ctx, r: f32, xy: i64, xx: i64, yy: i64, n: usize, what: &str) -> String {
    ctx.tag("float_tolerance_cases");
    if xx == 0 || yy == 0 {
        // zero-norm policy of the code: 0/0 -> NaN (no special case)
        return if r.is_nan() { "nan".into() } else { format!("off:{:08x}", r.to_bits()) };
    }
    let reference = 1.0 - (xy as f64) / ((xx as f64).sqrt() * (yy as f64).sqrt());
    let tol = (n as f64 + 10.0) * 4.0 * (2.0f64).powi(-24) * reference.abs().max(1.0);
    if (r as f64 - reference).abs() <= tol {
        format!("{xy}:{xx}:{yy}")
    } else {
        ctx.fail(
            "cosine_ne_scalar",
            format!("{what}: kernel gave {r:e}, scalar definition on exact integers gives {reference:e} (tol {tol:e})"),
        );
        format!("off:{:08x}", r.to_bits())
    }
}

// ------------------------------------------------------------------ single-vector ops

fn vec_op<T: Elem>(ctx: &mut Ctx, op: &str, ty: &str, a: &[i64], b: &[i64]) -> String {
    let x: Vec<T> = conv(a);
    let y: Vec<T> = conv(b);
    let eq = a.len() == b.len();
    if !a.is_empty() && !b.is_empty() {
        ctx.exact_nonempty = true;
    }
    ctx.tag(&format!("{op}:{ty}"));
    ctx.tag(&format!("len%16={}", a.len() % 16));
    match op {
        "l2" => {
            let got = f32_int(l2::<T>(&x, &y));
            if eq {
                ctx.expect_int(&format!("l2::<{ty}> len {}", a.len()), &got, ref_l2(a, b));
            } else {
                ctx.tag("unequal_lengths");
            }
            got
        }
        "dot" => {
            let got = f32_int(dot::<T>(&x, &y));
            if eq {
                ctx.expect_int(&format!("dot::<{ty}> len {}", a.len()), &got, ref_dot(a, b));
            } else {
                ctx.tag("unequal_lengths");
            }
            got
        }
        "dotd" => {
            let got = f32_int(dot_distance::<T>(&x, &y));
            if eq {
                ctx.expect_int(&format!("dot_distance::<{ty}> len {}", a.len()), &got, 1 - ref_dot(a, b));
            } else {
                ctx.tag("unequal_lengths");
            }
            got
        }
        "cosn" => {
            if !eq {
                return PRE.into();
            }
            let got = f32_int(T::cosine_with_norms(&x, 1.0, 1.0, &y));
            ctx.expect_int(&format!("cosine_with_norms::<{ty}>(x,1,1,y) len {}", a.len()), &got, 1 - ref_dot(a, b));
            got
        }
        "cos" => {
            if !eq {
                return PRE.into();
            }
            let r = cosine_distance::<T>(&x, &y);
            cos_show(ctx, r, ref_dot(a, b), ref_dot(a, a), ref_dot(b, b), a.len(), &format!("cosine_distance::<{ty}> len {}", a.len()))
        }
        "cosf" => {
            if !eq {
                return PRE.into();
            }
            let r = T::cosine_fast(&x, 1.0, &y);
            cos_show(ctx, r, ref_dot(a, b), 1, ref_dot(b, b), a.len(), &format!("cosine_fast::<{ty}>(x,1,y) len {}", a.len()))
        }
        _ => BAD.into(),
    }
}

fn norm_op<T: Elem>(ctx: &mut Ctx, ty: &str, a: &[i64]) -> String {
    let x: Vec<T> = conv(a);
    if !a.is_empty() {
        ctx.exact_nonempty = true;
    }
    ctx.tag(&format!("norm:{ty}"));
    let r = norm_l2::<T>(&x);
    // invert the square root: on the guarded range (N <= 2^24) consecutive integers have distinct correctly rounded
    // roots (gap 1/(2 sqrt N) >= 2^-13 > ulp), so N = round(r^2) and fl(sqrt(N)) == r identifies N exactly
    let n = ((r as f64) * (r as f64)).round() as i64;
    let got = if r.is_finite() && r >= 0.0 && T::sqrt_of(n) == r { n.to_string() } else { format!("inexact:{:08x}", r.to_bits()) };
    ctx.expect_int(&format!("norm_l2::<{ty}>^2 len {}", a.len()), &got, ref_dot(a, a));
    got
}

fn dispatch_vec(ctx: &mut Ctx, op: &str, ty: &str, a: &[i64], b: &[i64]) -> String {
    match ty {
        "f32" => vec_op::<f32>(ctx, op, ty, a, b),
        "f64" => vec_op::<f64>(ctx, op, ty, a, b),
        "f16" => vec_op::<f16>(ctx, op, ty, a, b),
        "bf16" => vec_op::<bf16>(ctx, op, ty, a, b),
        "u8" => vec_op::<u8>(ctx, op, ty, a, b),
        _ => BAD.into(),
    }
}

// ------------------------------------------------------------------ batch ops

fn show_ints(v: &[String]) -> String {
    format!("[{}]", v.join(","))
}

fn batch_op<T: Elem>(ctx: &mut Ctx, op: &str, ty: &str, dim: usize, frm: &[i64], to: &[i64]) -> String {
    let x: Vec<T> = conv(frm);
    let y: Vec<T> = conv(to);
    ctx.tag(&format!("{op}:{ty}"));
    ctx.tag(&format!("dim={}", if dim > 32 { ">32".to_string() } else { dim.to_string() }));
    let pre_ok = dim != 0 && frm.len() == dim && to.len() % dim == 0;
    if to.len() >= dim && dim > 0 {
        ctx.exact_nonempty = true;
    }
    match op {
        "l2b" => {
            if dim == 0 {
                // chunks_exact(0) panics
                let r = std::panic::catch_unwind(std::panic::AssertUnwindSafe(|| T::l2_batch(&x, &y, dim).count()));
                return if r.is_err() { "panic".into() } else { "no-panic".into() };
            }
            let got: Vec<String> = T::l2_batch(&x, &y, dim).map(f32_int).collect();
            if frm.len() == dim {
                for (j, g) in got.iter().enumerate() {
                    ctx.expect_int(&format!("L2::l2_batch::<{ty}> dim {dim} row {j}"), g, ref_l2(frm, &to[j * dim..(j + 1) * dim]));
                }
                if got.len() != to.len() / dim {
                    ctx.fail("batch_rows", format!("l2_batch returned {} rows for {} values of dim {dim}", got.len(), to.len()));
                }
            } else {
                ctx.tag("unequal_lengths");
            }
            show_ints(&got)
        }
        "l2db" => {
            if !pre_ok {
                return PRE.into();
            }
            let got: Vec<String> = l2_distance_batch::<T>(&x, &y, dim).map(f32_int).collect();
            for (j, g) in got.iter().enumerate() {
                ctx.expect_int(&format!("l2_distance_batch::<{ty}> dim {dim} row {j}"), g, ref_l2(frm, &to[j * dim..(j + 1) * dim]));
            }
            if got.len() != to.len() / dim {
                ctx.fail("batch_rows", format!("l2_distance_batch returned {} rows", got.len()));
            }
            show_ints(&got)
        }
        "dotb" => {
            if !pre_ok {
                return PRE.into();
            }
            let got: Vec<String> = dot_distance_batch::<T>(&x, &y, dim).map(f32_int).collect();
            for (j, g) in got.iter().enumerate() {
                ctx.expect_int(&format!("dot_distance_batch::<{ty}> dim {dim} row {j}"), g, 1 - ref_dot(frm, &to[j * dim..(j + 1) * dim]));
            }
            if got.len() != to.len() / dim {
                ctx.fail("batch_rows", format!("dot_distance_batch returned {} rows", got.len()));
            }
            show_ints(&got)
        }
        "cosb" => {
            if !pre_ok {
                return PRE.into();
            }
            let rs: Vec<f32> = cosine_distance_batch::<T>(&x, &y, dim).collect();
            if rs.len() != to.len() / dim {
                ctx.fail("batch_rows", format!("cosine_distance_batch returned {} rows", rs.len()));
            }
            let xx = ref_dot(frm, frm);
            let got: Vec<String> = rs
                .iter()
                .enumerate()
                .map(|(j, &r)| {
                    let row = &to[j * dim..(j + 1) * dim];
                    cos_show(ctx, r, ref_dot(frm, row), xx, ref_dot(row, row), dim, &format!("cosine_distance_batch::<{ty}> dim {dim} row {j}"))
                })
                .collect();
            show_ints(&got)
        }
        _ => BAD.into(),
    }
}

fn dispatch_batch(ctx: &mut Ctx, op: &str, ty: &str, dim: usize, frm: &[i64], to: &[i64]) -> String {
    match ty {
        "f32" => batch_op::<f32>(ctx, op, ty, dim, frm, to),
        "f64" => batch_op::<f64>(ctx, op, ty, dim, frm, to),
        "f16" => batch_op::<f16>(ctx, op, ty, dim, frm, to),
        "bf16" => batch_op::<bf16>(ctx, op, ty, dim, frm, to),
        "u8" => batch_op::<u8>(ctx, op, ty, dim, frm, to),
        _ => BAD.into(),
    }
}

// ------------------------------------------------------------------ arrow helpers

fn prim_array(ty: &str, v: &[i64]) -> Option<ArrayRef> {
    Some(match ty {
        "f32" => Arc::new(Float32Array::from(conv::<f32>(v))),
        "f64" => Arc::new(Float64Array::from(conv::<f64>(v))),
        "f16" => Arc::new(Float16Array::from(conv::<f16>(v))),
        "i8" => Arc::new(Int8Array::from(v.iter().map(|&x| x as i8).collect::<Vec<_>>())),
        "u8" => Arc::new(UInt8Array::from(v.iter().map(|&x| x as u8).collect::<Vec<_>>())),
        _ => return None,
    })
}

fn fsl(ty: &str, dim: usize, v: &[i64], valid: Option<&[bool]>) -> Option<FixedSizeListArray> {
    let values = prim_array(ty, v)?;
    let field = Arc::new(Field::new("item", values.data_type().clone(), true));
    let nulls = valid.map(|b| NullBuffer::from(b.to_vec()));
    FixedSizeListArray::try_new(field, dim as i32, values, nulls).ok()
}

fn parse_valid(s: &str, n: usize) -> Option<Option<Vec<bool>>> {
    if s == "-" {
        return Some(None);
    }
    if s.chars().count() == n && s.chars().all(|c| c == '0' || c == '1') {
        Some(Some(s.chars().map(|c| c == '1').collect()))
    } else {
        None
    }
}

fn arrow_op(ctx: &mut Ctx, kind: &str, ty: &str, dim: usize, frm: &[i64], to: &[i64], valid: &str) -> String {
    if ty == "bf16" || ((kind == "ham") != (ty == "u8")) {
        return BAD.into();
    }
    if dim == 0 || frm.len() != dim || to.len() % dim != 0 {
        return PRE.into();
    }
    let rows = to.len() / dim;
    let Some(vb) = parse_valid(valid, rows) else { return BAD.into() };
    if !matches!(kind, "l2" | "dot" | "ham" | "cos") {
        return BAD.into();
    }
    ctx.tag(&format!("arrow:{kind}:{ty}"));
    if vb.is_some() {
        ctx.tag("arrow:with_nulls");
    }
    if rows > 0 {
        ctx.exact_nonempty = true;
    }
    let from_arr = prim_array(ty, frm).unwrap();
    let to_arr = fsl(ty, dim, to, vb.as_deref()).unwrap();
    let res = match kind {
        "l2" => l2_distance_arrow_batch(from_arr.as_ref(), &to_arr),
        "dot" => dot_distance_arrow_batch(from_arr.as_ref(), &to_arr),
        "ham" => hamming_distance_arrow_batch(from_arr.as_ref(), &to_arr),
        _ => cosine_distance_arrow_batch(from_arr.as_ref(), &to_arr),
    };
    let arr = match res {
        Ok(a) => a,
        Err(e) => {
            ctx.fail("arrow_batch_error", format!("{kind}_distance_arrow_batch({ty}) failed: {e}"));
            return "err".into();
        }
    };
    if arr.len() != rows {
        ctx.fail("batch_rows", format!("{kind}_distance_arrow_batch returned {} rows, expected {rows}", arr.len()));
    }
    let xx = ref_dot(frm, frm);
    let mut out = vec![];
    for j in 0..arr.len() {
        let is_valid = vb.as_ref().map(|b| b[j]).unwrap_or(true);
        if arr.is_null(j) != !is_valid {
            ctx.fail("arrow_nulls", format!("{kind}_distance_arrow_batch row {j}: null={} but input validity={is_valid}", arr.is_null(j)));
        }
        if arr.is_null(j) {
            out.push("null".to_string());
            continue;
        }
        let row = &to[j * dim..(j + 1) * dim];
        let r = arr.value(j);
        match kind {
            "l2" => {
                let g = f32_int(r);
                ctx.expect_int(&format!("l2_distance_arrow_batch({ty}) dim {dim} row {j}"), &g, ref_l2(frm, row));
                out.push(g);
            }
            "dot" => {
                let g = f32_int(r);
                ctx.expect_int(&format!("dot_distance_arrow_batch({ty}) dim {dim} row {j}"), &g, 1 - ref_dot(frm, row));
                out.push(g);
            }
            "ham" => {
                let g = f32_int(r);
                ctx.expect_int(&format!("hamming_distance_arrow_batch dim {dim} row {j}"), &g, ref_ham(frm, row));
                out.push(g);
            }
            _ => out.push(cos_show(ctx, r, ref_dot(frm, row), xx, ref_dot(row, row), dim, &format!("cosine_distance_arrow_batch({ty}) dim {dim} row {j}"))),
        }
    }
    show_ints(&out)
}

// ------------------------------------------------------------------ argmin family

#[derive(Clone, Copy, PartialEq, Debug)]
enum Tok {
    Nan,
    Inf,
    NInf,
    Max,
    NMax,
    Int(i64),
}

fn parse_tok(s: &str) -> Option<Tok> {
    Some(match s {
        "nan" => Tok::Nan,
        "inf" => Tok::Inf,
        "-inf" => Tok::NInf,
        "max" => Tok::Max,
        "-max" => Tok::NMax,
        _ => Tok::Int(*parse_int_list(s)?.first()?),
    })
}

fn tok_in_range(nt: &str, t: Tok) -> bool {
    match (nt, t) {
        ("f32", Tok::Int(z)) => (-16_777_216..=16_777_216).contains(&z),
        ("f32", _) => true,
        ("i32", Tok::Int(z)) => (i32::MIN as i64..=i32::MAX as i64).contains(&z),
        ("u8", Tok::Int(z)) => (0..=255).contains(&z),
        _ => false,
    }
}

fn parse_opt_tok_list(nt: &str, s: &str) -> Option<Vec<Option<Tok>>> {
    if s == "-" {
        return Some(vec![]);
    }
    let mut out = vec![];
    for t in s.split(',') {
        if t == "none" {
            out.push(None);
        } else {
            let k = parse_tok(t)?;
            out.push(Some(k));
        }
    }
    if out.iter().all(|o| o.map(|t| tok_in_range(nt, t)).unwrap_or(true)) {
        Some(out)
    } else {
        None
    }
}

fn tok_f32(t: Tok) -> f32 {
    match t {
        Tok::Nan => f32::NAN,
        Tok::Inf => f32::INFINITY,
        Tok::NInf => f32::NEG_INFINITY,
        Tok::Max => f32::MAX,
        Tok::NMax => f32::MIN,
        Tok::Int(z) => z as f32,
    }
}

fn show_f32_tok(v: f32) -> String {
    if v.is_nan() {
        "nan".into()
    } else if v == f32::INFINITY {
        "inf".into()
    } else if v == f32::NEG_INFINITY {
        "-inf".into()
    } else if v == f32::MAX {
        "max".into()
    } else if v == f32::MIN {
        "-max".into()
    } else {
        f32_int(v)
    }
}

/// reference: first index of the least comparable value, as an ordered key
fn tok_key(t: Tok) -> Option<(i32, i128)> {
    match t {
        Tok::Nan => None,
        Tok::NInf => Some((-1, 0)),
        Tok::Inf => Some((1, 0)),
        Tok::Max => Some((0, i128::MAX)),
        Tok::NMax => Some((0, i128::MIN)),
        Tok::Int(z) => Some((0, z as i128)),
    }
}

fn top_key(nt: &str) -> (i32, i128) {
    match nt {
        "f32" => (0, i128::MAX),
        "i32" => (0, i32::MAX as i128),
        _ => (0, 255),
    }
}
fn bot_key(nt: &str) -> (i32, i128) {
    match nt {
        "f32" => (0, i128::MIN),
        "i32" => (0, i32::MIN as i128),
        _ => (0, 0),
    }
}

/// The contract of the code: first index of the least comparable item, provided it is strictly below `start`
/// (`T::max_value()` for argmin_value_opt, +inf for argmin_value_float); None otherwise.
fn ref_argmin(xs: &[Option<Tok>], start: (i32, i128)) -> Option<usize> {
    let mut best: Option<(usize, (i32, i128))> = None;
    for (i, x) in xs.iter().enumerate() {
        if let Some(k) = x.and_then(tok_key) {
            if best.map(|(_, b)| k < b).unwrap_or(true) {
                best = Some((i, k));
            }
        }
    }
    best.and_then(|(i, k)| if k < start { Some(i) } else { None })
}
fn ref_argmax(xs: &[Option<Tok>], start: (i32, i128)) -> Option<usize> {
    let mut best: Option<(usize, (i32, i128))> = None;
    for (i, x) in xs.iter().enumerate() {
        if let Some(k) = x.and_then(tok_key) {
            if best.map(|(_, b)| k > b).unwrap_or(true) {
                best = Some((i, k));
            }
        }
    }
    best.and_then(|(i, k)| if k > start { Some(i) } else { None })
}

fn argmin_op(ctx: &mut Ctx, op: &str, nt: &str, xs: &[Option<Tok>]) -> String {
    ctx.tag(&format!("{op}:{nt}"));
    let all_some: Option<Vec<Tok>> = xs.iter().copied().collect();
    let show_iv = |r: Option<(u32, String)>| match r {
        Some((i, v)) => format!("{i} {v}"),
        None => "none".to_string(),
    };
    let show_i = |r: Option<u32>| match r {
        Some(i) => i.to_string(),
        None => "none".to_string(),
    };
    match op {
        "argminopt" => {
            let r = match nt {
                "f32" => argmin_value_opt(xs.iter().map(|o| o.map(tok_f32))).map(|(i, v)| (i, show_f32_tok(v))),
                "i32" => argmin_value_opt(xs.iter().map(|o| o.map(|t| if let Tok::Int(z) = t { z as i32 } else { 0 })))
                    .map(|(i, v)| (i, v.to_string())),
                _ => argmin_value_opt(xs.iter().map(|o| o.map(|t| if let Tok::Int(z) = t { z as u8 } else { 0 })))
                    .map(|(i, v)| (i, v.to_string())),
            };
            let want = ref_argmin(xs, top_key(nt));
            if r.as_ref().map(|p| p.0 as usize) != want {
                ctx.fail("argmin_not_minimal", format!("argmin_value_opt::<{nt}> gave {:?}, first minimal index is {want:?}", r));
            }
            show_iv(r)
        }
        "argmin" => {
            let Some(v) = all_some else { return BAD.into() };
            let (r, r2) = match nt {
                "f32" => (
                    argmin_value(v.iter().map(|&t| tok_f32(t))).map(|(i, v)| (i, show_f32_tok(v))),
                    argmin(v.iter().map(|&t| tok_f32(t))),
                ),
                "i32" => {
                    let w: Vec<i32> = v.iter().map(|&t| if let Tok::Int(z) = t { z as i32 } else { 0 }).collect();
                    (argmin_value(w.iter().copied()).map(|(i, v)| (i, v.to_string())), argmin(w.iter().copied()))
                }
                _ => {
                    let w: Vec<u8> = v.iter().map(|&t| if let Tok::Int(z) = t { z as u8 } else { 0 }).collect();
                    (argmin_value(w.iter().copied()).map(|(i, v)| (i, v.to_string())), argmin(w.iter().copied()))
                }
            };
            let want = ref_argmin(xs, top_key(nt));
            if r.as_ref().map(|p| p.0 as usize) != want || r2.map(|i| i as usize) != want {
                ctx.fail("argmin_not_minimal", format!("argmin_value/argmin::<{nt}> gave {:?}/{:?}, first minimal index is {want:?}", r, r2));
            }
            format!("{} / {}", show_iv(r), show_i(r2))
        }
        "argminf" => {
            let Some(v) = all_some else { return BAD.into() };
            let r = argmin_value_float(v.iter().map(|&t| tok_f32(t))).map(|(i, v)| (i, show_f32_tok(v)));
            let want = ref_argmin(xs, (1, 0));
            if r.as_ref().map(|p| p.0 as usize) != want {
                ctx.fail("argmin_not_minimal", format!("argmin_value_float gave {:?}, first minimal index is {want:?}", r));
            }
            show_iv(r)
        }
        "argmaxopt" => {
            let r = match nt {
                "f32" => argmax_opt(xs.iter().map(|o| o.map(tok_f32))),
                "i32" => argmax_opt(xs.iter().map(|o| o.map(|t| if let Tok::Int(z) = t { z as i32 } else { 0 }))),
                _ => argmax_opt(xs.iter().map(|o| o.map(|t| if let Tok::Int(z) = t { z as u8 } else { 0 }))),
            };
            let want = ref_argmax(xs, bot_key(nt));
            if r.map(|i| i as usize) != want {
                ctx.fail("argmin_not_minimal", format!("argmax_opt::<{nt}> gave {:?}, first maximal index is {want:?}", r));
            }
            show_i(r)
        }
        _ => BAD.into(),
    }
}

// ------------------------------------------------------------------ nearest-centroid assignment

fn show_part(ctx: &mut Ctx, what: &str, ids: &[Option<u32>], dists: &[Option<f32>], refd: &dyn Fn(usize, usize) -> i64, k: usize) -> String {
    let mut out = vec![];
    for (j, (id, d)) in ids.iter().zip(dists.iter()).enumerate() {
        match (id, d) {
            (Some(i), Some(d)) => {
                let i = *i as usize;
                let g = f32_int(*d);
                // property oracle: the chosen centroid is at minimal scalar distance, and it is the first such
                if i >= k {
                    ctx.fail("nearest_not_minimal", format!("{what} vector {j}: centroid index {i} out of {k}"));
                } else {
                    let best = (0..k).map(|c| refd(j, c)).min().unwrap();
                    let first = (0..k).find(|&c| refd(j, c) == best).unwrap();
                    if refd(j, i) != best || i != first || g != best.to_string() {
                        ctx.fail(
                            "nearest_not_minimal",
                            format!("{what} vector {j}: chose centroid {i} at distance {g}; minimal scalar distance {best} first at {first}"),
                        );
                    }
                }
                out.push(format!("{i}:{g}"));
            }
            (None, None) => {
                if k > 0 {
                    ctx.fail("nearest_not_minimal", format!("{what} vector {j}: no centroid chosen although {k} exist"));
                }
                out.push("none".into());
            }
            _ => out.push("mixed".into()),
        }
    }
    show_ints(&out)
}

fn part_op(ctx: &mut Ctx, ty: &str, metric: &str, dim: usize, cents: &[i64], vecs: &[i64]) -> String {
    if dim == 0 || vecs.len() % dim != 0 || cents.len() % dim != 0 {
        return PRE.into();
    }
    ctx.tag(&format!("part:{ty}:{metric}"));
    let k = cents.len() / dim;
    let n = vecs.len() / dim;
    if k > 0 && n > 0 {
        ctx.exact_nonempty = true;
    }
    ctx.tag(&format!("part:k={}", if k > 8 { ">8".to_string() } else { k.to_string() }));
    let c = fsl(ty, dim, cents, None).unwrap();
    let v = fsl(ty, dim, vecs, None).unwrap();
    let dt = if metric == "l2" { DistanceType::L2 } else { DistanceType::Dot };
    let (ids, dists) = match compute_partitions_arrow_array(&c, &v, dt) {
        Ok(r) => r,
        Err(e) => {
            ctx.fail("partition_error", format!("compute_partitions_arrow_array failed: {e}"));
            return "err".into();
        }
    };
    if ids.len() != n {
        ctx.fail("batch_rows", format!("compute_partitions_arrow_array returned {} rows for {n} vectors", ids.len()));
    }
    let is_l2 = metric == "l2";
    let refd = |j: usize, ci: usize| {
        let a = &vecs[j * dim..(j + 1) * dim];
        let b = &cents[ci * dim..(ci + 1) * dim];
        if is_l2 {
            ref_l2(a, b)
        } else {
            1 - ref_dot(a, b)
        }
    };
    show_part(ctx, &format!("compute_partitions_arrow_array({ty},{metric},dim {dim})"), &ids, &dists, &refd, k)
}

fn part1_op(ctx: &mut Ctx, ty: &str, metric: &str, cents: &[i64], v: &[i64]) -> String {
    let dim = v.len();
    if dim == 0 || cents.len() % dim != 0 {
        return PRE.into();
    }
    ctx.tag(&format!("part1:{ty}:{metric}"));
    let k = cents.len() / dim;
    if k > 0 {
        ctx.exact_nonempty = true;
    }
    let dt = if metric == "l2" { DistanceType::L2 } else { DistanceType::Dot };
    let r = match ty {
        "f32" => compute_partition::<f32>(&conv::<f32>(cents), &conv::<f32>(v), dt),
        "f64" => compute_partition::<f64>(&conv::<f64>(cents), &conv::<f64>(v), dt),
        _ => compute_partition::<f16>(&conv::<f16>(cents), &conv::<f16>(v), dt),
    };
    let refd = |ci: usize| {
        let b = &cents[ci * dim..(ci + 1) * dim];
        if metric == "l2" {
            ref_l2(v, b)
        } else {
            1 - ref_dot(v, b)
        }
    };
    let want = (0..k).map(refd).min().and_then(|best| (0..k).find(|&c| refd(c) == best));
    if r.map(|i| i as usize) != want {
        ctx.fail("nearest_not_minimal", format!("compute_partition::<{ty}>({metric}) chose {r:?}; first centroid at minimal scalar distance is {want:?}"));
    }
    match r {
        Some(i) => i.to_string(),
        None => "none".into(),
    }
}

fn parth_op(ctx: &mut Ctx, dim: usize, cents: &[i64], vecs: &[i64]) -> String {
    if dim == 0 || vecs.len() % dim != 0 || cents.len() % dim != 0 {
        return PRE.into();
    }
    ctx.tag("parth");
    let k = cents.len() / dim;
    if k > 0 && !vecs.is_empty() {
        ctx.exact_nonempty = true;
    }
    let c = fsl("u8", dim, cents, None).unwrap();
    let v = fsl("u8", dim, vecs, None).unwrap();
    let (ids, dists) = match compute_partitions_arrow_array(&c, &v, DistanceType::Hamming) {
        Ok(r) => r,
        Err(e) => {
            ctx.fail("partition_error", format!("compute_partitions_arrow_array(u8, hamming) failed: {e}"));
            return "err".into();
        }
    };
    let refd = |j: usize, ci: usize| ref_ham(&vecs[j * dim..(j + 1) * dim], &cents[ci * dim..(ci + 1) * dim]);
    show_part(ctx, &format!("compute_partitions_arrow_array(u8,hamming,dim {dim})"), &ids, &dists, &refd, k)
}

// ------------------------------------------------------------------ tolerance tests on real-valued vectors (tests, not proofs)

fn parse_bits(s: &str) -> Option<Vec<u64>> {
    if s == "-" {
        return Some(vec![]);
    }
    s.split(',').map(|t| u64::from_str_radix(t, 16).ok()).collect()
}

fn tol_check<T: Elem>(ctx: &mut Ctx, kind: &str, ty: &str, a: &[u64], b: &[u64], dim: usize) {
    let x: Vec<T> = a.iter().map(|&v| T::from_bits(v)).collect();
    let y: Vec<T> = b.iter().map(|&v| T::from_bits(v)).collect();
    let xf: Vec<f64> = x.iter().map(|v| v.to64()).collect();
    let yf: Vec<f64> = y.iter().map(|v| v.to64()).collect();
    if xf.iter().chain(yf.iter()).any(|v| !v.is_finite()) {
        ctx.tag("tol:nonfinite_input_skipped");
        return;
    }
    let n = xf.len() as f64;
    let e32 = (2.0f64).powi(-24);
    let e64 = (2.0f64).powi(-53);
    // accumulation precision of the kernel: f64 only for f64 inputs (then one final rounding to f32)
    let (eacc, efin) = if ty == "f64" { (e64, e32) } else { (e32, 0.0) };
    let tiny = (n + 4.0) * (2.0f64).powi(-126);
    let check = |ctx: &mut Ctx, what: String, got: f32, reference: f64, abs_terms: f64| {
        if !(abs_terms < 1.0e37) {
            ctx.tag("tol:overflow_range_skipped");
            return;
        }
        let tol = (n + 8.0) * 2.0 * eacc * abs_terms + 2.0 * efin * reference.abs() + tiny;
        if !((got as f64 - reference).abs() <= tol) {
            ctx.fail(
                "float_tolerance",
                format!("{what}: kernel gave {got:e}, scalar definition in f64 gives {reference:e}; |diff| {:e} > tol {tol:e}", (got as f64 - reference).abs()),
            );
        }
    };
    ctx.tag("float_tolerance_cases");
    ctx.tag(&format!("tol:{kind}:{ty}"));
    match kind {
        "l2" => {
            let r: f64 = xf.iter().zip(&yf).map(|(p, q)| (p - q) * (p - q)).sum();
            check(ctx, format!("l2::<{ty}> len {}", x.len()), l2::<T>(&x, &y), r, r);
        }
        "dot" => {
            let r: f64 = xf.iter().zip(&yf).map(|(p, q)| p * q).sum();
            let s: f64 = xf.iter().zip(&yf).map(|(p, q)| (p * q).abs()).sum();
            check(ctx, format!("dot::<{ty}> len {}", x.len()), dot::<T>(&x, &y), r, s);
        }
        "norm" => {
            let s: f64 = xf.iter().map(|p| p * p).sum();
            let r = s.sqrt();
            // relative error of sqrt(S(1+d)) is d/2 + one rounding
            check(ctx, format!("norm_l2::<{ty}> len {}", x.len()), norm_l2::<T>(&x), r, r + if s > 0.0 && s < 1.0e-30 { 1.0e-15 } else { 0.0 });
        }
        "cos" => {
            let xy: f64 = xf.iter().zip(&yf).map(|(p, q)| p * q).sum();
            let xx: f64 = xf.iter().map(|p| p * p).sum();
            let yy: f64 = yf.iter().map(|p| p * p).sum();
            if !(xx > 1.0e-30 && yy > 1.0e-30 && xx < 1.0e37 && yy < 1.0e37) {
                ctx.tag("tol:cos_degenerate_skipped");
                return;
            }
            let r = 1.0 - xy / (xx.sqrt() * yy.sqrt());
            let got = cosine_distance::<T>(&x, &y);
            let tol = (n + 10.0) * 4.0 * e32;
            if !((got as f64 - r).abs() <= tol) {
                ctx.fail("float_tolerance", format!("cosine_distance::<{ty}> len {}: kernel gave {got:e}, scalar definition gives {r:e} (tol {tol:e})", x.len()));
            }
        }
        "nsq" => {
            // norm_squared_fsl over rows of `dim`; the API returns f32, so the tolerance is the f32 one
            if dim == 0 || x.len() % dim != 0 {
                return;
            }
            let arr: ArrayRef = match ty {
                "f32" => Arc::new(Float32Array::from(xf.iter().map(|&v| v as f32).collect::<Vec<_>>())),
                "f64" => Arc::new(Float64Array::from(xf.clone())),
                _ => Arc::new(Float16Array::from(xf.iter().map(|&v| f16::from_f64(v)).collect::<Vec<_>>())),
            };
            let field = Arc::new(Field::new("item", arr.data_type().clone(), true));
            let f = FixedSizeListArray::try_new(field, dim as i32, arr, None).unwrap();
            let got = norm_squared_fsl(&f);
            for (j, g) in got.iter().enumerate() {
                let row = &xf[j * dim..(j + 1) * dim];
                let r: f64 = row.iter().map(|p| p * p).sum();
                let tol = (dim as f64 + 8.0) * 2.0 * eacc * r + 2.0 * efin * r + tiny;
                if !((*g as f64 - r).abs() <= tol) {
                    let key = if ty == "f16" { "norm_squared_fsl_f16_precision" } else { "float_tolerance" };
                    ctx.fail(
                        key,
                        format!("norm_squared_fsl({ty}) dim {dim} row {j}: gave {g:e}, scalar definition gives {r:e}; |diff| {:e} > f32 tolerance {tol:e}", (*g as f64 - r).abs()),
                    );
                    break;
                }
            }
        }
        _ => {}
    }
}

// ------------------------------------------------------------------ interpreter

fn step(ctx: &mut Ctx, line: &str) -> String {
    let toks: Vec<&str> = line.trim().split(' ').filter(|t| !t.is_empty()).collect();
    if out_of_range(&toks) {
        ctx.tag("range");
        return "range".into();
    }
    let r = step_inner(ctx, &toks);
    if r == BAD {
        ctx.tag("bad-op");
    } else if r == PRE {
        ctx.tag("precondition");
    }
    r
}

fn step_inner(ctx: &mut Ctx, toks: &[&str]) -> String {
    match toks {
        [op @ ("l2" | "dot" | "dotd" | "cos" | "cosf" | "cosn"), ty, a, b] => {
            let (Some(false), Some(a), Some(b)) = (known_ty(ty), parse_vec(ty, a), parse_vec(ty, b)) else { return BAD.into() };
            dispatch_vec(ctx, op, ty, &a, &b)
        }
        ["norm", ty, a] => {
            let (Some(false), Some(a)) = (known_ty(ty), parse_vec(ty, a)) else { return BAD.into() };
            match *ty {
                "f32" => norm_op::<f32>(ctx, ty, &a),
                "f64" => norm_op::<f64>(ctx, ty, &a),
                "f16" => norm_op::<f16>(ctx, ty, &a),
                "bf16" => norm_op::<bf16>(ctx, ty, &a),
                _ => norm_op::<u8>(ctx, ty, &a),
            }
        }
        [op @ ("ham" | "hams"), a, b] => {
            let (Some(a), Some(b)) = (parse_vec("u8", a), parse_vec("u8", b)) else { return BAD.into() };
            let x: Vec<u8> = conv(&a);
            let y: Vec<u8> = conv(&b);
            ctx.tag(op);
            ctx.tag(&format!("len%64={}", match a.len() % 64 { 0 => "0", 1 => "1", 63 => "63", _ => "mid" }));
            if !a.is_empty() && !b.is_empty() {
                ctx.exact_nonempty = true;
            }
            let got = f32_int(if *op == "ham" { hamming(&x, &y) } else { hamming_scalar(&x, &y) });
            if a.len() == b.len() {
                ctx.expect_int(&format!("{op} len {}", a.len()), &got, ref_ham(&a, &b));
            } else {
                ctx.tag("unequal_lengths");
            }
            got
        }
        [op @ ("l2b" | "l2db" | "dotb" | "cosb"), ty, dim, frm, to] => {
            let (Some(false), Some(dim), Some(frm), Some(to)) = (known_ty(ty), parse_nat(dim), parse_vec(ty, frm), parse_vec(ty, to)) else {
                return BAD.into();
            };
            dispatch_batch(ctx, op, ty, dim, &frm, &to)
        }
        ["hamb", dim, frm, to] => {
            let (Some(dim), Some(frm), Some(to)) = (parse_nat(dim), parse_vec("u8", frm), parse_vec("u8", to)) else { return BAD.into() };
            if dim == 0 || frm.len() != dim || to.len() % dim != 0 {
                return PRE.into();
            }
            ctx.tag("hamb");
            if !to.is_empty() {
                ctx.exact_nonempty = true;
            }
            let x: Vec<u8> = conv(&frm);
            let y: Vec<u8> = conv(&to);
            let got: Vec<String> = hamming_distance_batch(&x, &y, dim).map(f32_int).collect();
            for (j, g) in got.iter().enumerate() {
                ctx.expect_int(&format!("hamming_distance_batch dim {dim} row {j}"), g, ref_ham(&frm, &to[j * dim..(j + 1) * dim]));
            }
            if got.len() != to.len() / dim {
                ctx.fail("batch_rows", format!("hamming_distance_batch returned {} rows", got.len()));
            }
            show_ints(&got)
        }
        ["nsq", ty, dim, vals] => {
            let (Some(false), Some(dim), Some(vals)) = (known_ty(ty), parse_nat(dim), parse_vec(ty, vals)) else { return BAD.into() };
            if *ty == "bf16" || *ty == "u8" {
                return BAD.into();
            }
            if dim == 0 || vals.len() % dim != 0 {
                return PRE.into();
            }
            let refs: Vec<i64> = vals.chunks_exact(dim).map(|r| ref_dot(r, r)).collect();
            if *ty == "f16" && refs.iter().any(|&v| v > 2048) {
                return "f16-range".into();
            }
            ctx.tag(&format!("nsq:{ty}"));
            if !vals.is_empty() {
                ctx.exact_nonempty = true;
            }
            let f = fsl(ty, dim, &vals, None).unwrap();
            let got: Vec<String> = norm_squared_fsl(&f).into_iter().map(f32_int).collect();
            for (j, g) in got.iter().enumerate() {
                ctx.expect_int(&format!("norm_squared_fsl({ty}) dim {dim} row {j}"), g, refs[j]);
            }
            show_ints(&got)
        }
        ["arrow", kind, ty, dim, frm, to, valid] => {
            let (Some(_), Some(dim), Some(frm), Some(to)) = (known_ty(ty), parse_nat(dim), parse_vec(ty, frm), parse_vec(ty, to)) else {
                return BAD.into();
            };
            arrow_op(ctx, kind, ty, dim, &frm, &to, valid)
        }
        [op @ ("argminopt" | "argmin" | "argmaxopt"), nt, vals] => {
            if !matches!(*nt, "f32" | "i32" | "u8") {
                return BAD.into();
            }
            let Some(xs) = parse_opt_tok_list(nt, vals) else { return BAD.into() };
            argmin_op(ctx, op, nt, &xs)
        }
        ["argminf", vals] => {
            let Some(xs) = parse_opt_tok_list("f32", vals) else { return BAD.into() };
            argmin_op(ctx, "argminf", "f32", &xs)
        }
        ["part", ty, metric, dim, cents, vecs] => {
            let (Some(false), true, Some(dim), Some(c), Some(v)) =
                (known_ty(ty), matches!(*metric, "l2" | "dot"), parse_nat(dim), parse_vec(ty, cents), parse_vec(ty, vecs))
            else {
                return BAD.into();
            };
            if *ty == "bf16" || *ty == "u8" {
                return BAD.into();
            }
            part_op(ctx, ty, metric, dim, &c, &v)
        }
        ["part1", ty, metric, cents, v] => {
            let (Some(false), true, Some(c), Some(v)) = (known_ty(ty), matches!(*metric, "l2" | "dot"), parse_vec(ty, cents), parse_vec(ty, v)) else {
                return BAD.into();
            };
            if *ty == "bf16" || *ty == "u8" {
                return BAD.into();
            }
            part1_op(ctx, ty, metric, &c, &v)
        }
        ["parth", dim, cents, vecs] => {
            let (Some(dim), Some(c), Some(v)) = (parse_nat(dim), parse_vec("u8", cents), parse_vec("u8", vecs)) else { return BAD.into() };
            parth_op(ctx, dim, &c, &v)
        }
        ["tol", rest @ ..] => {
            // tol K T a b [dim]
            if let [kind, ty, a, b, dim] = rest {
                if let (Some(a), Some(b), Some(dim)) = (parse_bits(a), parse_bits(b), parse_nat(dim)) {
                    match *ty {
                        "f32" => tol_check::<f32>(ctx, kind, ty, &a, &b, dim),
                        "f64" => tol_check::<f64>(ctx, kind, ty, &a, &b, dim),
                        "f16" => tol_check::<f16>(ctx, kind, ty, &a, &b, dim),
                        "bf16" => tol_check::<bf16>(ctx, kind, ty, &a, &b, dim),
                        _ => {}
                    }
                }
            }
            "tested".into()
        }
        _ => BAD.into(),
    }
}

// ------------------------------------------------------------------ generator

const FLOAT_TYS: [&str; 4] = ["f32", "f64", "f16", "bf16"];
const ALL_TYS: [&str; 5] = ["f32", "f64", "f16", "bf16", "u8"];

fn show_vec(v: &[i64]) -> String {
    if v.is_empty() {
        "-".into()
    } else {
        v.iter().map(|x| x.to_string()).collect::<Vec<_>>().join(",")
    }
}

/// integer vector for a type: |x| <= m (bytes: 0..=m)
fn gen_vec(rng: &mut Rng, ty: &str, n: usize, m: i64) -> Vec<i64> {
    let style = rng.below(10);
    (0..n)
        .map(|i| {
            let v = match style {
                0 => 0,                                       // zero vector (cosine NaN policy)
                1 => m,                                       // extreme of the range everywhere
                2 => if i % 2 == 0 { m } else { -m },         // alternating extremes (largest differences)
                3 => if rng.chance(1, 8) { rng.range(0, 2 * m as u64) as i64 - m } else { 0 }, // sparse
                _ => rng.range(0, 2 * m as u64) as i64 - m,
            };
            if ty == "u8" {
                v.abs()
            } else {
                v
            }
        })
        .collect()
}

/// the quick-tier spread of lengths: all residues mod 16/32/64 at small sizes, every SIMD width boundary, the ends
fn quick_lengths() -> Vec<usize> {
    let mut v: Vec<usize> = (0..=72).collect();
    for b in [96usize, 128, 192, 256, 384, 512, 768, 1024] {
        v.extend([b - 1, b, b + 1]);
    }
    v.extend([100, 300, 1000, 1087, 1095, 1096, 1097, 1098, 1099, 1100]);
    v.sort();
    v.dedup();
    v
}

/// largest magnitude keeping `range_ok` for length n
fn max_mag(ty: &str, n: usize) -> i64 {
    let cap: i64 = if ty == "u8" { 255 } else { 256 };
    let mut m = cap;
    let n = n.max(1) as i128;
    while m > 1 {
        let ok = if ty == "u8" { n * (m as i128) * (m as i128) <= TWO24 / 4 } else { n * 4 * (m as i128) * (m as i128) <= TWO24 };
        if ok {
            break;
        }
        m /= 2;
    }
    m
}

fn pick_mag(rng: &mut Rng, ty: &str, n: usize) -> i64 {
    // mostly the prescribed |x| <= 8; sometimes the largest exact magnitude for this length
    let mm = max_mag(ty, n);
    if rng.chance(1, 5) {
        mm
    } else {
        8.min(mm)
    }
}

fn uniform(rng: &mut Rng) -> f64 {
    ((rng.next_u64() >> 11) as f64 / (1u64 << 53) as f64) * 2.0 - 1.0
}

fn real_bits(rng: &mut Rng, ty: &str, n: usize) -> String {
    let scales: &[f64] = match ty {
        "f16" => &[1.0e-2, 1.0, 30.0],
        "bf16" => &[1.0e-6, 1.0e-2, 1.0, 1.0e3, 1.0e6],
        "f32" => &[1.0e-12, 1.0e-6, 1.0e-2, 1.0, 1.0e3, 1.0e6, 1.0e12],
        _ => &[1.0e-12, 1.0e-6, 1.0, 1.0e6, 1.0e12],
    };
    let s = *rng.pick(scales);
    let sparse = rng.chance(1, 6);
    let v: Vec<String> = (0..n)
        .map(|_| {
            let x = if sparse && rng.chance(3, 4) { 0.0 } else { s * uniform(rng) };
            match ty {
                "f32" => format!("{:x}", (x as f32).to_bits()),
                "f64" => format!("{:x}", x.to_bits()),
                "f16" => format!("{:x}", f16::from_f64(x).to_bits()),
                _ => format!("{:x}", bf16::from_f64(x).to_bits()),
            }
        })
        .collect();
    if v.is_empty() {
        "-".into()
    } else {
        v.join(",")
    }
}

fn gen_tok_list(rng: &mut Rng, nt: &str, with_none: bool) -> String {
    let n = rng.usize(9);
    if n == 0 {
        return "-".into();
    }
    let style = rng.below(6);
    let base: i64 = match nt {
        "u8" => 250,
        "i32" => i32::MAX as i64 - 3,
        _ => 5,
    };
    (0..n)
        .map(|_| {
            if with_none && rng.chance(1, 5) {
                return "none".to_string();
            }
            match nt {
                "f32" => match style {
                    0 => "nan".to_string(),
                    1 => (*rng.pick(&["inf", "nan", "max"])).to_string(),
                    2 => (*rng.pick(&["max", "max", "inf"])).to_string(),
                    3 => (*rng.pick(&["-inf", "-max", "nan", "0", "1"])).to_string(),
                    _ => match rng.below(12) {
                        0 => "nan".to_string(),
                        1 => "inf".to_string(),
                        2 => "-inf".to_string(),
                        3 => "max".to_string(),
                        4 => "-max".to_string(),
                        _ => (rng.range(0, 6) as i64 - 3).to_string(),
                    },
                },
                "i32" => match style {
                    0 | 1 => i32::MAX.to_string(),
                    2 => i32::MIN.to_string(),
                    _ => (*rng.pick(&[i32::MIN as i64, i32::MIN as i64 + 1, -1, 0, 1, 2, base, i32::MAX as i64])).to_string(),
                },
                _ => match style {
                    0 | 1 => "255".to_string(),
                    2 => "0".to_string(),
                    _ => (*rng.pick(&[0i64, 1, 2, 3, 254, 255])).to_string(),
                },
            }
        })
        .collect::<Vec<_>>()
        .join(",")
}

fn gen_malformed(rng: &mut Rng) -> String {
    match rng.below(10) {
        0 => "l2 f32 1,2".into(),
        1 => "l2 f8 1,2 3,4".into(),
        2 => "dot u8 1,-2 3,4".into(),
        3 => "norm f16 1,,2".into(),
        4 => "l2 bf16 300,1 2,2".into(),
        5 => "cosb f32 x 1,2 1,2,3,4".into(),
        6 => "arrow l2 u8 2 1,2 1,2,3,4 -".into(),
        7 => "argmin u8 1,256".into(),
        8 => "frobnicate 1 2 3".into(),
        _ => "part bf16 l2 2 1,2 3,4".into(),
    }
}

struct C35 {
    lengths: Vec<usize>,
}

impl C35 {
    fn sweep_case(&self, rng: &mut Rng, n: usize) -> Vec<String> {
        // one length, every element type, every single-vector kernel
        let mut out = vec![];
        for ty in ALL_TYS {
            let m = pick_mag(rng, ty, n);
            let a = gen_vec(rng, ty, n, m);
            let b = gen_vec(rng, ty, n, m);
            let (sa, sb) = (show_vec(&a), show_vec(&b));
            out.push(format!("l2 {ty} {sa} {sb}"));
            out.push(format!("dot {ty} {sa} {sb}"));
            out.push(format!("norm {ty} {sa}"));
            out.push(format!("cosn {ty} {sa} {sb}"));
            match rng.below(3) {
                0 => out.push(format!("cos {ty} {sa} {sb}")),
                1 => out.push(format!("cosf {ty} {sa} {sb}")),
                _ => out.push(format!("dotd {ty} {sa} {sb}")),
            }
        }
        let a: Vec<i64> = (0..n).map(|_| rng.below(256) as i64).collect();
        let b: Vec<i64> = (0..n).map(|_| if rng.chance(1, 4) { 0 } else { rng.below(256) as i64 }).collect();
        out.push(format!("ham {} {}", show_vec(&a), show_vec(&b)));
        if rng.chance(1, 3) {
            out.push(format!("hams {} {}", show_vec(&a), show_vec(&b)));
        }
        out
    }

    fn batch_case(&self, rng: &mut Rng) -> Vec<String> {
        let dims = [1usize, 2, 3, 4, 7, 8, 9, 15, 16, 17, 24, 31, 32, 33, 48, 63, 64, 65, 100, 128, 130];
        let mut out = vec![];
        let dim = *rng.pick(&dims);
        let rows = rng.usize(6);
        let ty = *rng.pick(&ALL_TYS);
        let m = 8.min(max_mag(ty, dim * rows.max(1) + dim));
        let frm = gen_vec(rng, ty, dim, m);
        let to = gen_vec(rng, ty, dim * rows, m);
        let (sf, st) = (show_vec(&frm), show_vec(&to));
        out.push(format!("l2db {ty} {dim} {sf} {st}"));
        out.push(format!("l2b {ty} {dim} {sf} {st}"));
        out.push(format!("dotb {ty} {dim} {sf} {st}"));
        out.push(format!("cosb {ty} {dim} {sf} {st}"));
        // the trait method with a ragged batch / a `from` of another length (safe code: mirrors chunks_exact)
        let extra = rng.usize(dim);
        let to2 = gen_vec(rng, ty, dim * rows + extra, m);
        let flen = if rng.chance(1, 2) { dim } else { rng.usize(2 * dim + 2) };
        let frm2 = gen_vec(rng, ty, flen, m);
        out.push(format!("l2b {ty} {dim} {} {}", show_vec(&frm2), show_vec(&to2)));
        if rng.chance(1, 6) {
            out.push(format!("l2b {ty} 0 {sf} {st}"));
            out.push(format!("l2db {ty} 0 {sf} {st}"));
        }
        // hamming batch
        let hf: Vec<i64> = (0..dim).map(|_| rng.below(256) as i64).collect();
        let ht: Vec<i64> = (0..dim * rows).map(|_| rng.below(256) as i64).collect();
        out.push(format!("hamb {dim} {} {}", show_vec(&hf), show_vec(&ht)));
        // arrow helpers with a validity bitmap
        let aty = *rng.pick(&["f32", "f64", "f16", "i8"]);
        let ma = 8.min(max_mag(aty, dim * rows.max(1) + dim));
        let af = gen_vec(rng, aty, dim, ma);
        let at = gen_vec(rng, aty, dim * rows, ma);
        let bits: String = if rng.chance(1, 2) || rows == 0 { "-".into() } else { (0..rows).map(|_| if rng.chance(1, 3) { '0' } else { '1' }).collect() };
        let kind = *rng.pick(&["l2", "dot", "cos"]);
        out.push(format!("arrow {kind} {aty} {dim} {} {} {bits}", show_vec(&af), show_vec(&at)));
        out.push(format!("arrow ham u8 {dim} {} {} {bits}", show_vec(&hf), show_vec(&ht)));
        // norm_squared_fsl (f16 rows kept within the f16-exact range)
        let nty = *rng.pick(&["f32", "f64", "f16"]);
        let nm = if nty == "f16" { ((2048 / dim.max(1)) as f64).sqrt().floor().max(0.0) as i64 } else { ma };
        let nv = gen_vec(rng, nty, dim * rows, nm.min(8).max(if nty == "f16" { 0 } else { 1 }));
        out.push(format!("nsq {nty} {dim} {}", show_vec(&nv)));
        out
    }

    fn unequal_case(&self, rng: &mut Rng) -> Vec<String> {
        // lengths differing: safe kernels only (l2 / dot / hamming); cosine answers `precondition`
        let mut out = vec![];
        let n = rng.usize(140);
        let k = rng.usize(140);
        for ty in ALL_TYS {
            let a = gen_vec(rng, ty, n, 8);
            let b = gen_vec(rng, ty, k, 8);
            out.push(format!("l2 {ty} {} {}", show_vec(&a), show_vec(&b)));
            out.push(format!("dot {ty} {} {}", show_vec(&a), show_vec(&b)));
            if rng.chance(1, 4) {
                out.push(format!("cos {ty} {} {}", show_vec(&a), show_vec(&b)));
            }
        }
        let a: Vec<i64> = (0..n + 60).map(|_| rng.below(256) as i64).collect();
        let b: Vec<i64> = (0..k + 60).map(|_| rng.below(256) as i64).collect();
        out.push(format!("ham {} {}", show_vec(&a), show_vec(&b)));
        out.push(format!("hams {} {}", show_vec(&a), show_vec(&b)));
        out
    }

    fn argmin_case(&self, rng: &mut Rng) -> Vec<String> {
        let mut out = vec![];
        for nt in ["f32", "i32", "u8"] {
            out.push(format!("argmin {nt} {}", gen_tok_list(rng, nt, false)));
            out.push(format!("argminopt {nt} {}", gen_tok_list(rng, nt, true)));
            out.push(format!("argmaxopt {nt} {}", gen_tok_list(rng, nt, true)));
        }
        out.push(format!("argminf {}", gen_tok_list(rng, "f32", false)));
        out.push(format!("argminf {}", gen_tok_list(rng, "f32", false)));
        out
    }

    fn part_case(&self, rng: &mut Rng) -> Vec<String> {
        let mut out = vec![];
        let dim = *rng.pick(&[1usize, 2, 3, 5, 8, 16, 17, 32, 40, 64, 70]);
        let k = rng.usize(7);
        let n = 1 + rng.usize(5);
        let ty = *rng.pick(&["f32", "f64", "f16"]);
        let metric = *rng.pick(&["l2", "dot"]);
        let small = rng.chance(1, 2); // tiny value range -> many ties -> "first minimal" matters
        let m = if small { 1 } else { 8 };
        let mut cents = gen_vec(rng, ty, dim * k, m);
        if k >= 2 && rng.chance(1, 2) {
            // duplicate a centroid
            let (i, j) = (rng.usize(k), rng.usize(k));
            let src: Vec<i64> = cents[i * dim..(i + 1) * dim].to_vec();
            cents[j * dim..(j + 1) * dim].copy_from_slice(&src);
        }
        let mut vecs = gen_vec(rng, ty, dim * n, m);
        if k >= 1 && rng.chance(1, 2) {
            // a vector that IS a centroid
            let i = rng.usize(k);
            let src: Vec<i64> = cents[i * dim..(i + 1) * dim].to_vec();
            vecs[0..dim].copy_from_slice(&src);
        }
        out.push(format!("part {ty} {metric} {dim} {} {}", show_vec(&cents), show_vec(&vecs)));
        out.push(format!("part1 {ty} {metric} {} {}", show_vec(&cents), show_vec(&vecs[0..dim])));
        let hc: Vec<i64> = (0..dim * k).map(|_| if small { *rng.pick(&[0i64, 255]) } else { rng.below(256) as i64 }).collect();
        let hv: Vec<i64> = (0..dim * n).map(|_| if small { *rng.pick(&[0i64, 255]) } else { rng.below(256) as i64 }).collect();
        out.push(format!("parth {dim} {} {}", show_vec(&hc), show_vec(&hv)));
        out
    }

    fn tol_case(&self, rng: &mut Rng) -> Vec<String> {
        let mut out = vec![];
        let n = if rng.chance(1, 3) { rng.usize(40) } else { rng.usize(1101) };
        for ty in FLOAT_TYS {
            let kind = *rng.pick(&["l2", "dot", "norm", "cos"]);
            out.push(format!("tol {kind} {ty} {} {} 0", real_bits(rng, ty, n), real_bits(rng, ty, n)));
        }
        let dim = *rng.pick(&[4usize, 16, 33, 64]);
        let nty = *rng.pick(&["f32", "f64", "f16"]);
        out.push(format!("tol nsq {nty} {} - {dim}", real_bits(rng, nty, dim * 3)));
        out
    }
}

impl Prop for C35 {
    fn id(&self) -> &'static str {
        "C35"
    }
    fn budget(&self, tier: Tier) -> usize {
        match tier {
            Tier::Quick => self.lengths.len() + 2600,
            Tier::Thorough => 1101 * 4 + 36000,
            Tier::Search => 1101 + 6000,
        }
    }
    fn gen_case(&mut self, rng: &mut Rng, tier: Tier, idx: usize) -> Vec<String> {
        // first the deterministic length sweep (quick: the spread; thorough/search: every length 0..=1100, thrice/once)
        let sweep = match tier {
            Tier::Quick => self.lengths.len(),
            Tier::Thorough => 1101 * 4,
            Tier::Search => 1101,
        };
        if idx < sweep {
            let n = match tier {
                Tier::Quick => self.lengths[idx],
                _ => idx % 1101,
            };
            return self.sweep_case(rng, n);
        }
        let mut lines = match rng.below(20) {
            0..=5 => self.batch_case(rng),
            6..=8 => self.part_case(rng),
            9..=10 => self.argmin_case(rng),
            11..=12 => self.unequal_case(rng),
            13..=15 => self.tol_case(rng),
            _ => {
                let n = rng.usize(1101);
                self.sweep_case(rng, n)
            }
        };
        // malformed stream: <= 15 % of the lines
        let extra = lines.len() / 8;
        for _ in 0..extra {
            if rng.chance(1, 2) {
                let pos = rng.usize(lines.len() + 1);
                lines.insert(pos, gen_malformed(rng));
            }
        }
        lines
    }
    fn exec_case(&mut self, lines: &[String]) -> CaseResult {
        let mut ctx = Ctx { fails: vec![], tags: vec![], line: 0, exact_nonempty: false };
        let mut outputs = vec![];
        for (i, l) in lines.iter().enumerate() {
            ctx.line = i;
            let o = match std::panic::catch_unwind(std::panic::AssertUnwindSafe(|| step(&mut ctx, l))) {
                Ok(o) => o,
                Err(e) => {
                    let msg = e.downcast_ref::<String>().cloned().or_else(|| e.downcast_ref::<&str>().map(|s| s.to_string())).unwrap_or_default();
                    ctx.fail("panic", format!("implementation panicked on `{}`: {msg}", &l[..l.len().min(120)]));
                    "panic".into()
                }
            };
            outputs.push(o);
        }
        CaseResult { outputs, failures: ctx.fails, tags: ctx.tags, nontrivial: ctx.exact_nonempty }
    }
    fn rule(&self) -> String {
        "cases 0..L: one case per vector length (quick: 0..=72, every 96..1024 boundary -1/0/+1, 1087..1100; thorough: every length 0..=1100 four times) \
         x {f32,f64,f16,bf16,u8} x {l2,dot,norm,cosine numerator,cosine/dot_distance} + hamming on random bytes, integer-valued vectors \
         (|x|<=8, one case in five at the largest magnitude that keeps every partial sum exact; zero / constant / alternating / sparse styles); \
         then random cases: batch + Arrow-batch helpers (dims 1..130, 0..5 rows, ragged batches, validity bitmaps, norm_squared_fsl), nearest-centroid \
         assignment (duplicate centroids and ties), argmin/argmax edge lists (NaN, inf, MAX, None, ties), unequal lengths, real-valued tolerance TESTS, \
         <=15% malformed lines. Non-trivial = at least one exact kernel line over non-empty vectors."
            .into()
    }
}

fn main() {
    run_main(C35 { lengths: quick_lengths() })
}
