//! C41: replay spills and stream chunking deliver every batch exactly once.
//!
//! Interpreter of the C41 line protocol against the real lance-datafusion code
//! (`spill::create_replay_spill` → `SpillSender::{write, finish, send_error}` / `SpillReceiver::read`;
//! `chunker::{chunk_stream, chunk_concat_stream, break_stream, StrictBatchSizeStream}`), a generator of
//! schedules / batch-length lists, and the property oracle.
//!
//! The spill is driven step by step and deterministically: every future / stream is polled BY HAND with a waker
//! that only records that it was woken; after a poll that returned `Pending` the blocking pool (one thread, FIFO) is
//! flushed, so the `spawn_blocking` file operation the poll started has been executed before the next op line.
//! `Pending` + woken = the task waits for that file operation (`io`), `Pending` + not woken = it waits on the
//! watch channel (`wait`).
//!
//! Op lines (a case starts with an implicit `new 0`):
//!   new <limit>                 fresh spill, `memory_limit = limit`                      -> `ok`
//!   w  <base> <blen> <off> <rows>   `write(batch)` run to completion                    -> `ok|err-finished|err-errored|busy file=<n|->[!]`
//!   wb <base> <blen> <off> <rows>   `write(batch)` polled once                          -> `ok|pending|err-..|busy file=..`
//!   fb                          `finish()` polled once                                   -> same
//!   ws                          the in-flight sender future polled once                  -> `ok|pending|idle file=..`
//!   fin                         `finish()` run to completion                             -> `ok|err-..|busy file=..`
//!   err                         `send_error(ResourcesExhausted(MARK))`                   -> `ok|busy file=..`
//!   drop                        drop the sender                                          -> `ok|busy file=..`
//!   open                        `receiver.read()`                                        -> `ok r<k>`
//!   poll <i>                    one poll of stream i                                     -> `batch v0+rows|wait|io|end|error <kind>|done`
//!   next <i>                    poll until not `io`
//!   drain <i>                   `next` until not a batch                                 -> `v0+rows … <last>`
//!   conc <limit> <k> <delays>  black box: a writer task (k batches `j*100+0..4`, then finish) and one reader task per
//!                               delay (started after that many yields) run on a multi-threaded runtime
//!                                                                                        -> `r<i>=<batches>;…` (each must be all k batches)
//!   chunk|concat|break|strict <n> <lens>                                                 -> pieces `v0+len`, `,` within / `|` between chunks
//! The batch of a write is rows `off..off+rows` of the Int32 array number (base, blen) with values `base*100+j`;
//! `file=` is the number of record batches an independent reader finds in the spill file (`!`: end marker present).

use std::collections::HashMap;
use std::future::Future;
use std::path::PathBuf;
use std::pin::Pin;
use std::sync::atomic::{AtomicBool, Ordering};
use std::sync::Arc;
use std::task::{Context, Poll};

use arrow::ipc::reader::StreamReader;
use arrow_array::{Array, Int32Array, RecordBatch};
use arrow_schema::{DataType, Field, Schema};
use datafusion::error::DataFusionError;
use datafusion::execution::SendableRecordBatchStream;
use datafusion::physical_plan::stream::RecordBatchStreamAdapter;
use futures::task::ArcWake;
use futures::{Stream, StreamExt};
use hcommon::*;
use lance_datafusion::chunker::{break_stream, chunk_concat_stream, chunk_stream, StrictBatchSizeStream};
use lance_datafusion::spill::{create_replay_spill, SpillReceiver, SpillSender};

const MARK: &str = "C41-MARK";

struct Flag(AtomicBool);
impl ArcWake for Flag {
    fn wake_by_ref(arc_self: &Arc<Self>) {
        arc_self.0.store(true, Ordering::SeqCst);
    }
}

type SenderFut = Pin<Box<dyn Future<Output = (SpillSender, Result<(), DataFusionError>)>>>;

struct ReaderSt {
    stream: SendableRecordBatchStream,
    got: usize,
    term: bool,
}

struct Spill {
    sender: Option<SpillSender>,
    inflight: Option<(SenderFut, bool)>, // (future, is_finish)
    receiver: SpillReceiver,
    path: PathBuf,
    readers: Vec<ReaderSt>,
    bases: HashMap<(u64, u64), Int32Array>,
    ptr_keys: HashMap<usize, u64>,
    key_ptrs: HashMap<u64, usize>,
    /// batches handed to an accepted `write`
    written: Vec<RecordBatch>,
    /// accepted writes that returned
    completed: usize,
    finish_called: bool,
    finished: bool,
    errored: bool,
    dropped: bool,
}

#[derive(Debug, PartialEq)]
enum Item {
    Batch(RecordBatch),
    Wait,
    Io,
    End,
    Error(String),
    Done,
}

struct C41 {
    rt: tokio::runtime::Runtime,
    rt_mt: tokio::runtime::Runtime,
    dir: tempfile::TempDir,
    counter: u64,
    flag: Arc<Flag>,
    schema: Arc<Schema>,
}

fn show_batch(b: &RecordBatch) -> String {
    let a = b.column(0).as_any().downcast_ref::<Int32Array>().unwrap();
    show_values(&a.values().iter().map(|v| *v as i64).collect::<Vec<_>>(), true)
}

/// `v0+len` for consecutive values; `spill` batches print `0+0` when empty, chunk pieces print `e`
fn show_values(v: &[i64], spill: bool) -> String {
    if v.is_empty() {
        return if spill { "0+0".into() } else { "e".into() };
    }
    if v.iter().enumerate().all(|(k, x)| *x == v[0] + k as i64) {
        format!("{}+{}", v[0], v.len())
    } else {
        format!("[{}]", v.iter().map(|x| x.to_string()).collect::<Vec<_>>().join(","))
    }
}

fn file_state(path: &PathBuf) -> String {
    if !path.exists() {
        return "file=-".into();
    }
    let bytes = std::fs::read(path).unwrap();
    let mut n = 0;
    if let Ok(rd) = StreamReader::try_new(std::io::Cursor::new(&bytes[..]), None) {
        for b in rd {
            if b.is_ok() {
                n += 1
            } else {
                break;
            }
        }
    }
    let eos = bytes.len() >= 8 && bytes[bytes.len() - 8..] == [0xff, 0xff, 0xff, 0xff, 0, 0, 0, 0];
    format!("file={n}{}", if eos { "!" } else { "" })
}

fn classify(e: &DataFusionError) -> String {
    match e {
        DataFusionError::ResourcesExhausted(m) if m == MARK => "orig".into(),
        DataFusionError::Execution(m) if m.contains(MARK) => "copy".into(),
        DataFusionError::Execution(m) if m.contains("dropped") => "dropped".into(),
        DataFusionError::ArrowError(..) | DataFusionError::IoError(..) => "io".into(),
        _ => "other".into(),
    }
}

impl C41 {
    fn new() -> Self {
        let rt = tokio::runtime::Builder::new_current_thread().enable_all().max_blocking_threads(1).build().unwrap();
        let rt_mt = tokio::runtime::Builder::new_multi_thread().worker_threads(3).enable_all().build().unwrap();
        Self {
            rt,
            rt_mt,
            dir: tempfile::tempdir().unwrap(),
            counter: 0,
            flag: Arc::new(Flag(AtomicBool::new(false))),
            schema: Arc::new(Schema::new(vec![Field::new("a", DataType::Int32, false)])),
        }
    }

    /// occupy the only blocking thread until the returned sender is used: blocking operations spawned by a poll
    /// made meanwhile stay queued, so that poll deterministically returns `Pending` at its first file operation
    fn gate(&self) -> std::sync::mpsc::Sender<()> {
        let (tx, rx) = std::sync::mpsc::channel::<()>();
        self.rt.handle().spawn_blocking(move || {
            let _ = rx.recv();
        });
        tx
    }

    /// run everything queued on the (single threaded, FIFO) blocking pool
    fn barrier(&self) {
        let (tx, rx) = std::sync::mpsc::channel();
        self.rt.handle().spawn_blocking(move || {
            let _ = tx.send(());
        });
        rx.recv().unwrap();
    }

    fn new_spill(&mut self, limit: usize) -> Spill {
        self.counter += 1;
        let path = self.dir.path().join(format!("spill-{}.arrow", self.counter));
        let (sender, receiver) = create_replay_spill(path.clone(), self.schema.clone(), limit);
        Spill {
            sender: Some(sender),
            inflight: None,
            receiver,
            path,
            readers: vec![],
            bases: HashMap::new(),
            ptr_keys: HashMap::new(),
            key_ptrs: HashMap::new(),
            written: vec![],
            completed: 0,
            finish_called: false,
            finished: false,
            errored: false,
            dropped: false,
        }
    }

    /// the batch of a write line; `Err` = the line is not well formed / the harness' assumption about buffer
    /// identity does not hold
    fn mk_batch(&self, sp: &mut Spill, toks: &[&str]) -> Result<RecordBatch, String> {
        let p: Vec<u64> = toks.iter().map(|t| t.parse::<u64>().map_err(|_| "bad-op".to_string())).collect::<Result<_, _>>()?;
        let (base, blen, off, rows) = (p[0], p[1], p[2], p[3]);
        if off + rows > blen || blen > 4096 || base > 100_000 {
            return Err("bad-op".into());
        }
        let arr = sp.bases.entry((base, blen)).or_insert_with(|| {
            let mut v: Vec<i32> = Vec::with_capacity(blen as usize);
            for j in 0..blen {
                v.push((base * 100 + j) as i32);
            }
            Int32Array::from(v)
        });
        let sl = arr.slice(off as usize, rows as usize);
        // what MemoryAccumulator will look at: pointer + capacity of the (only) buffer
        let data = sl.to_data();
        let buf = &data.buffers()[0];
        let ptr = buf.as_ptr() as usize;
        let cap = buf.capacity() as u64;
        let key = if blen == 0 { 0 } else { (base * 100 + blen) * 1000 + off + 1 };
        if cap != blen * 4 {
            return Err(format!("harness-assumption capacity {cap} != {}", blen * 4));
        }
        if cap != 0 {
            if let Some(k) = sp.ptr_keys.get(&ptr) {
                if *k != key {
                    return Err("harness-assumption pointer shared by two keys".into());
                }
            }
            if let Some(q) = sp.key_ptrs.get(&key) {
                if *q != ptr {
                    return Err("harness-assumption key with two pointers".into());
                }
            }
            sp.ptr_keys.insert(ptr, key);
            sp.key_ptrs.insert(key, ptr);
        }
        Ok(RecordBatch::try_new(self.schema.clone(), vec![Arc::new(sl)]).unwrap())
    }

    /// poll the in-flight sender future once; `Some(result)` when it completed
    fn poll_sender(&self, sp: &mut Spill) -> Option<Result<(), DataFusionError>> {
        let waker = futures::task::waker(self.flag.clone());
        let mut cx = Context::from_waker(&waker);
        self.flag.0.store(false, Ordering::SeqCst);
        let (fut, is_finish) = sp.inflight.as_mut().unwrap();
        let is_finish = *is_finish;
        let gate = self.gate();
        let polled = fut.as_mut().poll(&mut cx);
        let _ = gate.send(());
        match polled {
            Poll::Ready((sender, res)) => {
                sp.sender = Some(sender);
                sp.inflight = None;
                if res.is_ok() {
                    if is_finish {
                        sp.finished = true;
                    } else {
                        sp.completed += 1;
                    }
                }
                Some(res)
            }
            Poll::Pending => {
                self.barrier();
                if !self.flag.0.load(Ordering::SeqCst) {
                    panic!("sender future pending but not waiting for a blocking operation");
                }
                None
            }
        }
    }

    fn sender_result(&self, sp: &Spill, r: &Result<(), DataFusionError>) -> String {
        let f = file_state(&sp.path);
        match r {
            Ok(()) => format!("ok {f}"),
            Err(DataFusionError::Execution(m)) if m.contains("already been finished") => format!("err-finished {f}"),
            Err(DataFusionError::Execution(m)) if m.contains("sent an error") => format!("err-errored {f}"),
            Err(e) => format!("err-other {f} {}", classify(e)),
        }
    }

    /// start `write(batch)` / `finish()` and poll it once
    fn start_sender(&self, sp: &mut Spill, batch: Option<RecordBatch>) -> Option<Result<(), DataFusionError>> {
        let mut sender = sp.sender.take().unwrap();
        let is_finish = batch.is_none();
        let fut: SenderFut = match batch.clone() {
            Some(b) => Box::pin(async move {
                let r = sender.write(b).await;
                (sender, r)
            }),
            None => Box::pin(async move {
                let r = sender.finish().await;
                (sender, r)
            }),
        };
        sp.inflight = Some((fut, is_finish));
        let n_before = sp.written.len();
        let fin_before = sp.finish_called;
        if let Some(b) = batch {
            sp.written.push(b);
        } else {
            sp.finish_called = true;
        }
        let r = self.poll_sender(sp);
        if let Some(Err(_)) = &r {
            // rejected call: nothing was accepted
            sp.written.truncate(n_before);
            sp.finish_called = fin_before;
        }
        r
    }

    fn poll_reader(&self, sp: &mut Spill, i: usize, fails: &mut Vec<OracleFailure>, line: usize) -> Item {
        if sp.readers[i].term {
            return Item::Done;
        }
        let waker = futures::task::waker(self.flag.clone());
        let mut cx = Context::from_waker(&waker);
        self.flag.0.store(false, Ordering::SeqCst);
        let gate = self.gate();
        let r = sp.readers[i].stream.poll_next_unpin(&mut cx);
        let _ = gate.send(());
        match r {
            Poll::Pending => {
                self.barrier();
                if self.flag.0.load(Ordering::SeqCst) {
                    Item::Io
                } else {
                    // property: a written batch / the end of a finished spill is available to every reader
                    if !sp.errored && (sp.readers[i].got < sp.completed || sp.finished) {
                        fails.push(OracleFailure {
                            what: format!(
                                "reader {i} waits although {} batches were written (it got {}), finished={}",
                                sp.completed, sp.readers[i].got, sp.finished
                            ),
                            key: Some("spill_stuck".into()),
                            line,
                        });
                    }
                    Item::Wait
                }
            }
            Poll::Ready(None) => {
                sp.readers[i].term = true;
                if !(sp.finish_called && sp.readers[i].got == sp.written.len()) {
                    fails.push(OracleFailure {
                        what: format!(
                            "reader {i} ended after {} batches; {} written, finish called: {}",
                            sp.readers[i].got,
                            sp.written.len(),
                            sp.finish_called
                        ),
                        key: Some("spill_early_end".into()),
                        line,
                    });
                }
                Item::End
            }
            Poll::Ready(Some(Ok(b))) => {
                let k = sp.readers[i].got;
                if k >= sp.written.len() || sp.written[k] != b {
                    fails.push(OracleFailure {
                        what: format!("reader {i} batch #{k} is {} but the batch written was {}", show_batch(&b),
                            sp.written.get(k).map(show_batch).unwrap_or("<none>".into())),
                        key: Some("spill_wrong_batch".into()),
                        line,
                    });
                }
                sp.readers[i].got += 1;
                Item::Batch(b)
            }
            Poll::Ready(Some(Err(e))) => {
                sp.readers[i].term = true;
                let k = classify(&e);
                let expected = (sp.errored && (k == "orig" || k == "copy")) || (sp.dropped && k == "dropped");
                if !expected {
                    fails.push(OracleFailure {
                        what: format!("reader {i} failed with {e:?} (errored={}, dropped={})", sp.errored, sp.dropped),
                        key: Some("spill_spurious_error".into()),
                        line,
                    });
                }
                Item::Error(k)
            }
        }
    }

    fn next_item(&self, sp: &mut Spill, i: usize, fails: &mut Vec<OracleFailure>, line: usize) -> Item {
        for _ in 0..100_000 {
            match self.poll_reader(sp, i, fails, line) {
                Item::Io => continue,
                x => return x,
            }
        }
        Item::Io
    }

    // ------------------------------------------------------------------------------------------
    // chunker
    // ------------------------------------------------------------------------------------------

    fn input_stream(&self, lens: &[u64]) -> SendableRecordBatchStream {
        let mut start = 0i32;
        let mut batches = vec![];
        for l in lens {
            let v: Vec<i32> = (start..start + *l as i32).collect();
            start += *l as i32;
            batches.push(Ok(RecordBatch::try_new(self.schema.clone(), vec![Arc::new(Int32Array::from(v))]).unwrap()));
        }
        Box::pin(RecordBatchStreamAdapter::new(self.schema.clone(), futures::stream::iter(batches)))
    }

    fn collect<S, T>(&self, mut s: Pin<Box<S>>, cap: usize) -> Result<Vec<T>, String>
    where
        S: Stream<Item = T> + ?Sized,
    {
        self.rt.block_on(async {
            let mut out = vec![];
            while let Some(x) = s.next().await {
                out.push(x);
                if out.len() > cap {
                    return Err("unbounded".to_string());
                }
            }
            Ok(out)
        })
    }
}

fn vals(b: &RecordBatch) -> Vec<i64> {
    b.column(0).as_any().downcast_ref::<Int32Array>().unwrap().values().iter().map(|v| *v as i64).collect()
}

fn check_exact(kind: &str, n: u64, total: u64, chunks: &[Vec<i64>], fails: &mut Vec<OracleFailure>, line: usize) {
    let cat: Vec<i64> = chunks.iter().flatten().copied().collect();
    let want: Vec<i64> = (0..total as i64).collect();
    if cat != want {
        fails.push(OracleFailure {
            what: format!("{kind}: concatenation of the output is not the input ({} rows out, {} in)", cat.len(), total),
            key: Some("chunk_concat".into()),
            line,
        });
    }
    for (k, c) in chunks.iter().enumerate() {
        let last = k + 1 == chunks.len();
        if (!last && c.len() as u64 != n) || c.is_empty() || c.len() as u64 > n {
            fails.push(OracleFailure {
                what: format!("{kind}: chunk #{k} of {} has {} rows, requested size {n}", chunks.len(), c.len()),
                key: Some("chunk_size".into()),
                line,
            });
        }
    }
}

impl Prop for C41 {
    fn id(&self) -> &'static str {
        "C41"
    }
    fn budget(&self, tier: Tier) -> usize {
        match tier {
            Tier::Quick => 8000,
            Tier::Thorough => 200_000,
            Tier::Search => 60_000,
        }
    }

    fn gen_case(&mut self, rng: &mut Rng, _tier: Tier, idx: usize) -> Vec<String> {
        if idx % 4 == 3 {
            return gen_chunk_case(rng);
        }
        if idx % 16 == 5 {
            let mut out = vec![];
            for _ in 0..rng.range(1, 3) {
                let k = rng.range(0, 12);
                let limit = match rng.below(3) {
                    0 => 0,
                    1 => rng.range(1, (k * 16).max(2)),
                    _ => 1_000_000,
                };
                let mut d = vec![];
                for _ in 0..rng.range(1, 5) {
                    d.push(*rng.pick(&[0u64, 0, 1, 2, 5, 10, 30, 100]));
                }
                out.push(format!("conc {limit} {k} {}", show_nat_list(d)));
            }
            return out;
        }
        if rng.chance(1, 10) {
            return gen_malformed(rng);
        }
        gen_spill_case(rng)
    }

    fn exec_case(&mut self, lines: &[String]) -> CaseResult {
        let _g = self.rt.enter();
        let mut res = CaseResult::default();
        let mut sp = self.new_spill(0);
        let mut fails: Vec<OracleFailure> = vec![];
        let mut paths = vec![sp.path.clone()];
        let mut any_yield = false;
        for (ln, line) in lines.iter().enumerate() {
            let toks: Vec<&str> = line.split(' ').filter(|t| !t.is_empty()).collect();
            let out: String = match toks.as_slice() {
                ["new", l] => match l.parse::<usize>() {
                    Ok(l) => {
                        sp = self.new_spill(l);
                        paths.push(sp.path.clone());
                        res.tags.push(format!("limit:{}", if l == 0 { "0" } else if l >= 100_000 { "large" } else { "small" }));
                        "ok".into()
                    }
                    Err(_) => "bad-op".into(),
                },
                [op @ ("w" | "wb"), a, b, c, d] => match self.mk_batch(&mut sp, &[a, b, c, d]) {
                    Err(e) => e,
                    Ok(batch) => {
                        res.tags.push(format!("op:{op}"));
                        if sp.inflight.is_some() || sp.dropped {
                            format!("busy {}", file_state(&sp.path))
                        } else {
                            let mut r = self.start_sender(&mut sp, Some(batch));
                            if *op == "w" {
                                while r.is_none() {
                                    r = self.poll_sender(&mut sp);
                                }
                            }
                            match r {
                                Some(r) => self.sender_result(&sp, &r),
                                None => format!("pending {}", file_state(&sp.path)),
                            }
                        }
                    }
                },
                [op @ ("fin" | "fb")] => {
                    res.tags.push(format!("op:{op}"));
                    if sp.inflight.is_some() || sp.dropped {
                        format!("busy {}", file_state(&sp.path))
                    } else {
                        let mut r = self.start_sender(&mut sp, None);
                        if *op == "fin" {
                            while r.is_none() {
                                r = self.poll_sender(&mut sp);
                            }
                        }
                        match r {
                            Some(r) => self.sender_result(&sp, &r),
                            None => format!("pending {}", file_state(&sp.path)),
                        }
                    }
                }
                ["ws"] => {
                    res.tags.push("op:ws".into());
                    if sp.inflight.is_none() {
                        format!("idle {}", file_state(&sp.path))
                    } else {
                        match self.poll_sender(&mut sp) {
                            Some(r) => self.sender_result(&sp, &r),
                            None => format!("pending {}", file_state(&sp.path)),
                        }
                    }
                }
                ["err"] => {
                    res.tags.push("op:err".into());
                    if sp.inflight.is_some() || sp.dropped {
                        format!("busy {}", file_state(&sp.path))
                    } else {
                        sp.sender.as_mut().unwrap().send_error(DataFusionError::ResourcesExhausted(MARK.into()));
                        sp.errored = true;
                        format!("ok {}", file_state(&sp.path))
                    }
                }
                ["drop"] => {
                    res.tags.push("op:drop".into());
                    if sp.inflight.is_some() {
                        format!("busy {}", file_state(&sp.path))
                    } else {
                        sp.sender = None;
                        sp.dropped = true;
                        format!("ok {}", file_state(&sp.path))
                    }
                }
                ["open"] => {
                    let when = if sp.finished {
                        "after-finish"
                    } else if sp.written.is_empty() {
                        "before-writes"
                    } else {
                        "during"
                    };
                    res.tags.push(format!("reader:{when}"));
                    sp.readers.push(ReaderSt { stream: sp.receiver.read(), got: 0, term: false });
                    format!("ok r{}", sp.readers.len() - 1)
                }
                [op @ ("poll" | "next" | "drain"), i] => match i.parse::<usize>() {
                    Ok(i) if i < sp.readers.len() => {
                        res.tags.push(format!("op:{op}"));
                        let show = |it: &Item| match it {
                            Item::Batch(b) => format!("batch {}", show_batch(b)),
                            Item::Wait => "wait".into(),
                            Item::Io => "io".into(),
                            Item::End => "end".into(),
                            Item::Error(k) => format!("error {k}"),
                            Item::Done => "done".into(),
                        };
                        match *op {
                            "poll" => {
                                let it = self.poll_reader(&mut sp, i, &mut fails, ln);
                                any_yield |= matches!(it, Item::Batch(_));
                                res.tags.push(format!("poll:{}", show(&it).split(' ').next().unwrap()));
                                show(&it)
                            }
                            "next" => {
                                let it = self.next_item(&mut sp, i, &mut fails, ln);
                                any_yield |= matches!(it, Item::Batch(_));
                                show(&it)
                            }
                            _ => {
                                let mut acc = vec![];
                                loop {
                                    match self.next_item(&mut sp, i, &mut fails, ln) {
                                        Item::Batch(b) => {
                                            any_yield = true;
                                            acc.push(show_batch(&b))
                                        }
                                        it => {
                                            res.tags.push(format!("drain:{}", show(&it).split(' ').next().unwrap()));
                                            acc.push(show(&it));
                                            break;
                                        }
                                    }
                                }
                                acc.join(" ")
                            }
                        }
                    }
                    _ => "bad-op".into(),
                },
                ["conc", limit, k, delays] => match (limit.parse::<usize>(), k.parse::<u64>(), parse_nat_list(delays)) {
                    (Ok(limit), Ok(k), Some(delays)) if k <= 64 && delays.len() <= 16 && delays.iter().all(|d| *d <= 1000) => {
                        res.tags.push("op:conc".into());
                        res.nontrivial |= k > 0 && !delays.is_empty();
                        self.exec_conc(limit, k, &delays, &mut fails, ln)
                    }
                    _ => "bad-op".into(),
                },
                [op @ ("chunk" | "concat" | "break" | "strict"), n, lens] => {
                    match (n.parse::<u64>(), parse_nat_list(lens)) {
                        (Ok(n), Some(lens)) if lens.len() <= 64 && lens.iter().all(|l| *l <= 4096) && n <= 1_000_000 => {
                            if n == 0 && (*op == "break" || *op == "strict") {
                                "bad-op".into()
                            } else {
                                res.tags.push(format!("op:{op}"));
                                res.nontrivial |= lens.iter().any(|l| *l > 0);
                                self.exec_chunk(op, n, &lens, &mut fails, ln)
                            }
                        }
                        _ => "bad-op".into(),
                    }
                }
                _ => "bad-op".into(),
            };
            if out == "bad-op" {
                res.tags.push("bad-op".into());
            }
            res.outputs.push(out);
        }
        if sp.path.exists() {
            res.tags.push("spilled".into());
        } else if !sp.written.is_empty() {
            res.tags.push("in-memory".into());
        }
        res.nontrivial |= any_yield;
        // tear down: futures first, then the files
        sp.inflight = None;
        sp.readers.clear();
        self.barrier();
        drop(sp);
        for p in paths {
            let _ = std::fs::remove_file(p);
        }
        res.failures = fails;
        res
    }

    fn rule(&self) -> String {
        "3/4 spill schedules (0..7 writes of Int32 batches that are fresh arrays or slices sharing buffers, memory limit 0 / \
         within the data size / huge, whole or await-by-await stepped write and finish calls, readers opened before, between and \
         after the writes, single polls / next / drain, occasional send_error and drop, one case in ten an arbitrary op soup), \
         1/16 black-box concurrent runs (writer task + reader tasks started after 0..100 yields on a multi-threaded runtime), \
         1/4 chunker lines (chunk_stream, chunk_concat_stream, break_stream, StrictBatchSizeStream on 0..12 batch lengths 0..20 \
         incl. empty batches, sizes 1..25, size 0 for chunk/concat); non-trivial = some reader yielded a batch / non-empty input"
            .into()
    }
}

impl C41 {
    /// real concurrency: nothing is stepped, the tasks race on a multi-threaded runtime
    fn exec_conc(&mut self, limit: usize, k: u64, delays: &[u64], fails: &mut Vec<OracleFailure>, line: usize) -> String {
        self.counter += 1;
        let path = self.dir.path().join(format!("spill-{}.arrow", self.counter));
        let (mut sender, receiver) = create_replay_spill(path.clone(), self.schema.clone(), limit);
        let batches: Vec<RecordBatch> = (0..k)
            .map(|j| {
                let v: Vec<i32> = (0..4).map(|x| (j * 100 + x) as i32).collect();
                RecordBatch::try_new(self.schema.clone(), vec![Arc::new(Int32Array::from(v))]).unwrap()
            })
            .collect();
        let want = batches.clone();
        let delays: Vec<u64> = delays.to_vec();
        let outs: Result<Vec<Result<Vec<RecordBatch>, String>>, ()> = self.rt_mt.block_on(async move {
            let mut readers = vec![];
            for d in delays {
                let rx = receiver.clone();
                readers.push(tokio::spawn(async move {
                    for _ in 0..d {
                        tokio::task::yield_now().await;
                    }
                    let mut st = rx.read();
                    let mut got = vec![];
                    while let Some(b) = st.next().await {
                        match b {
                            Ok(b) => got.push(b),
                            Err(e) => return Err(format!("{e:?}")),
                        }
                    }
                    Ok(got)
                }));
            }
            let writer = tokio::spawn(async move {
                for b in batches {
                    sender.write(b).await.unwrap();
                    tokio::task::yield_now().await;
                }
                sender.finish().await.unwrap();
                sender
            });
            let all = async {
                let sender = writer.await.unwrap();
                let mut outs = vec![];
                for r in readers {
                    outs.push(r.await.unwrap());
                }
                drop(sender);
                outs
            };
            tokio::time::timeout(std::time::Duration::from_secs(20), all).await.map_err(|_| ())
        });
        let _ = std::fs::remove_file(&path);
        match outs {
            Err(()) => {
                fails.push(OracleFailure {
                    what: "concurrent spill: writer or a reader did not complete within 20 s".into(),
                    key: Some("spill_stuck".into()),
                    line,
                });
                "timeout".into()
            }
            Ok(outs) => {
                let mut parts = vec![];
                for (i, o) in outs.iter().enumerate() {
                    match o {
                        Ok(got) => {
                            if *got != want {
                                fails.push(OracleFailure {
                                    what: format!("concurrent spill: reader {i} got {} batches, {} written, or different content", got.len(), want.len()),
                                    key: Some("spill_wrong_batch".into()),
                                    line,
                                });
                            }
                            parts.push(format!("r{i}={}", if got.is_empty() { "-".to_string() } else { got.iter().map(show_batch).collect::<Vec<_>>().join(",") }));
                        }
                        Err(e) => {
                            fails.push(OracleFailure {
                                what: format!("concurrent spill: reader {i} failed: {e}"),
                                key: Some("spill_spurious_error".into()),
                                line,
                            });
                            parts.push(format!("r{i}=error"));
                        }
                    }
                }
                if parts.is_empty() {
                    "-".into()
                } else {
                    parts.join(";")
                }
            }
        }
    }

    fn exec_chunk(&self, op: &str, n: u64, lens: &[u64], fails: &mut Vec<OracleFailure>, line: usize) -> String {
        let total: u64 = lens.iter().sum();
        let cap = (total + 4) as usize;
        match op {
            "chunk" => {
                let s = chunk_stream(self.input_stream(lens), n as usize);
                let got = match self.collect(s, cap) {
                    Ok(v) => v,
                    Err(e) => return e,
                };
                let mut chunks: Vec<Vec<Vec<i64>>> = vec![];
                for c in got {
                    match c {
                        Ok(bs) => chunks.push(bs.iter().map(vals).collect()),
                        Err(_) => return "error".into(),
                    }
                }
                if n > 0 {
                    let flat: Vec<Vec<i64>> = chunks.iter().map(|c| c.iter().flatten().copied().collect()).collect();
                    check_exact("chunk_stream", n, total, &flat, fails, line);
                    if chunks.iter().flatten().any(|p| p.is_empty()) {
                        fails.push(OracleFailure {
                            what: "chunk_stream: an empty slice inside a chunk".into(),
                            key: Some("chunk_empty_slice".into()),
                            line,
                        });
                    }
                }
                if chunks.is_empty() {
                    "-".into()
                } else {
                    chunks
                        .iter()
                        .map(|c| c.iter().map(|p| show_values(p, false)).collect::<Vec<_>>().join(","))
                        .collect::<Vec<_>>()
                        .join("|")
                }
            }
            _ => {
                let got: Vec<Result<RecordBatch, String>> = match op {
                    "concat" => {
                        let s = chunk_concat_stream(self.input_stream(lens), n as usize);
                        match self.collect(s, cap) {
                            Ok(v) => v.into_iter().map(|r| r.map_err(|e| e.to_string())).collect(),
                            Err(e) => return e,
                        }
                    }
                    "break" => {
                        let s = break_stream(self.input_stream(lens), n as usize);
                        match self.collect(s, cap) {
                            Ok(v) => v.into_iter().map(|r| r.map_err(|e| e.to_string())).collect(),
                            Err(e) => return e,
                        }
                    }
                    _ => {
                        let s = Box::pin(StrictBatchSizeStream::new(self.input_stream(lens), n as usize));
                        match self.collect(s, cap) {
                            Ok(v) => v.into_iter().map(|r| r.map_err(|e| e.to_string())).collect(),
                            Err(e) => return e,
                        }
                    }
                };
                let mut pieces: Vec<Vec<i64>> = vec![];
                for g in got {
                    match g {
                        Ok(b) => pieces.push(vals(&b)),
                        Err(_) => return "error".into(),
                    }
                }
                if op == "break" {
                    let cat: Vec<i64> = pieces.iter().flatten().copied().collect();
                    if cat != (0..total as i64).collect::<Vec<_>>() {
                        fails.push(OracleFailure {
                            what: "break_stream: concatenation of the output is not the input".into(),
                            key: Some("chunk_concat".into()),
                            line,
                        });
                    }
                    // no piece is empty, crosses a multiple of n, or spans two input batches
                    let mut bounds = vec![];
                    let mut acc = 0i64;
                    for l in lens {
                        acc += *l as i64;
                        bounds.push(acc);
                    }
                    for p in &pieces {
                        let bad = match (p.first(), p.last()) {
                            (Some(a), Some(z)) => {
                                a / n as i64 != z / n as i64 || bounds.iter().any(|b| *a < *b && *b <= *z)
                            }
                            _ => true,
                        };
                        if bad {
                            fails.push(OracleFailure {
                                what: format!("break_stream: piece {} is empty, crosses a multiple of {n} or an input batch boundary", show_values(p, false)),
                                key: Some("break_window".into()),
                                line,
                            });
                        }
                    }
                } else if n > 0 {
                    check_exact(op, n, total, &pieces, fails, line);
                }
                if pieces.is_empty() {
                    "-".into()
                } else {
                    pieces.iter().map(|p| show_values(p, false)).collect::<Vec<_>>().join(",")
                }
            }
        }
    }
}

// ---------------------------------------------------------------------------------------------
// generators
// ---------------------------------------------------------------------------------------------

fn gen_lens(rng: &mut Rng) -> String {
    let k = rng.range(0, 12);
    let mut v = vec![];
    for _ in 0..k {
        v.push(if rng.chance(1, 5) { 0 } else { rng.range(1, 20) });
    }
    show_nat_list(v)
}

fn gen_chunk_case(rng: &mut Rng) -> Vec<String> {
    let mut out = vec![];
    for _ in 0..rng.range(3, 8) {
        let op = *rng.pick(&["chunk", "concat", "break", "strict"]);
        let n = if (op == "chunk" || op == "concat") && rng.chance(1, 20) {
            0
        } else if rng.chance(1, 6) {
            1
        } else {
            rng.range(1, 25)
        };
        let lens = gen_lens(rng);
        if rng.chance(1, 3) {
            // the same input through all four
            for o in ["chunk", "concat", "break", "strict"] {
                out.push(format!("{o} {} {lens}", n.max(1)));
            }
        } else {
            out.push(format!("{op} {n} {lens}"));
        }
    }
    out
}

struct BatchPlan {
    lines: Vec<String>, // "base blen off rows"
    total_cap: u64,
}

fn plan_batches(rng: &mut Rng, nb: u64) -> BatchPlan {
    let mut bases: Vec<(u64, u64)> = vec![];
    let mut lines = vec![];
    let mut total_cap = 0;
    for _ in 0..nb {
        let (base, blen) = if !bases.is_empty() && rng.chance(1, 4) {
            *rng.pick(&bases)
        } else {
            let b = (bases.len() as u64, *rng.pick(&[0u64, 1, 1, 2, 3, 4, 8, 16, 40]));
            bases.push(b);
            total_cap += b.1 * 4;
            b
        };
        let (off, rows) = if rng.chance(1, 2) {
            (0, blen)
        } else {
            let off = rng.below(blen + 1);
            (off, rng.below(blen - off + 1))
        };
        lines.push(format!("{base} {blen} {off} {rows}"));
    }
    BatchPlan { lines, total_cap }
}

fn gen_spill_case(rng: &mut Rng) -> Vec<String> {
    let nb = rng.range(0, 7);
    let plan = plan_batches(rng, nb);
    let limit = match rng.below(10) {
        0..=2 => 0,
        3..=7 => rng.range(1, plan.total_cap.max(2)),
        _ => 1_000_000,
    };
    let mut out = vec![format!("new {limit}")];
    let mut k = 0usize; // writes issued
    let mut readers = 0u64;
    let mut inflight = 0u64; // upper bound of `ws` needed
    let mut finished = false;
    let mut dead = false; // err or drop issued
    let micro = rng.chance(1, 2);
    for _ in 0..60 {
        if out.len() > 45 {
            break;
        }
        let c = rng.below(100);
        if inflight > 0 && c < 45 {
            out.push("ws".into());
            inflight -= 1;
            continue;
        }
        if c < 30 {
            if k < plan.lines.len() && !finished && (inflight == 0 || rng.chance(1, 12)) {
                if micro && rng.chance(1, 2) {
                    out.push(format!("wb {}", plan.lines[k]));
                    inflight = k as u64 + 4;
                } else {
                    out.push(format!("w {}", plan.lines[k]));
                }
                k += 1;
            }
        } else if c < 40 {
            if readers < 4 {
                out.push("open".into());
                readers += 1;
            }
        } else if c < 75 {
            if readers > 0 {
                let i = rng.below(readers);
                out.push(format!("{} {i}", rng.pick(&["poll", "poll", "poll", "next", "next", "drain"])));
            }
        } else if c < 85 {
            if k == plan.lines.len() && !finished && (inflight == 0 || rng.chance(1, 12)) {
                if micro && rng.chance(1, 2) {
                    out.push("fb".into());
                    inflight = 3;
                } else {
                    out.push("fin".into());
                }
                finished = true;
            }
        } else if c < 88 {
            if !dead && rng.chance(1, 2) {
                out.push("err".into());
                dead = true;
            }
        } else if c < 90 {
            if !dead && rng.chance(1, 2) {
                out.push("drop".into());
                dead = true;
            }
        } else if c < 93 && finished {
            // calls after finish are rejected
            out.push(rng.pick(&["fin", "w 90 2 0 2", "fb"]).to_string());
        }
    }
    for _ in 0..inflight {
        out.push("ws".into());
    }
    while k < plan.lines.len() && !finished && rng.chance(3, 4) {
        out.push(format!("w {}", plan.lines[k]));
        k += 1;
    }
    if !finished && rng.chance(9, 10) {
        out.push("fin".into());
    }
    if readers < 5 {
        out.push("open".into());
        readers += 1;
    }
    for i in 0..readers {
        out.push(format!("drain {i}"));
    }
    out
}

fn gen_malformed(rng: &mut Rng) -> Vec<String> {
    let pool = [
        "w 0 4 0 4", "w 1 2 1 1", "wb 2 8 0 8", "wb 3 0 0 0", "ws", "ws", "fb", "fin", "err", "drop", "open", "open", "poll 0", "poll 1",
        "next 0", "drain 0", "drain 1", "poll 7", "next x", "w 1 2 3 4", "w 1 2", "new 0", "new 5", "new 20", "new x", "frob", "chunk 3",
        "chunk 3 1,x", "strict 0 1,2", "break 0 3", "chunk 0 4,4", "concat 4 -", "strict 3 0,0", "break 2 5", "conc 0 2 0,1", "conc 5 x 1",
    ];
    let mut out = vec![];
    for _ in 0..rng.range(4, 24) {
        out.push(rng.pick(&pool).to_string());
    }
    out
}

fn main() {
    run_main(C41::new())
}
