//! C37: feature flags and storage version names/numbers.
//! Interpreter of the C37 line protocol against the real lance code
//! (`lance_table::feature_flags`, `lance_encoding::version::LanceFileVersion`,
//! `Fragment::try_infer_version`, `check_storage_version` through the verification hook, and table
//! histories through the public `Dataset` API), a seeded generator, and the property oracle.
//!
//! Protocol: see /verif/lean/LanceModel/C37/Driver.lean.

use std::collections::{BTreeSet, HashMap};
use std::str::FromStr;
use std::sync::Arc;

use arrow_array::{Int32Array, RecordBatch, RecordBatchIterator};
use arrow_schema::{DataType, Field as ArrowField, Schema as ArrowSchema};
use hcommon::*;
use lance::dataset::{WriteMode, WriteParams};
use lance::Dataset;
use lance_core::datatypes::Schema;
use lance_core::Error;
use lance_encoding::version::LanceFileVersion as V;
use lance_table::feature_flags::{
    apply_feature_flags, can_read_dataset, can_write_dataset, has_deprecated_v2_feature_flag, FLAG_BASE_PATHS,
    FLAG_DELETION_FILES, FLAG_DISABLE_TRANSACTION_FILE, FLAG_STABLE_ROW_IDS, FLAG_TABLE_CONFIG, FLAG_UNKNOWN,
    FLAG_USE_V2_FORMAT_DEPRECATED,
};
use lance_table::format::{
    BasePath, DataFile, DataStorageFormat, DeletionFile, DeletionFileType, Fragment, Manifest, RowIdMeta,
};

const ALL: [V; 6] = [V::Legacy, V::V2_0, V::Stable, V::V2_1, V::Next, V::V2_2];

fn vname(v: V) -> &'static str {
    match v {
        V::Legacy => "Legacy",
        V::V2_0 => "V2_0",
        V::Stable => "Stable",
        V::V2_1 => "V2_1",
        V::Next => "Next",
        V::V2_2 => "V2_2",
    }
}

fn parse_vname(s: &str) -> Option<V> {
    ALL.iter().copied().find(|v| vname(*v) == s)
}

fn err_kind(e: &Error) -> &'static str {
    match e {
        Error::InvalidInput { .. } => "invalid_input",
        Error::Internal { .. } => "internal",
        Error::NotSupported { .. } => "not_supported",
        Error::NotFound { .. } => "not_found",
        Error::CommitConflict { .. } => "conflict",
        _ => "other",
    }
}

/// error of a history operation (the message goes to stderr when HARNESS_DEBUG is set)
fn herr(e: &Error) -> String {
    if std::env::var("HARNESS_DEBUG").is_ok() {
        eprintln!("history op failed: {e}");
    }
    format!("err {}", err_kind(e))
}

fn nums(v: V) -> String {
    let (a, b) = v.to_numbers();
    format!("{a}.{b}")
}

fn describe(v: V) -> String {
    format!(
        "{} resolve={} disp={} nums={} unstable={}",
        vname(v),
        vname(v.resolve()),
        v,
        nums(v),
        v.is_unstable()
    )
}

fn show_res(r: &lance_core::Result<V>) -> String {
    match r {
        Ok(v) => format!("ok {}", vname(*v)),
        Err(e) => format!("err {}", err_kind(e)),
    }
}

fn cps_to_string(s: &str) -> Option<String> {
    parse_nat_list(s)?.into_iter().map(|c| char::from_u32(u32::try_from(c).ok()?)).collect()
}

fn str_to_cps(s: &str) -> String {
    show_nat_list(s.chars().map(|c| c as u64))
}

#[derive(Clone, Debug)]
struct FragSpec {
    del: bool,
    rowid: bool,
    files: Vec<(u32, u32)>,
}

fn parse_frags(s: &str) -> Option<Vec<FragSpec>> {
    if s == "-" {
        return Some(vec![]);
    }
    s.split(';')
        .map(|f| {
            let mut it = f.split('/');
            let hd = it.next()?;
            let hb = hd.as_bytes();
            if hb.len() != 2 || !hb.iter().all(|c| *c == b'0' || *c == b'1') {
                return None;
            }
            let files: Option<Vec<(u32, u32)>> = it
                .map(|x| {
                    let (a, b) = x.split_once('.')?;
                    Some((a.parse().ok()?, b.parse().ok()?))
                })
                .collect();
            Some(FragSpec { del: hb[0] == b'1', rowid: hb[1] == b'1', files: files? })
        })
        .collect()
}

fn show_frags(fs: &[FragSpec]) -> String {
    if fs.is_empty() {
        return "-".into();
    }
    fs.iter()
        .map(|f| {
            let mut s = format!("{}{}", f.del as u8, f.rowid as u8);
            for (a, b) in &f.files {
                s.push_str(&format!("/{a}.{b}"));
            }
            s
        })
        .collect::<Vec<_>>()
        .join(";")
}

fn build_fragments(specs: &[FragSpec]) -> Vec<Fragment> {
    specs
        .iter()
        .enumerate()
        .map(|(i, s)| {
            let mut f = Fragment::new(i as u64);
            for (k, (a, b)) in s.files.iter().enumerate() {
                f.files.push(DataFile::new(format!("f{i}_{k}.lance"), vec![0], vec![0], *a, *b, None, None));
            }
            if s.del {
                f.deletion_file = Some(DeletionFile {
                    read_version: 1,
                    id: i as u64,
                    file_type: DeletionFileType::Array,
                    num_deleted_rows: Some(1),
                    base_id: None,
                });
            }
            if s.rowid {
                f.row_id_meta = Some(RowIdMeta::Inline(vec![]));
            }
            f.physical_rows = Some(4);
            f
        })
        .collect()
}

fn test_schema() -> Schema {
    let a = ArrowSchema::new(vec![ArrowField::new("id", DataType::Int32, false)]);
    Schema::try_from(&a).unwrap()
}

/// a manifest built through the public lance-table API
fn build_manifest(specs: &[FragSpec], cfg: &[u64], base: &[u64], rf: u64, wf: u64, ver: Option<&str>) -> Manifest {
    let mut bp: HashMap<u32, BasePath> = HashMap::new();
    for b in base {
        bp.insert(*b as u32, BasePath::new(*b as u32, format!("memory://base{b}"), Some(format!("b{b}")), false));
    }
    let mut m = Manifest::new(test_schema(), Arc::new(build_fragments(specs)), DataStorageFormat::default(), bp);
    if !cfg.is_empty() {
        m.config_mut().extend(cfg.iter().map(|k| (format!("key{k}"), format!("v{k}"))));
    }
    m.reader_feature_flags = rf;
    m.writer_feature_flags = wf;
    if let Some(v) = ver {
        m.data_storage_format.version = v.to_string();
    }
    m
}

fn parse_b(s: &str) -> Option<bool> {
    match s {
        "1" => Some(true),
        "0" => Some(false),
        _ => None,
    }
}

/// the flag bits a manifest's contents call for — the property, evaluated directly (independent of the Lean model)
fn expected_flags(m: &Manifest, enable_stable: bool, disable_txn: bool) -> (u64, u64) {
    let del = m.fragments.iter().any(|f| f.deletion_file.is_some());
    let row = enable_stable || m.fragments.iter().any(|f| f.row_id_meta.is_some());
    let cfg = !m.config.is_empty();
    let base = !m.base_paths.is_empty();
    let r = (del as u64) * FLAG_DELETION_FILES | (row as u64) * FLAG_STABLE_ROW_IDS | (base as u64) * FLAG_BASE_PATHS;
    let w = r | (cfg as u64) * FLAG_TABLE_CONFIG | (disable_txn as u64) * FLAG_DISABLE_TRANSACTION_FILE;
    (r, w)
}

/// every data file carries the manifest's storage version (compared after resolving aliases)
fn files_match(m: &Manifest) -> Result<(), String> {
    let dsv = m.data_storage_format.lance_file_version().map_err(|e| format!("label does not parse: {e}"))?;
    for f in m.fragments.iter() {
        for d in &f.files {
            let fv = V::try_from_major_minor(d.file_major_version, d.file_minor_version)
                .map_err(|_| format!("file {}.{} unknown", d.file_major_version, d.file_minor_version))?;
            if fv != dsv.resolve() {
                return Err(format!("file version {fv} but table storage version {dsv}"));
            }
        }
    }
    Ok(())
}

struct Hist {
    ds: Dataset,
    next_id: i32,
    stable: bool,
    uri: String,
    /// removed when the history ends
    _dir: tempfile::TempDir,
}

struct C37 {
    rt: tokio::runtime::Runtime,
    hist: Option<Hist>,
    counter: u64,
}

fn batch(lo: i32, n: i32) -> impl arrow_array::RecordBatchReader + Send + 'static {
    let schema = Arc::new(ArrowSchema::new(vec![ArrowField::new("id", DataType::Int32, false)]));
    let b = RecordBatch::try_new(schema.clone(), vec![Arc::new(Int32Array::from_iter_values(lo..lo + n))]).unwrap();
    RecordBatchIterator::new(vec![Ok(b)], schema)
}

fn summary(m: &Manifest, rows: usize) -> String {
    let files: BTreeSet<(u32, u32)> =
        m.fragments.iter().flat_map(|f| f.files.iter().map(|d| (d.file_major_version, d.file_minor_version))).collect();
    let n = m.fragments.len();
    let with = m.fragments.iter().filter(|f| f.row_id_meta.is_some()).count();
    let rowids = if n == 0 {
        "empty"
    } else if with == n {
        "all"
    } else if with > 0 {
        "mixed"
    } else {
        "none"
    };
    format!(
        "rf={} wf={} ver={} nfrag={} ndel={} rowids={} files={} cfg={} base={} rows={}",
        m.reader_feature_flags,
        m.writer_feature_flags,
        m.data_storage_format.version,
        n,
        m.fragments.iter().filter(|f| f.deletion_file.is_some()).count(),
        rowids,
        if files.is_empty() { "-".to_string() } else { files.iter().map(|(a, b)| format!("{a}.{b}")).collect::<Vec<_>>().join(",") },
        m.config.len(),
        m.base_paths.len(),
        rows
    )
}

impl C37 {
    fn fail(res: &mut CaseResult, line: usize, key: &str, what: String) {
        res.failures.push(OracleFailure { what, key: Some(key.into()), line });
    }

    /// oracle on a published manifest of a real table
    fn check_published(&self, res: &mut CaseResult, line: usize, m: &Manifest, stable: bool) {
        let (er, ew) = expected_flags(m, stable, false);
        if m.reader_feature_flags != er || m.writer_feature_flags != ew {
            Self::fail(res, line, "flags_do_not_reflect_contents", format!(
                "published manifest has reader/writer flags {}/{} but its contents call for {er}/{ew}",
                m.reader_feature_flags, m.writer_feature_flags));
        }
        if !can_read_dataset(m.reader_feature_flags) || !can_write_dataset(m.writer_feature_flags) {
            Self::fail(res, line, "own_flags_refused", "the library refuses flags it wrote itself".into());
        }
        if let Err(e) = files_match(m) {
            Self::fail(res, line, "files_do_not_match_storage_version", e);
        }
        let with = m.fragments.iter().filter(|f| f.row_id_meta.is_some()).count();
        if with != 0 && with != m.fragments.len() {
            Self::fail(res, line, "mixed_row_ids", "some but not all fragments have row ids".into());
        }
    }

    fn hist_op(&mut self, toks: &[&str], res: &mut CaseResult, line: usize) -> String {
        let rt = &self.rt;
        let r: Result<(), String> = (|| {
            match toks {
                ["hcreate", rows, v, stable] => {
                    let rows: i32 = rows.parse().map_err(|_| "bad-op")?;
                    let v = parse_vname(v).ok_or("bad-op")?;
                    let stable = parse_b(stable).ok_or("bad-op")?;
                    self.counter += 1;
                    self.hist = None;
                    let dir = tempfile::tempdir().map_err(|_| "err other")?;
                    let uri = format!("{}/t{}", dir.path().display(), self.counter);
                    let params = WriteParams {
                        data_storage_version: Some(v),
                        enable_stable_row_ids: stable,
                        max_rows_per_file: 1 << 20,
                        auto_cleanup: None,
                        ..Default::default()
                    };
                    let ds = rt
                        .block_on(Dataset::write(batch(0, rows), uri.as_str(), Some(params)))
                        .map_err(|e| herr(&e))?;
                    self.hist = Some(Hist { ds, next_id: rows, stable, uri, _dir: dir });
                    Ok(())
                }
                ["happend", rows] => {
                    let rows: i32 = rows.parse().map_err(|_| "bad-op")?;
                    let h = self.hist.as_mut().ok_or("bad-op")?;
                    let params = WriteParams { mode: WriteMode::Append, max_rows_per_file: 1 << 20,
                        auto_cleanup: None, ..Default::default() };
                    rt.block_on(h.ds.append(batch(h.next_id, rows), Some(params))).map_err(|e| herr(&e))?;
                    h.next_id += rows;
                    Ok(())
                }
                ["hoverwrite", rows, v] => {
                    let rows: i32 = rows.parse().map_err(|_| "bad-op")?;
                    let v = parse_vname(v).ok_or("bad-op")?;
                    let h = self.hist.as_mut().ok_or("bad-op")?;
                    let params = WriteParams {
                        mode: WriteMode::Overwrite,
                        data_storage_version: Some(v),
                        enable_stable_row_ids: h.stable,
                        max_rows_per_file: 1 << 20,
                        auto_cleanup: None,
                        ..Default::default()
                    };
                    let ds = rt
                        .block_on(Dataset::write(batch(h.next_id, rows), Arc::new(h.ds.clone()), Some(params)))
                        .map_err(|e| herr(&e))?;
                    drop(ds);
                    // Re-open with a fresh session: after an overwrite the session's row-id-sequence cache still holds
                    // the sequences of the replaced fragments under the same fragment ids (the C38 defect), which makes a
                    // later scan with row ids fail; that is not what this property is about.
                    h.ds = rt.block_on(Dataset::open(&h.uri)).map_err(|e| herr(&e))?;
                    h.next_id += rows;
                    Ok(())
                }
                ["hdelete", lo, hi] => {
                    let lo: i64 = lo.parse().map_err(|_| "bad-op")?;
                    let hi: i64 = hi.parse().map_err(|_| "bad-op")?;
                    let h = self.hist.as_mut().ok_or("bad-op")?;
                    rt.block_on(h.ds.delete(&format!("id >= {lo} AND id < {hi}"))).map_err(|e| herr(&e))?;
                    Ok(())
                }
                ["hconfig", k] => {
                    let k: u64 = k.parse().map_err(|_| "bad-op")?;
                    let h = self.hist.as_mut().ok_or("bad-op")?;
                    rt.block_on(async { h.ds.update_config([(format!("key{k}"), format!("v{k}"))]).await })
                        .map_err(|e| herr(&e))?;
                    Ok(())
                }
                ["hunconfig", k] => {
                    let k: u64 = k.parse().map_err(|_| "bad-op")?;
                    let h = self.hist.as_mut().ok_or("bad-op")?;
                    let key = format!("key{k}");
                    rt.block_on(async { h.ds.update_config([(key.as_str(), None::<&str>)]).await })
                        .map_err(|e| herr(&e))?;
                    Ok(())
                }
                ["hbase", k] => {
                    let k: u64 = k.parse().map_err(|_| "bad-op")?;
                    let h = self.hist.as_mut().ok_or("bad-op")?;
                    let bp = BasePath::new(0, format!("{}-base{k}", h.uri), Some(format!("b{k}")), false);
                    match rt.block_on(Arc::new(h.ds.clone()).add_bases(vec![bp], None)) {
                        Ok(ds) => h.ds = ds,
                        // registering the same base twice is a conflict; the table is unchanged
                        Err(Error::InvalidInput { .. }) => {}
                        Err(e) => return Err(herr(&e)),
                    }
                    Ok(())
                }
                _ => Err("bad-op".into()),
            }
        })();
        if let Err(e) = r {
            return e;
        }
        let h = self.hist.as_ref().unwrap();
        let m = h.ds.manifest().clone();
        let rows = self.rt.block_on(h.ds.count_rows(None)).unwrap_or(usize::MAX);
        self.check_published(res, line, &m, h.stable);
        if m.uses_stable_row_ids() != h.stable {
            Self::fail(res, line, "stable_row_id_flag_lost", format!("table created with stable={} now reports {}", h.stable, m.uses_stable_row_ids()));
        }
        summary(&m, rows)
    }

    fn exec_line(&mut self, l: &str, res: &mut CaseResult, line: usize) -> String {
        let toks: Vec<&str> = l.split_whitespace().collect();
        let bad = "bad-op".to_string();
        match toks.as_slice() {
            ["consts"] => {
                res.tags.push("op:consts".into());
                let fl = [
                    ("FLAG_DELETION_FILES", FLAG_DELETION_FILES),
                    ("FLAG_STABLE_ROW_IDS", FLAG_STABLE_ROW_IDS),
                    ("FLAG_USE_V2_FORMAT_DEPRECATED", FLAG_USE_V2_FORMAT_DEPRECATED),
                    ("FLAG_TABLE_CONFIG", FLAG_TABLE_CONFIG),
                    ("FLAG_BASE_PATHS", FLAG_BASE_PATHS),
                    ("FLAG_DISABLE_TRANSACTION_FILE", FLAG_DISABLE_TRANSACTION_FILE),
                    ("FLAG_UNKNOWN", FLAG_UNKNOWN),
                ];
                // property: distinct single bits, FLAG_UNKNOWN is the next bit after the largest known flag
                for (i, (n, v)) in fl.iter().enumerate() {
                    if *v != 1u64 << i {
                        Self::fail(res, line, "flag_layout", format!("{n} = {v}, expected bit {i}"));
                    }
                }
                format!(
                    "{} default={} nonlegacy={}",
                    fl.iter().map(|(n, v)| format!("{n}={v}")).collect::<Vec<_>>().join(" "),
                    vname(V::default()),
                    V::iter_non_legacy().map(vname).collect::<Vec<_>>().join(",")
                )
            }
            ["canrw", w] => {
                let Ok(w) = w.parse::<u64>() else { return bad };
                let (r, wr) = (can_read_dataset(w), can_write_dataset(w));
                let unknown = w & !(FLAG_UNKNOWN - 1) != 0;
                res.tags.push(format!("canrw:{}", if unknown { "unknown-bit" } else { "known-only" }));
                if r == unknown || wr == unknown {
                    Self::fail(res, line, "unknown_bit_not_refused", format!(
                        "flag word {w}: has unknown bit = {unknown}, can_read = {r}, can_write = {wr}"));
                }
                format!("r={r} w={wr} dep={}", has_deprecated_v2_feature_flag(w))
            }
            ["parse", cps] => {
                let Some(s) = cps_to_string(cps) else { return bad };
                match V::from_str(&s) {
                    Ok(v) => {
                        res.tags.push(format!("parse:ok:{}", vname(v)));
                        let low = s.to_lowercase();
                        let documented = low == v.to_string() || (low == "legacy" && v == V::Legacy) || (low == "0.3" && v == V::V2_0);
                        if !documented {
                            Self::fail(res, line, "undocumented_version_name", format!("{s:?} parses to {}", vname(v)));
                        }
                        if V::from_str(&v.to_string()).ok() != Some(v) {
                            Self::fail(res, line, "version_string_roundtrip", format!("{} does not round trip", vname(v)));
                        }
                        format!("ok {}", describe(v))
                    }
                    Err(e) => {
                        res.tags.push("parse:err".into());
                        format!("err {}", err_kind(&e))
                    }
                }
            }
            ["mm", a, b] => {
                let (Ok(a), Ok(b)) = (a.parse::<u32>(), b.parse::<u32>()) else { return bad };
                match V::try_from_major_minor(a, b) {
                    Ok(v) => {
                        res.tags.push(format!("mm:ok:{}", vname(v)));
                        let (x, y) = v.to_numbers();
                        if v.resolve() != v || V::try_from_major_minor(x, y).ok() != Some(v) {
                            Self::fail(res, line, "version_numbers_roundtrip", format!("({a},{b}) -> {} -> ({x},{y}) does not come back", vname(v)));
                        }
                        format!("ok {}", describe(v))
                    }
                    Err(e) => {
                        res.tags.push("mm:err".into());
                        format!("err {}", err_kind(&e))
                    }
                }
            }
            ["ver", name] => {
                let Some(v) = parse_vname(name) else { return bad };
                res.tags.push("op:ver".into());
                let reparse = V::from_str(&v.to_string());
                let (x, y) = v.to_numbers();
                let renum = V::try_from_major_minor(x, y);
                let dsf = DataStorageFormat::new(v);
                let dsfparse = dsf.lance_file_version();
                if reparse.as_ref().ok() != Some(&v) {
                    Self::fail(res, line, "version_string_roundtrip", format!("{name}: from_str(to_string) = {}", show_res(&reparse)));
                }
                if renum.as_ref().ok() != Some(&v.resolve()) {
                    Self::fail(res, line, "version_numbers_roundtrip", format!("{name}: try_from_major_minor(to_numbers) = {}", show_res(&renum)));
                }
                if dsfparse.as_ref().ok() != Some(&v.resolve()) {
                    Self::fail(res, line, "storage_format_roundtrip", format!("{name}: DataStorageFormat::new(v).lance_file_version() = {}", show_res(&dsfparse)));
                }
                // documented aliases (docs/src/format/file/versioning.md)
                let doc = match v {
                    V::Legacy => Some("0.1"),
                    V::Stable => Some("2.0"),
                    V::Next => Some("2.1"),
                    _ => None,
                };
                if let Some(d) = doc {
                    if v.resolve().to_string() != d {
                        Self::fail(res, line, "alias_not_as_documented", format!("{name} resolves to {} but the documentation says {d}", v.resolve()));
                    }
                }
                if v.resolve().resolve() != v.resolve() || matches!(v.resolve(), V::Stable | V::Next) {
                    Self::fail(res, line, "resolve_not_concrete", format!("{name}.resolve() = {}", vname(v.resolve())));
                }
                format!(
                    "{} reparse={} renum={} dsf={} dsfparse={}",
                    describe(v),
                    show_res(&reparse),
                    show_res(&renum),
                    dsf.version,
                    show_res(&dsfparse)
                )
            }
            ["apply", frags, cfg, base, en, dis, rf, wf] => {
                let (Some(fs), Some(cfg), Some(base), Some(en), Some(dis), Ok(rf), Ok(wf)) =
                    (parse_frags(frags), parse_nat_list(cfg), parse_nat_list(base), parse_b(en), parse_b(dis), rf.parse::<u64>(), wf.parse::<u64>())
                else {
                    return bad;
                };
                let mut m = build_manifest(&fs, &cfg, &base, rf, wf, None);
                let before = m.clone();
                let r = apply_feature_flags(&mut m, en, dis);
                let any_row = en || fs.iter().any(|f| f.rowid);
                let all_row = fs.iter().all(|f| f.rowid);
                match &r {
                    Ok(()) => {
                        res.tags.push(format!("apply:ok:r{}w{}", m.reader_feature_flags, m.writer_feature_flags));
                        let (er, ew) = expected_flags(&m, en, dis);
                        if (m.reader_feature_flags, m.writer_feature_flags) != (er, ew) {
                            Self::fail(res, line, "flags_do_not_reflect_contents", format!(
                                "apply_feature_flags wrote {}/{} but the contents call for {er}/{ew}", m.reader_feature_flags, m.writer_feature_flags));
                        }
                        if !can_read_dataset(m.reader_feature_flags) || !can_write_dataset(m.writer_feature_flags) {
                            Self::fail(res, line, "own_flags_refused", "the library refuses flags it wrote itself".into());
                        }
                        if any_row && !all_row {
                            Self::fail(res, line, "mixed_row_ids", "stable row ids accepted although a fragment has none".into());
                        }
                    }
                    Err(_) => {
                        res.tags.push("apply:err".into());
                        if !(any_row && !all_row) {
                            Self::fail(res, line, "apply_refused_valid_manifest", "apply_feature_flags failed on a manifest with consistent row ids".into());
                        }
                    }
                }
                let mut after = m.clone();
                after.reader_feature_flags = before.reader_feature_flags;
                after.writer_feature_flags = before.writer_feature_flags;
                if after != before {
                    Self::fail(res, line, "apply_changed_contents", "apply_feature_flags changed something other than the flag words".into());
                }
                format!(
                    "{} rf={} wf={}",
                    match &r { Ok(()) => "ok".to_string(), Err(e) => format!("err {}", err_kind(e)) },
                    m.reader_feature_flags,
                    m.writer_feature_flags
                )
            }
            ["infer", frags] => {
                let Some(fs) = parse_frags(frags) else { return bad };
                let fr = build_fragments(&fs);
                match Fragment::try_infer_version(&fr) {
                    Ok(None) => {
                        res.tags.push("infer:none".into());
                        "ok none".into()
                    }
                    Ok(Some(v)) => {
                        res.tags.push(format!("infer:{}", vname(v)));
                        for f in fs.iter().flat_map(|f| f.files.iter()) {
                            if V::try_from_major_minor(f.0, f.1).ok() != Some(v) {
                                Self::fail(res, line, "infer_ignores_file", format!("inferred {} but a file is {}.{}", vname(v), f.0, f.1));
                            }
                        }
                        format!("ok {}", vname(v))
                    }
                    Err(e) => {
                        res.tags.push("infer:err".into());
                        format!("err {}", err_kind(&e))
                    }
                }
            }
            ["check", cps, frags] => {
                let (Some(ver), Some(fs)) = (cps_to_string(cps), parse_frags(frags)) else { return bad };
                let mut m = build_manifest(&fs, &[], &[], 0, 0, Some(&ver));
                let r = lance::io::commit::verif_check_storage_version(&mut m);
                self.check_oracle(res, line, &ver, &fs, &m, &r);
                match r {
                    Ok(()) => format!("ok ver={}", m.data_storage_format.version),
                    Err(e) => format!("err {}", err_kind(&e)),
                }
            }
            ["commit", cps, frags, cfg, base, en, dis] => {
                let (Some(ver), Some(fs), Some(cfg), Some(base), Some(en), Some(dis)) =
                    (cps_to_string(cps), parse_frags(frags), parse_nat_list(cfg), parse_nat_list(base), parse_b(en), parse_b(dis))
                else {
                    return bad;
                };
                let mut m = build_manifest(&fs, &cfg, &base, 0, 0, Some(&ver));
                let r = lance::io::commit::verif_check_storage_version(&mut m);
                self.check_oracle(res, line, &ver, &fs, &m, &r);
                if let Err(e) = r {
                    res.tags.push("commit:refused-check".into());
                    return format!("refused check:{}", err_kind(&e));
                }
                if let Err(e) = apply_feature_flags(&mut m, en, dis) {
                    res.tags.push("commit:refused-flags".into());
                    return format!("refused flags:{}", err_kind(&e));
                }
                res.tags.push("commit:ok".into());
                // the published manifest: flags reflect contents, files carry the version
                let (er, ew) = expected_flags(&m, en, dis);
                if (m.reader_feature_flags, m.writer_feature_flags) != (er, ew) {
                    Self::fail(res, line, "flags_do_not_reflect_contents", format!(
                        "published {}/{} but the contents call for {er}/{ew}", m.reader_feature_flags, m.writer_feature_flags));
                }
                if let Err(e) = files_match(&m) {
                    Self::fail(res, line, "files_do_not_match_storage_version", e);
                }
                format!(
                    "ok ver={} rf={} wf={} canr={} canw={}",
                    m.data_storage_format.version,
                    m.reader_feature_flags,
                    m.writer_feature_flags,
                    can_read_dataset(m.reader_feature_flags),
                    can_write_dataset(m.writer_feature_flags)
                )
            }
            [op, ..] if op.starts_with('h') => {
                res.tags.push(format!("hist:{op}"));
                self.hist_op(&toks, res, line)
            }
            _ => bad,
        }
    }

    /// oracle for check_storage_version
    fn check_oracle(&self, res: &mut CaseResult, line: usize, ver: &str, fs: &[FragSpec], m: &Manifest, r: &lance_core::Result<()>) {
        let label = V::from_str(ver).ok();
        let files: Vec<Option<V>> = fs.iter().flat_map(|f| f.files.iter()).map(|(a, b)| V::try_from_major_minor(*a, *b).ok()).collect();
        match r {
            Ok(()) => {
                res.tags.push(format!("check:ok:{}", if m.data_storage_format.version != ver { "relabelled" } else { "unchanged" }));
                if let Err(e) = files_match(m) {
                    Self::fail(res, line, "files_do_not_match_storage_version", format!("check_storage_version accepted: {e}"));
                }
            }
            Err(e) => {
                res.tags.push(format!("check:err:{}", err_kind(e)));
                // a consistent table must not be refused
                if let Some(w) = label {
                    if !files.is_empty() && files.iter().all(|f| *f == Some(w.resolve())) {
                        let key = if matches!(w, V::Stable | V::Next) { "alias_label_refused" } else { "consistent_table_refused" };
                        Self::fail(res, line, key, format!(
                            "check_storage_version refuses a table labelled {ver:?} whose files are all {}", w.resolve()));
                    }
                }
            }
        }
    }
}

// ---------------------------------------------------------------------------------------------
// generator
// ---------------------------------------------------------------------------------------------

const NAMES: [&str; 10] = ["0.1", "2.0", "2.1", "2.2", "stable", "next", "legacy", "0.3", "0.2", "2.3"];
const PAIRS: [(u32, u32); 8] = [(0, 0), (0, 1), (0, 2), (0, 3), (2, 0), (2, 1), (2, 2), (1, 0)];

fn gen_string(r: &mut Rng) -> String {
    let base = r.pick(&NAMES).to_string();
    match r.below(16) {
        0..=4 => base,
        5 => base.to_uppercase(),
        6 => base.chars().map(|c| if r.chance(1, 2) { c.to_ascii_uppercase() } else { c }).collect(),
        7 => format!(" {base}"),
        8 => format!("{base} "),
        9 => {
            // drop / duplicate / replace one character
            let mut cs: Vec<char> = base.chars().collect();
            let i = r.usize(cs.len());
            match r.below(3) {
                0 => {
                    cs.remove(i);
                }
                1 => cs.insert(i, cs[i]),
                _ => cs[i] = *r.pick(&['0', '1', '2', '3', '.', 'x', 's', 'K', '-', 'v']),
            }
            cs.into_iter().collect()
        }
        10 => format!("v{base}"),
        11 => {
            // non-ASCII look-alikes: Kelvin sign, long s, fullwidth digits, dotted capital I, final sigma
            r.pick(&["\u{212A}", "\u{17F}table", "\u{FF12}.\u{FF10}", "\u{130}", "STABLE\u{3A3}", "ne\u{D7}t", "2\u{2024}0", "ｓtable", "NEXT", "Legacy", "lEGACY"]).to_string()
        }
        12 => String::new(),
        13 => format!("{}.{}", r.below(4), r.below(5)),
        14 => format!("{}.{}.0", r.below(3), r.below(3)),
        _ => (0..r.below(7)).map(|_| *r.pick(&['s', 't', 'a', 'b', 'l', 'e', 'n', 'x', 'g', 'c', 'y', '0', '1', '2', '3', '.', 'S', 'T'])).collect(),
    }
}

fn gen_pair(r: &mut Rng, malformed: bool) -> (u32, u32) {
    if malformed {
        match r.below(4) {
            0 => (1, r.below(3) as u32),
            1 => (2, 3 + r.below(3) as u32),
            2 => (r.below(5) as u32, r.below(6) as u32),
            _ => (u32::MAX - r.below(2) as u32, r.below(3) as u32),
        }
    } else {
        *r.pick(&PAIRS[..7])
    }
}

/// fragments whose files are mostly of one version
fn gen_frags(r: &mut Rng, malformed: bool) -> Vec<FragSpec> {
    let n = match r.below(10) {
        0 => 0,
        1..=4 => 1,
        5..=7 => 2,
        _ => 3 + r.usize(3),
    };
    let main_bad = malformed && r.chance(1, 3);
    let main = gen_pair(r, main_bad);
    // row ids: all / none (mostly), mixed sometimes
    let row_mode = r.below(8);
    let del_p = r.below(3);
    (0..n)
        .map(|_| {
            let nf = match r.below(8) {
                0 => 0,
                1..=5 => 1,
                _ => 2,
            };
            let files = (0..nf)
                .map(|_| {
                    if r.chance(1, 10) {
                        // same version under another spelling, or a different one
                        match main {
                            (2, 0) => (0, 3),
                            (0, 2) => (0, r.below(2) as u32),
                            _ => gen_pair(r, malformed),
                        }
                    } else if malformed && r.chance(1, 6) {
                        gen_pair(r, true)
                    } else {
                        main
                    }
                })
                .collect();
            FragSpec {
                del: r.below(3) < del_p,
                rowid: match row_mode {
                    0..=2 => true,
                    3..=6 => false,
                    _ => r.chance(1, 2),
                },
                files,
            }
        })
        .collect()
}

fn gen_small_list(r: &mut Rng) -> String {
    match r.below(5) {
        0..=1 => "-".into(),
        2..=3 => format!("{}", 1 + r.below(4)),
        _ => "1,2".into(),
    }
}

fn gen_label(r: &mut Rng, frags: &[FragSpec], malformed: bool) -> String {
    // mostly the label that matches the files
    let first = frags.iter().flat_map(|f| f.files.iter()).next().copied();
    let matching = first.and_then(|(a, b)| V::try_from_major_minor(a, b).ok()).map(|v| v.to_string());
    match (r.below(10), matching) {
        (0..=5, Some(m)) => m,
        (6, _) => r.pick(&["legacy", "0.1", "LEGACY"]).to_string(),
        (7, _) => r.pick(&["stable", "next", "Stable"]).to_string(),
        _ => {
            if malformed {
                gen_string(r)
            } else {
                r.pick(&NAMES[..8]).to_string()
            }
        }
    }
}

impl Prop for C37 {
    fn id(&self) -> &'static str {
        "C37"
    }

    fn budget(&self, tier: Tier) -> usize {
        match tier {
            Tier::Quick => 700,
            Tier::Thorough => 12000,
            Tier::Search => 4000,
        }
    }

    fn gen_case(&mut self, r: &mut Rng, _tier: Tier, idx: usize) -> Vec<String> {
        let mut l = vec![];
        match idx {
            // ---- exhaustive part
            0 => {
                l.push("consts".into());
                for v in ALL {
                    l.push(format!("ver {}", vname(v)));
                }
                for (a, b) in (0..5).flat_map(|a| (0..5).map(move |b| (a, b))) {
                    l.push(format!("mm {a} {b}"));
                }
            }
            1 => {
                // all flag words below 2 * FLAG_UNKNOWN
                for w in 0..(2 * FLAG_UNKNOWN) {
                    l.push(format!("canrw {w}"));
                }
            }
            2 => {
                // single bits, all-ones below a bit, a known word plus one unknown bit
                for i in 0..64u32 {
                    l.push(format!("canrw {}", 1u64 << i));
                    l.push(format!("canrw {}", (1u64 << i) - 1));
                    l.push(format!("canrw {}", (1u64 << i) | 27));
                }
                l.push(format!("canrw {}", u64::MAX));
            }
            3 => {
                // every name, alias and a few near misses, in three casings
                for n in NAMES {
                    l.push(format!("parse {}", str_to_cps(n)));
                    l.push(format!("parse {}", str_to_cps(&n.to_uppercase())));
                    let mut t = n.to_string();
                    if let Some(c) = t.get_mut(0..1) {
                        c.make_ascii_uppercase();
                    }
                    l.push(format!("parse {}", str_to_cps(&t)));
                }
                for s in ["", " ", "2", "2.", ".0", "2.00", "02.0", "2.0 ", "stable\n", "\u{212A}", "\u{17F}table", "\u{FF12}.\u{FF10}", "latest", "v2", "2_0", "V2_0"] {
                    l.push(format!("parse {}", str_to_cps(s)));
                }
            }
            4..=20 => {
                // apply_feature_flags: all fragment lists of length <= 2 over (deletion, row id), times the switches
                let combos: Vec<Vec<FragSpec>> = {
                    let one: Vec<FragSpec> = (0..4).map(|k| FragSpec { del: k & 1 != 0, rowid: k & 2 != 0, files: vec![(2, 0)] }).collect();
                    let mut v = vec![vec![]];
                    for a in &one {
                        v.push(vec![a.clone()]);
                    }
                    for a in &one {
                        for b in &one {
                            v.push(vec![a.clone(), b.clone()]);
                        }
                    }
                    v
                };
                let k = idx - 4; // 0..=16: 16 switch combinations + one with dirty previous flags
                for fs in &combos {
                    if k < 16 {
                        l.push(format!(
                            "apply {} {} {} {} {} 0 0",
                            show_frags(fs),
                            if k & 1 != 0 { "1" } else { "-" },
                            if k & 2 != 0 { "3" } else { "-" },
                            (k >> 2) & 1,
                            (k >> 3) & 1
                        ));
                    } else {
                        l.push(format!("apply {} 1,2 - 0 0 {} {}", show_frags(fs), u64::MAX, 64 + 4));
                    }
                }
            }
            // ---- seeded part
            _ => {
                let malformed = r.chance(1, 8);
                match r.below(10) {
                    0 => {
                        for _ in 0..12 {
                            let w = match r.below(4) {
                                0 => r.next_u64(),
                                1 => r.below(64) | (1u64 << r.below(64)),
                                2 => r.below(128),
                                _ => r.next_u64() >> r.below(64),
                            };
                            l.push(format!("canrw {w}"));
                        }
                    }
                    1 => {
                        for _ in 0..10 {
                            l.push(format!("parse {}", str_to_cps(&gen_string(r))));
                        }
                        for _ in 0..4 {
                            let bad_pair = r.chance(1, 3);
                            let (a, b) = gen_pair(r, bad_pair);
                            l.push(format!("mm {a} {b}"));
                        }
                    }
                    2..=3 => {
                        for _ in 0..6 {
                            let fs = gen_frags(r, malformed);
                            l.push(format!(
                                "apply {} {} {} {} {} {} {}",
                                show_frags(&fs),
                                gen_small_list(r),
                                gen_small_list(r),
                                r.below(4) / 3,
                                r.below(4) / 3,
                                if r.chance(1, 2) { 0 } else { r.next_u64() >> r.below(64) },
                                if r.chance(1, 2) { 0 } else { r.next_u64() >> r.below(64) }
                            ));
                        }
                    }
                    4..=6 => {
                        for _ in 0..6 {
                            let fs = gen_frags(r, malformed);
                            let label = gen_label(r, &fs, malformed);
                            match r.below(3) {
                                0 => {
                                    l.push(format!("infer {}", show_frags(&fs)));
                                    l.push(format!("check {} {}", str_to_cps(&label), show_frags(&fs)));
                                }
                                1 => l.push(format!("check {} {}", str_to_cps(&label), show_frags(&fs))),
                                _ => l.push(format!(
                                    "commit {} {} {} {} {} {}",
                                    str_to_cps(&label),
                                    show_frags(&fs),
                                    gen_small_list(r),
                                    gen_small_list(r),
                                    r.below(4) / 3,
                                    r.below(4) / 3
                                )),
                            }
                        }
                    }
                    _ => {
                        // a table history through the public Dataset API
                        let vers = [V::V2_0, V::Stable, V::V2_1, V::Next, V::V2_2];
                        let rows = 2 + r.below(5);
                        l.push(format!("hcreate {rows} {} {}", vname(*r.pick(&vers)), r.below(2)));
                        let mut next = rows;
                        for _ in 0..(3 + r.below(5)) {
                            match r.below(12) {
                                0..=2 => {
                                    let n = 1 + r.below(5);
                                    l.push(format!("happend {n}"));
                                    next += n;
                                }
                                3..=6 => {
                                    let lo = r.below(next + 1);
                                    let hi = lo + r.below(5);
                                    l.push(format!("hdelete {lo} {hi}"));
                                }
                                7 => l.push(format!("hconfig {}", 1 + r.below(3))),
                                8 => l.push(format!("h{} {}", if r.chance(1, 2) { "base" } else { "config" }, 1 + r.below(3))),
                                9..=10 => l.push(format!("hunconfig {}", 1 + r.below(3))),
                                _ => {
                                    let n = 1 + r.below(4);
                                    l.push(format!("hoverwrite {n} {}", vname(*r.pick(&vers))));
                                    next += n;
                                }
                            }
                        }
                    }
                }
            }
        }
        l
    }

    fn exec_case(&mut self, lines: &[String]) -> CaseResult {
        let mut res = CaseResult::default();
        self.hist = None;
        for (i, l) in lines.iter().enumerate() {
            let o = self.exec_line(l, &mut res, i);
            if o == "bad-op" {
                res.tags.push("bad-op".into());
            }
            res.outputs.push(o);
        }
        res.nontrivial = !lines.is_empty() && !res.outputs.iter().all(|o| o == "bad-op");
        res.tags.sort();
        res.tags.dedup();
        self.hist = None;
        res
    }

    fn rule(&self) -> String {
        "cases 0-20 enumerate: constants, every variant, number pairs 0..5 x 0..5, every flag word < 2*FLAG_UNKNOWN, every single bit / all-ones / known|unknown word, every version name in three casings plus near misses, apply_feature_flags on every fragment list of length <= 2 over (deletion file, row id meta) x config x base paths x both switches; the rest is seeded: random u64 flag words, mutated version strings (incl. non-ASCII look-alikes), manifests built through Manifest::new / update_config / BasePath::new with mostly uniform file versions (1 case in 8 malformed: unknown number pairs, mixtures, bad labels), check_storage_version and the check+apply commit gate on them, and table histories (create/append/delete/overwrite/config/add_bases) through Dataset on memory://. A case is non-trivial if at least one line is a recognised operation.".into()
    }
}

fn main() {
    let rt = tokio::runtime::Builder::new_current_thread().enable_all().build().unwrap();
    run_main(C37 { rt, hist: None, counter: 0 })
}
