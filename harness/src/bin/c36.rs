//! C36: the namespace catalog (DirectoryNamespace: directory-listing mode, manifest mode, dual mode)
//! behaves as a hierarchical map.
//!
//! Interpreter of the C36 line protocol against the REAL lance-namespace-impls code on a tempdir,
//! a seeded generator of op sequences, and the property oracle: an independent map spec
//! (`Spec`, a BTreeMap from the full id to the kind of entry) evaluated side by side.
//!
//! Protocol (one output line per op line).  An id is `-` (root / empty id) or its components joined by `,`;
//! the empty name is written `~`.  Names must not contain space, `,`, or be `-` / `~`.
//!   mode D|M|B o0|o1        first line of a case: directory-only / manifest-only / dual; inline optimisation off/on
//!   cns ID | dns ID | ens ID | desns ID | lns ID TOK LIM
//!   ct ID | reg ID LOC | dereg ID | dt ID | et ID | dest ID | lt ID TOK LIM
//!   page ns|t ID LIM         iterate pages (start-after = response token or, if absent, the last name returned)
//! Mutating ops print `<class> | <recursive dump>`, read-only ops print their answer.

use std::collections::BTreeMap;
use std::future::Future;
use std::pin::Pin;

use hcommon::*;
use lance_namespace::models::*;
use lance_namespace::LanceNamespace;
use lance_namespace_impls::{DirectoryNamespace, DirectoryNamespaceBuilder};

const ALPHABET: &[&str] = &["a", "b", "ab", "a$b", "x'y", ".lance", "é", ""];
const EXT_LOCS: &[&str] = &["ext1", "ext2", "sub/ext3", "/abs", "../up", "s3://b/x"];
const MAX_PAGES: usize = 6;
const MAX_DEPTH: usize = 5;

fn dec_name(t: &str) -> String {
    if t == "~" {
        String::new()
    } else {
        t.to_string()
    }
}
fn enc_name(n: &str) -> String {
    if n.is_empty() {
        "~".into()
    } else {
        n.to_string()
    }
}
fn dec_id(t: &str) -> Vec<String> {
    if t == "-" {
        vec![]
    } else {
        t.split(',').map(dec_name).collect()
    }
}
fn enc_id(id: &[String]) -> String {
    if id.is_empty() {
        "-".into()
    } else {
        id.iter().map(|n| enc_name(n)).collect::<Vec<_>>().join(",")
    }
}

/// hide the random 8-hex-digit prefix of hash-named table directories
fn canon_hash(n: &str) -> String {
    let b = n.as_bytes();
    if b.len() >= 9 && b[8] == b'_' && b[..8].iter().all(|c| c.is_ascii_digit() || (b'a'..=b'f').contains(c)) {
        format!("#{}", &n[8..])
    } else {
        n.to_string()
    }
}
fn show_name(n: &str) -> String {
    enc_name(&canon_hash(n))
}
fn show_list(v: &[String]) -> String {
    format!("[{}]", v.iter().map(|n| show_name(n)).collect::<Vec<_>>().join(","))
}

fn class(e: &lance_core::Error) -> String {
    let m = e.to_string();
    let c = if m.contains("Root namespace") {
        "root"
    } else if m.contains("Parent namespace") {
        "noparent"
    } else if m.contains("Failed to execute merge") {
        "mergefail"
    } else if m.contains("already exists") {
        "exists"
    } else if m.contains("is not empty") {
        "notempty"
    } else if m.contains("only supported when manifest") || m.contains("only supports root namespace") {
        "unsupported"
    } else if m.contains("not found") || m.contains("does not exist") {
        "notfound"
    } else if matches!(e, lance_core::Error::InvalidInput { .. }) {
        "invalid"
    } else if m.contains("Failed to count rows")
        || m.contains("Failed to filter")
        || m.contains("Failed to delete:")
        || m.contains("Failed to create stream")
        || m.contains("Failed to read batch")
    {
        "sqlerr"
    } else if m.contains("Failed to delete table directory") || m.contains("Failed to drop table") {
        "rmdir"
    } else {
        return format!("other:{}", m.chars().take(60).collect::<String>().replace(['\n', ' '], "_"));
    };
    c.to_string()
}

// ---------------------------------------------------------------------------------------------
// The independent map spec (the property oracle).  Key = full id, value = is_table.
// ---------------------------------------------------------------------------------------------
#[derive(Default, Clone)]
struct Spec {
    m: BTreeMap<Vec<String>, bool>,
}
impl Spec {
    fn parents_ok(&self, id: &[String]) -> bool {
        (1..id.len()).all(|i| self.m.get(&id[..i]) == Some(&false))
    }
    fn children(&self, id: &[String], tables: bool) -> Vec<String> {
        let it = self.m.iter().filter(|(k, v)| **v == tables && k.len() == id.len() + 1 && k[..id.len()] == *id);
        it.map(|(k, _)| k[id.len()].clone()).collect()
    }
    /// result class of a catalog call in the manifest-backed modes
    fn call(&mut self, op: &str, id: &[String], loc_ok: bool) -> String {
        let here = self.m.get(id).copied();
        let r = match op {
            "cns" | "dns" if id.is_empty() => "root",
            "ct" | "reg" | "dereg" | "dt" | "et" | "dest" if id.is_empty() => "invalid",
            "reg" if !loc_ok => "invalid",
            "cns" | "reg" if !self.parents_ok(id) => "noparent",
            "cns" | "ct" | "reg" if here.is_some() => "exists",
            "cns" => return self.put(id, false),
            "ct" | "reg" => return self.put(id, true),
            "dns" if here != Some(false) => "notfound",
            "dns" if self.m.keys().any(|k| k.len() > id.len() && k[..id.len()] == *id) => "notempty",
            "dereg" | "dt" if here != Some(true) => "notfound",
            "dns" | "dereg" | "dt" => {
                self.m.remove(id);
                "ok"
            }
            "ens" | "desns" => return Self::found(id.is_empty() || here == Some(false), op == "ens"),
            "et" | "dest" => return Self::found(here == Some(true), op == "et"),
            _ => "bad-op",
        };
        r.to_string()
    }
    fn put(&mut self, id: &[String], t: bool) -> String {
        self.m.insert(id.to_vec(), t);
        "ok".into()
    }
    fn found(b: bool, as_bool: bool) -> String {
        (if as_bool { if b { "true" } else { "false" } } else if b { "ok" } else { "notfound" }).into()
    }
    fn dump(&self, path: &[String]) -> String {
        let mut kids: Vec<String> = vec![];
        for c in self.children(path, false) {
            let mut p = path.to_vec();
            p.push(c.clone());
            kids.push(format!("{}{{{}}}", show_name(&c), self.dump(&p)));
        }
        format!("n[{}]t{}", kids.join(","), show_list(&self.children(path, true)))
    }
}

// ---------------------------------------------------------------------------------------------

struct C36 {
    rt: tokio::runtime::Runtime,
}

struct Ctx {
    ns: DirectoryNamespace,
    mode: char,
}

type BoxFut<'a, T> = Pin<Box<dyn Future<Output = T> + 'a>>;

impl Ctx {
    async fn list_ns(&self, id: &[String], tok: Option<String>, lim: Option<i32>) -> Result<(Vec<String>, Option<String>), String> {
        let mut r = ListNamespacesRequest::new();
        r.id = Some(id.to_vec());
        r.page_token = tok;
        r.limit = lim;
        self.ns.list_namespaces(r).await.map(|x| (x.namespaces, x.page_token)).map_err(|e| class(&e))
    }
    async fn list_t(&self, id: &[String], tok: Option<String>, lim: Option<i32>) -> Result<(Vec<String>, Option<String>), String> {
        let mut r = ListTablesRequest::new();
        r.id = Some(id.to_vec());
        r.page_token = tok;
        r.limit = lim;
        self.ns.list_tables(r).await.map(|x| (x.tables, x.page_token)).map_err(|e| class(&e))
    }
    async fn list(&self, tables: bool, id: &[String], tok: Option<String>, lim: Option<i32>) -> Result<(Vec<String>, Option<String>), String> {
        if tables {
            self.list_t(id, tok, lim).await
        } else {
            self.list_ns(id, tok, lim).await
        }
    }
    /// recursive listing through the public API; lists are sorted here (order is observed by lns / lt / page)
    fn dump<'a>(&'a self, path: Vec<String>, depth: usize) -> BoxFut<'a, String> {
        Box::pin(async move {
            if depth > MAX_DEPTH {
                return "^".to_string();
            }
            let nss = match self.list_ns(&path, None, None).await {
                Ok((mut v, _)) => {
                    v.sort();
                    let mut parts = vec![];
                    for c in v {
                        let mut p = path.clone();
                        p.push(c.clone());
                        parts.push(format!("{}{{{}}}", show_name(&c), self.dump(p, depth + 1).await));
                    }
                    format!("[{}]", parts.join(","))
                }
                Err(c) => format!("!{c}"),
            };
            let ts = match self.list_t(&path, None, None).await {
                Ok((v, _)) => {
                    let mut v: Vec<String> = v.iter().map(|n| canon_hash(n)).collect();
                    v.sort();
                    show_list(&v)
                }
                Err(c) => format!("!{c}"),
            };
            format!("n{nss}t{ts}")
        })
    }
}

fn parse_tok(t: &str) -> Option<String> {
    if t == "-" {
        None
    } else {
        Some(dec_name(t))
    }
}
fn parse_lim(t: &str) -> Option<i32> {
    if t == "-" {
        None
    } else {
        t.parse().ok()
    }
}
fn res_class<T>(r: Result<T, lance_core::Error>) -> String {
    match r {
        Ok(_) => "ok".into(),
        Err(e) => class(&e),
    }
}
fn exists_class(r: Result<(), lance_core::Error>) -> String {
    match r {
        Ok(()) => "true".into(),
        Err(e) => {
            let c = class(&e);
            if c == "notfound" {
                "false".into()
            } else {
                c
            }
        }
    }
}
fn loc_ok(loc: &str) -> bool {
    !(loc.contains("://") || loc.starts_with('/') || loc.contains(".."))
}

/// which recorded defect class explains a divergence from the map spec, given the ids used so far in the case
fn divergence_key(mode: char, toks: &[&str], id: &[String], history: &[Vec<String>], spec: &Spec) -> Option<String> {
    let op = toks[0];
    let has = |f: &dyn Fn(&[String]) -> bool| history.iter().any(|i| f(i));
    if mode != 'D' && id.iter().any(|n| n.contains('\'')) {
        return Some("quote_in_name_sql_error".into());
    }
    if mode != 'D' && has(&|i| i.iter().any(|n| n.contains('$'))) {
        return Some("delimiter_in_name_collides".into());
    }
    // manifest-backed listings ignore page_token and limit
    let via_manifest = mode == 'M' || (mode == 'B' && (!id.is_empty() || op == "lns"));
    if matches!(op, "lns" | "lt") && via_manifest && (toks[2] != "-" || toks[3] != "-") {
        return Some("manifest_list_ignores_paging".into());
    }
    // existence checks that ignore the object type: the id (or a proper prefix used as parent) names an entry of the other kind
    if mode != 'D' {
        let want_table = matches!(op, "ct" | "reg" | "dereg" | "dt" | "et" | "dest" | "lt");
        let other_kind_here = spec.m.get(id).is_some_and(|t| *t != want_table);
        let table_as_parent = (1..id.len()).any(|i| spec.m.get(&id[..i]) == Some(&true));
        if other_kind_here || table_as_parent {
            return Some("object_type_ignored".into());
        }
    }
    // names the store cannot hold faithfully: percent-encoded directory names / byte offsets used as character offsets
    if has(&|i| i.iter().any(|n| !n.is_ascii())) {
        return Some("non_ascii_name_unfaithful".into());
    }
    // dual mode: the hash-named directory of a child-namespace table whose name ends in `.lance` is listed as a root table
    if mode == 'B' && has(&|i| i.len() >= 2 && i.last().is_some_and(|n| n.ends_with(".lance"))) {
        return Some("lance_suffix_ghost_table".into());
    }
    None
}

impl C36 {
    async fn run(&self, lines: &[String]) -> CaseResult {
        let mut res = CaseResult::default();
        let tmp = tempfile::tempdir().unwrap();
        let root = tmp.path().to_str().unwrap().to_string();
        let mut ctx: Option<Ctx> = None;
        let mut spec = Spec::default();
        let mut history: Vec<Vec<String>> = vec![];
        let mut unspecified = false; // the map spec does not prescribe the behaviour from here on
        let mut mutations = 0usize;
        for (ln, line) in lines.iter().enumerate() {
            let toks: Vec<&str> = line.split(' ').filter(|t| !t.is_empty()).collect();
            if toks.first() == Some(&"mode") && toks.len() == 3 && ctx.is_none() {
                let mode = toks[1].chars().next().unwrap_or('M');
                let b = DirectoryNamespaceBuilder::new(root.clone())
                    .manifest_enabled(mode != 'D')
                    .dir_listing_enabled(mode != 'M')
                    .inline_optimization_enabled(toks[2] == "o1");
                // locations that `reg` may point at
                for l in ["ext1", "ext2", "sub/ext3"] {
                    std::fs::create_dir_all(tmp.path().join(l)).unwrap();
                    std::fs::write(tmp.path().join(l).join(".lance-reserved"), b"").unwrap();
                }
                match b.build().await {
                    Ok(ns) => {
                        ctx = Some(Ctx { ns, mode });
                        res.outputs.push("ok".into());
                        res.tags.push(format!("mode:{mode}"));
                    }
                    Err(e) => res.outputs.push(format!("build-failed:{}", class(&e))),
                }
                continue;
            }
            let Some(c) = ctx.as_ref() else {
                res.outputs.push("bad-op".into());
                continue;
            };
            let mode = c.mode;
            let ns = &c.ns;
            let op = toks.first().copied().unwrap_or("");
            let mutating = matches!(op, "cns" | "dns" | "ct" | "reg" | "dereg" | "dt");
            let arity = match op {
                "cns" | "dns" | "ens" | "desns" | "ct" | "dereg" | "dt" | "et" | "dest" => 2,
                "reg" => 3,
                "lns" | "lt" | "page" => 4,
                _ => 0,
            };
            if arity == 0 || toks.len() != arity {
                res.outputs.push("bad-op".into());
                continue;
            }
            res.tags.push(format!("op:{op}"));
            let id = dec_id(if op == "page" { toks[2] } else { toks[1] });
            history.push(id.clone());
            let out: String = match op {
                "cns" => {
                    let mut r = CreateNamespaceRequest::new();
                    r.id = Some(id.clone());
                    res_class(ns.create_namespace(r).await)
                }
                "dns" => {
                    let mut r = DropNamespaceRequest::new();
                    r.id = Some(id.clone());
                    res_class(ns.drop_namespace(r).await)
                }
                "ens" => {
                    let mut r = NamespaceExistsRequest::new();
                    r.id = Some(id.clone());
                    exists_class(ns.namespace_exists(r).await)
                }
                "desns" => {
                    let mut r = DescribeNamespaceRequest::new();
                    r.id = Some(id.clone());
                    res_class(ns.describe_namespace(r).await)
                }
                "ct" => {
                    let mut r = CreateEmptyTableRequest::new();
                    r.id = Some(id.clone());
                    res_class(ns.create_empty_table(r).await)
                }
                "reg" => {
                    let mut r = RegisterTableRequest::new(toks[2].to_string());
                    r.id = Some(id.clone());
                    res_class(ns.register_table(r).await)
                }
                "dereg" => {
                    let mut r = DeregisterTableRequest::new();
                    r.id = Some(id.clone());
                    res_class(ns.deregister_table(r).await)
                }
                "dt" => {
                    let mut r = DropTableRequest::new();
                    r.id = Some(id.clone());
                    res_class(ns.drop_table(r).await)
                }
                "et" => {
                    let mut r = TableExistsRequest::new();
                    r.id = Some(id.clone());
                    exists_class(ns.table_exists(r).await)
                }
                "dest" => {
                    let mut r = DescribeTableRequest::new();
                    r.id = Some(id.clone());
                    res_class(ns.describe_table(r).await)
                }
                "lns" | "lt" => match c.list(op == "lt", &id, parse_tok(toks[2]), parse_lim(toks[3])).await {
                    Ok((v, t)) => format!("{} tok={}", show_list(&v), t.map(|t| show_name(&t)).unwrap_or("-".into())),
                    Err(e) => e,
                },
                "page" => {
                    let tables = toks[1] == "t";
                    let lim = parse_lim(toks[3]).unwrap_or(1).max(1);
                    let mut tok: Option<String> = None;
                    let mut pages = String::new();
                    let mut all: Vec<String> = vec![];
                    let mut n = 0;
                    let mut err = None;
                    let mut missing_token = false;
                    let full = c.list(tables, &id, None, None).await;
                    loop {
                        if n == MAX_PAGES {
                            pages.push('+');
                            break;
                        }
                        n += 1;
                        match c.list(tables, &id, tok.clone(), Some(lim)).await {
                            Ok((v, t)) => {
                                pages.push_str(&show_list(&v));
                                all.extend(v.iter().cloned());
                                if let (Ok((f, _)), None) = (&full, &t) {
                                    let mut f = f.clone();
                                    f.sort();
                                    if v.last().is_some_and(|l| f.iter().any(|x| x > l)) {
                                        missing_token = true;
                                    }
                                }
                                if v.is_empty() || (v.len() as i32) < lim {
                                    break;
                                }
                                tok = t.filter(|t| !t.is_empty()).or(v.last().cloned());
                            }
                            Err(e) => {
                                err = Some(e);
                                break;
                            }
                        }
                    }
                    // oracle: paging returns every entry of the (unpaged) listing exactly once, in sorted order
                    if let (Ok((f, _)), None) = (&full, &err) {
                        let mut f = f.clone();
                        f.sort();
                        if all != f {
                            let via_manifest = mode == 'M' || (mode == 'B' && (!id.is_empty() || !tables));
                            let exceeded = all.len() > f.len() || n == MAX_PAGES;
                            res.failures.push(OracleFailure {
                                what: format!("paging {line:?} with limit {lim} returned {} but the listing is {}", pages, show_list(&f)),
                                key: (via_manifest && (exceeded || all.len() as i32 > lim)).then(|| "manifest_list_ignores_paging".to_string()),
                                line: ln,
                            });
                        }
                        if missing_token {
                            res.failures.push(OracleFailure {
                                what: format!("{line:?}: a page was cut at the limit but the response carries no page_token although more entries follow (listing {})", show_list(&f)),
                                key: Some("list_no_next_page_token".into()),
                                line: ln,
                            });
                        }
                    }
                    match err {
                        Some(e) => e,
                        None => pages,
                    }
                }
                _ => "bad-op".into(),
            };
            // ---- the map spec, side by side (manifest-backed modes; directory-only mode: flat table set) ----
            let d = if mutating {
                mutations += 1;
                Some(c.dump(vec![], 0).await)
            } else {
                None
            };
            if !unspecified && op != "page" {
                let before = spec.clone();
                let (want, want_dump): (Option<String>, Option<String>) = if mode == 'D' {
                    spec_dir_mode(&mut spec, op, &id)
                } else {
                    if op == "reg" && loc_ok(toks[2]) && !tmp.path().join(toks[2]).exists() {
                        unspecified = true; // registering a location that does not exist
                    }
                    if mode == 'B' && op == "dereg" && id.len() == 1 && spec.m.get(&id) == Some(&true) {
                        unspecified = true; // dual mode keeps finding the directory of a deregistered root table (by design)
                    }
                    match op {
                        "lns" | "lt" => {
                            let mut v = spec.children(&id, op == "lt");
                            v.sort();
                            (paginate(v, parse_tok(toks[2]), parse_lim(toks[3])).map(|v| format!("{} tok=-", show_list(&v))), None)
                        }
                        _ => {
                            let w = spec.call(op, &id, op != "reg" || loc_ok(toks[2]));
                            (Some(w), mutating.then(|| spec.dump(&[])))
                        }
                    }
                };
                if !unspecified {
                    let got_sorted = sort_listing(&out);
                    // dual mode: table_exists falls through to the directory check, whose error for an id that is
                    // not single-level reads "multi-level ids need manifest mode" — still an Err, i.e. "does not exist"
                    let dual_fallback = mode == 'B' && op == "et" && id.len() != 1 && out == "unsupported";
                    let class_ok = want.as_ref().is_none_or(|w| {
                        *w == out || *w == got_sorted || (dual_fallback && (w == "false" || w == "invalid"))
                    });
                    let dump_ok = match (&want_dump, &d) {
                        (Some(w), Some(g)) => w == g,
                        _ => true,
                    };
                    if !class_ok || !dump_ok {
                        let key = divergence_key(mode, &toks, &id, &history, &before);
                        res.failures.push(OracleFailure {
                            what: format!(
                                "mode {mode} {line:?}: map spec answers {:?} state {:?}; catalog answered {:?} state {:?}",
                                want.unwrap_or_default(),
                                want_dump.unwrap_or_default(),
                                out,
                                d.clone().unwrap_or_default()
                            ),
                            key: key.clone(),
                            line: ln,
                        });
                        res.tags.push(format!("diverge:{}", key.unwrap_or("UNCLASSIFIED".into())));
                        // follow the implementation from here on is impossible for a map: stop comparing this case
                        unspecified = true;
                    }
                }
            }
            res.tags.push(format!("res:{}", out.split([' ', ':', '[']).next().unwrap_or("")));
            res.outputs.push(match d {
                Some(d) => format!("{out} | {d}"),
                None => out,
            });
        }
        res.nontrivial = mutations >= 2;
        res
    }
}

/// `[b,a] tok=-` -> `[a,b] tok=-` (the manifest-backed listings promise no order)
fn sort_listing(out: &str) -> String {
    if let Some(rest) = out.strip_prefix('[') {
        if let Some((inner, tail)) = rest.split_once(']') {
            let mut v: Vec<&str> = if inner.is_empty() { vec![] } else { inner.split(',').collect() };
            v.sort_by_key(|n| dec_name(n));
            return format!("[{}]{}", v.join(","), tail);
        }
    }
    out.to_string()
}

/// the documented pagination: sorted, strictly after the token, at most `limit` (a negative limit is not specified)
fn paginate(v: Vec<String>, tok: Option<String>, lim: Option<i32>) -> Option<Vec<String>> {
    if lim.is_some_and(|l| l < 0) {
        return None;
    }
    let it = v.into_iter().filter(|n| tok.as_ref().is_none_or(|t| n > t));
    Some(it.take(lim.map(|l| l as usize).unwrap_or(usize::MAX)).collect())
}

/// directory-only mode: a flat set of root tables; namespaces other than the root are unsupported;
/// create_empty_table is an upsert and drop_table is idempotent (neither checks existence).
fn spec_dir_mode(spec: &mut Spec, op: &str, id: &[String]) -> (Option<String>, Option<String>) {
    let single = id.len() == 1;
    let here = spec.m.contains_key(id);
    let w: String = match op {
        "cns" | "dns" if id.is_empty() => "root".into(),
        "cns" | "dns" | "reg" | "dereg" => "unsupported".into(),
        "ens" => (if id.is_empty() { "true" } else { "unsupported" }).into(),
        "desns" => (if id.is_empty() { "ok" } else { "unsupported" }).into(),
        "lns" | "lt" if !id.is_empty() => "unsupported".into(),
        "lns" => "[] tok=-".into(),
        "lt" => return (None, None), // compared through the dump and `page`
        _ if !single => return (None, None),
        "ct" => {
            spec.m.insert(id.to_vec(), true);
            "ok".into()
        }
        "dt" => {
            spec.m.remove(id);
            return (None, Some(spec.dump(&[])));
        }
        "et" => Spec::found(here, true),
        "dest" => Spec::found(here, false),
        _ => return (None, None),
    };
    let mutating = matches!(op, "cns" | "dns" | "ct" | "reg" | "dereg" | "dt");
    (Some(w), mutating.then(|| spec.dump(&[])))
}

impl Prop for C36 {
    fn id(&self) -> &'static str {
        "C36"
    }
    fn budget(&self, tier: Tier) -> usize {
        match tier {
            Tier::Quick => 450,
            Tier::Thorough => 5000,
            Tier::Search => 1500,
        }
    }
    fn gen_case(&mut self, rng: &mut Rng, _tier: Tier, idx: usize) -> Vec<String> {
        let mode = ['M', 'B', 'D', 'M', 'B'][idx % 5];
        let opt = if rng.chance(1, 8) { "o1" } else { "o0" };
        let mut lines = vec![format!("mode {mode} {opt}")];
        // a case draws from a sub-alphabet: mostly clean names, sometimes the awkward ones
        let clean_only = rng.chance(2, 5);
        let names: Vec<&str> = if clean_only {
            vec!["a", "b", "ab"]
        } else {
            let mut v = vec!["a", "b"];
            for n in &ALPHABET[2..] {
                if rng.chance(1, 2) {
                    v.push(*n);
                }
            }
            v
        };
        let malformed = rng.chance(1, 8);
        let mut known: Vec<Vec<String>> = vec![]; // ids mentioned so far (to make later ops hit existing entries)
        let n_ops = rng.range(4, 12) as usize;
        let mut next_ext = 0usize;
        for _ in 0..n_ops {
            let mut id: Vec<String> = if !known.is_empty() && rng.chance(3, 5) {
                let k = rng.pick(&known).clone();
                match rng.below(4) {
                    0 if !k.is_empty() => k[..k.len() - 1].to_vec(),
                    1 if k.len() < 3 => {
                        let mut k = k;
                        k.push(rng.pick(&names).to_string());
                        k
                    }
                    _ => k,
                }
            } else {
                let depth = if mode == 'D' { 1 } else { [1, 1, 2, 2, 3][rng.usize(5)] };
                (0..depth).map(|_| rng.pick(&names).to_string()).collect()
            };
            if rng.chance(1, 25) {
                id.clear();
            }
            // at most one component with a quote: with an even number of quotes the interpolated SQL text is silently
            // cut after its first literal (recorded under quote_in_name_sql_error; the model only has "quote = error")
            let mut seen_quote = false;
            for n in id.iter_mut() {
                if n.contains('\'') {
                    if seen_quote {
                        *n = "a".to_string();
                    }
                    seen_quote = true;
                }
            }
            let ids = enc_id(&id);
            let lim = |rng: &mut Rng| match rng.below(5) {
                0 => "-".to_string(),
                1 if malformed => "-1".to_string(),
                1 => "0".to_string(),
                _ => rng.range(1, 3).to_string(),
            };
            let tok = |rng: &mut Rng| if rng.chance(1, 2) { "-".to_string() } else { enc_name(rng.pick::<&str>(&names)) };
            let parent = enc_id(&id[..id.len().saturating_sub(1)]);
            let line = match rng.below(if mode == 'D' { 14 } else { 20 }) {
                0..=2 => format!("ct {ids}"),
                3 => format!("dt {ids}"),
                4 => format!("et {ids}"),
                5 => format!("dest {ids}"),
                6 => format!("lt {parent} {} {}", tok(rng), lim(rng)),
                7 => format!("page t {parent} {}", rng.range(1, 3)),
                8 => format!("ens {ids}"),
                9 => format!("lns {parent} {} {}", tok(rng), lim(rng)),
                10..=12 if mode != 'D' => format!("cns {ids}"),
                10 => format!("cns {ids}"),
                11 => format!("dns {ids}"),
                12 => format!("desns {ids}"),
                13 => format!("dns {ids}"),
                14 => format!("desns {ids}"),
                15 => format!("page ns {parent} {}", rng.range(1, 3)),
                16 => format!("dereg {ids}"),
                17 | 18 => {
                    let loc = if malformed && rng.chance(1, 2) {
                        EXT_LOCS[3 + rng.usize(3)]
                    } else {
                        next_ext += 1;
                        EXT_LOCS[(next_ext - 1) % 3]
                    };
                    format!("reg {ids} {loc}")
                }
                _ => format!("cns {parent}"),
            };
            known.push(id);
            lines.push(line);
        }
        if malformed {
            lines.insert(1 + rng.usize(lines.len()), "frobnicate -".to_string());
        }
        lines
    }
    fn exec_case(&mut self, lines: &[String]) -> CaseResult {
        self.rt.block_on(self.run(lines))
    }
    fn rule(&self) -> String {
        "seeded op sequences (4-12 ops) over the name alphabet {a,b,ab,a$b,x'y,.lance,é,empty}, ids of depth 1-3 biased towards ids mentioned earlier, in manifest / dual / directory mode (2:2:1), random page sizes and start-after tokens, 1 in 8 cases with malformed lines / locations / negative limits; a case is non-trivial when it attempts at least two mutations".into()
    }
}

fn main() {
    let rt = tokio::runtime::Builder::new_current_thread().enable_all().build().unwrap();
    run_main(C36 { rt })
}
