//! C26: every compression codec is lossless and its chunking respects the mini-block limits.
//! Interpreter of the C26 line protocol against the real lance-encoding compressors / decompressors,
//! a generator of cases, and the property oracle (chunk-wise decompress(compress(x)) == x, chunk limits).
//!
//! One codec invocation per op line (stateless).  Value lists: comma separated `v`, `v*n` (n copies),
//! `v+n` (v, v+1, …, v+n-1); `-` is the empty list.

use std::collections::HashMap;

use hcommon::*;
use lance_core::datatypes::Field;
use lance_encoding::buffer::LanceBuffer;
use lance_encoding::compression::{
    CompressionStrategy, DecompressionStrategy, DefaultCompressionStrategy, DefaultDecompressionStrategy,
    MiniBlockDecompressor,
};
use lance_encoding::compression::{BlockCompressor, BlockDecompressor};
use lance_encoding::data::{BlockInfo, DataBlock, FixedWidthDataBlock, StructDataBlock, VariableWidthBlock};
use lance_encoding::encodings::logical::primitive::dict::dictionary_encode;
use lance_encoding::encodings::physical::binary::{BinaryBlockDecompressor, BinaryMiniBlockEncoder, VariableEncoder};
use lance_encoding::encodings::physical::bitpacking::{InlineBitpacking, OutOfLineBitpacking};
use lance_encoding::encodings::physical::block::CompressionConfig;
use lance_encoding::encodings::physical::constant::ConstantDecompressor;
use lance_encoding::encodings::physical::fsst::FsstMiniBlockEncoder;
use lance_encoding::encodings::physical::general::GeneralMiniBlockCompressor;
use lance_encoding::encodings::physical::packed::PackedStructFixedWidthMiniBlockEncoder;
use lance_encoding::encodings::logical::primitive::miniblock::{
    MiniBlockCompressed, MiniBlockCompressor, MAX_MINIBLOCK_BYTES, MAX_MINIBLOCK_VALUES,
};
use lance_encoding::encodings::physical::byte_stream_split::ByteStreamSplitEncoder;
use lance_encoding::encodings::physical::rle::{RleMiniBlockDecompressor, RleMiniBlockEncoder};
use lance_encoding::encodings::physical::value::ValueEncoder;
use lance_encoding::format::pb21::CompressiveEncoding;
use lance_encoding::statistics::ComputeStat;
use lance_encoding::utils::bytepack::{BytepackedIntegerEncoder, ByteUnpacker};

// ---------- parsing / printing ----------

fn parse_vals(s: &str) -> Option<Vec<u64>> {
    if s == "-" {
        return Some(vec![]);
    }
    let mut out = vec![];
    for item in s.split(',') {
        if let Some((v, n)) = item.split_once('*') {
            let v: u64 = v.parse().ok()?;
            let n: usize = n.parse().ok()?;
            out.extend(std::iter::repeat(v).take(n));
        } else if let Some((v, n)) = item.split_once('+') {
            let v: u64 = v.parse().ok()?;
            let n: u64 = n.parse().ok()?;
            for k in 0..n {
                out.push(v.checked_add(k)?);
            }
        } else {
            out.push(item.parse().ok()?);
        }
    }
    Some(out)
}

fn fits(v: u64, ts: usize) -> bool {
    ts >= 8 || v < (1u64 << (8 * ts))
}

fn words_to_bytes(vs: &[u64], ts: usize) -> Vec<u8> {
    let mut out = Vec::with_capacity(vs.len() * ts);
    for v in vs {
        out.extend_from_slice(&v.to_le_bytes()[..ts]);
    }
    out
}

fn fnv(bs: &[u8]) -> u64 {
    let mut h: u64 = 0xcbf29ce484222325;
    for b in bs {
        h = (h ^ (*b as u64)).wrapping_mul(0x100000001b3);
    }
    h
}

fn show_buf(bs: &[u8]) -> String {
    if bs.len() <= 40 {
        let mut s = String::from("x");
        for b in bs {
            s.push_str(&format!("{:02x}", b));
        }
        s
    } else {
        format!("#{}:{}", bs.len(), fnv(bs))
    }
}

fn show_mini(c: &MiniBlockCompressed) -> String {
    let chunks = if c.chunks.is_empty() {
        "-".to_string()
    } else {
        c.chunks
            .iter()
            .map(|ch| {
                format!(
                    "{}^{}",
                    ch.buffer_sizes.iter().map(|s| s.to_string()).collect::<Vec<_>>().join("/"),
                    ch.log_num_values
                )
            })
            .collect::<Vec<_>>()
            .join(";")
    };
    let bufs = if c.data.is_empty() {
        "-".to_string()
    } else {
        c.data.iter().map(|b| show_buf(b)).collect::<Vec<_>>().join("|")
    };
    format!("chunks={chunks} bufs={bufs}")
}

fn fixed_block(bytes: Vec<u8>, bits: u64, n: u64, stats: bool) -> DataBlock {
    let mut b = DataBlock::FixedWidth(FixedWidthDataBlock {
        data: LanceBuffer::from(bytes),
        bits_per_value: bits,
        num_values: n,
        block_info: BlockInfo::new(),
    });
    if stats {
        b.compute_stat();
    }
    b
}

/// flatten a decoded block to the bytes that must equal the input's bytes
fn block_bytes(b: &DataBlock) -> Result<Vec<u8>, String> {
    match b {
        DataBlock::FixedWidth(f) => Ok(f.data.to_vec()),
        other => Err(format!("unexpected decoded block type {}", other.name())),
    }
}

/// known finding: InlineBitpacking emits (1 + 1024) * 8 = 8200 bytes for a chunk of 64-bit words of bit width 64
const KEY_IBP_U64: &str = "inline_bitpack_u64_full_width_chunk_bytes";

fn no_chunk(_: usize) -> bool {
    false
}


// ---------- variable-width values ----------

/// items `len:seed` or `len:seed*n`; byte j of a value is (seed + 7 j) mod 256
fn parse_items(s: &str) -> Option<Vec<Vec<u8>>> {
    if s == "-" {
        return Some(vec![]);
    }
    let mut out = vec![];
    for item in s.split(',') {
        let (body, n) = match item.split_once('*') {
            Some((b, n)) => (b, n.parse::<usize>().ok()?),
            None => (item, 1),
        };
        let (len, seed) = body.split_once(':')?;
        let len: usize = len.parse().ok()?;
        let seed: usize = seed.parse().ok()?;
        if len > 100_000 || n > 100_000 {
            return None;
        }
        let v: Vec<u8> = (0..len).map(|j| ((seed + 7 * j) % 256) as u8).collect();
        for _ in 0..n {
            out.push(v.clone());
        }
    }
    Some(out)
}

fn var_block(vals: &[Vec<u8>], bw: usize, stats: bool) -> DataBlock {
    let mut data = vec![];
    let mut offs: Vec<u64> = vec![0];
    for v in vals {
        data.extend_from_slice(v);
        offs.push(data.len() as u64);
    }
    let mut b = DataBlock::VariableWidth(VariableWidthBlock {
        data: LanceBuffer::from(data),
        offsets: LanceBuffer::from(words_to_bytes(&offs, bw)),
        bits_per_offset: (bw * 8) as u8,
        num_values: vals.len() as u64,
        block_info: BlockInfo::new(),
    });
    if stats {
        b.compute_stat();
    }
    b
}

/// canonical bytes of a list of values: 4-byte length then the bytes
fn canon_vals(vals: &[Vec<u8>]) -> Vec<u8> {
    let mut out = vec![];
    for v in vals {
        out.extend_from_slice(&(v.len() as u32).to_le_bytes());
        out.extend_from_slice(v);
    }
    out
}

fn read_words(b: &[u8], ts: usize) -> Vec<u64> {
    b.chunks(ts)
        .map(|c| {
            let mut w = [0u8; 8];
            w[..c.len()].copy_from_slice(c);
            u64::from_le_bytes(w)
        })
        .collect()
}

fn var_values(v: &VariableWidthBlock) -> Result<Vec<Vec<u8>>, String> {
    let bw = (v.bits_per_offset / 8) as usize;
    let offs = read_words(&v.offsets, bw);
    if offs.len() as u64 != v.num_values + 1 {
        return Err(format!("{} offsets for {} values", offs.len(), v.num_values));
    }
    let mut out = vec![];
    for w in offs.windows(2) {
        let (a, b) = (w[0] as usize, w[1] as usize);
        if a > b || b > v.data.len() {
            return Err(format!("offsets {a}..{b} outside data of {} bytes", v.data.len()));
        }
        out.push(v.data[a..b].to_vec());
    }
    Ok(out)
}

fn var_block_bytes(b: &DataBlock) -> Result<Vec<u8>, String> {
    match b {
        DataBlock::VariableWidth(v) => Ok(canon_vals(&var_values(v)?)),
        other => Err(format!("unexpected decoded block type {}", other.name())),
    }
}

/// packed struct chunk -> row-major bytes again
fn struct_block_bytes(b: &DataBlock) -> Result<Vec<u8>, String> {
    match b {
        DataBlock::Struct(s) => {
            let mut kids = vec![];
            for c in &s.children {
                match c {
                    DataBlock::FixedWidth(f) => kids.push(((f.bits_per_value / 8) as usize, f.data.to_vec(), f.num_values)),
                    other => return Err(format!("unexpected child block type {}", other.name())),
                }
            }
            let n = kids.first().map(|k| k.2).unwrap_or(0) as usize;
            let mut out = vec![];
            for i in 0..n {
                for (w, d, _) in &kids {
                    if (i + 1) * w > d.len() {
                        return Err("child buffer too short".into());
                    }
                    out.extend_from_slice(&d[i * w..(i + 1) * w]);
                }
            }
            Ok(out)
        }
        other => Err(format!("unexpected decoded block type {}", other.name())),
    }
}

fn child_bytes(seed: usize, j: usize, w: usize, nv: usize) -> Vec<u8> {
    (0..w * nv).map(|k| ((seed + 17 * j + 3 * k + k / 7) % 256) as u8).collect()
}

struct Ctx<'a> {
    res: &'a mut CaseResult,
    line: usize,
}

impl Ctx<'_> {
    fn fail(&mut self, key: &str, what: String) {
        self.res.failures.push(OracleFailure { what, key: Some(key.to_string()), line: self.line });
    }
    fn tag(&mut self, t: &str) {
        self.res.tags.push(t.to_string());
    }
}

/// The property oracle for a mini-block codec: decode chunk by chunk the way the structural decoder does
/// (slices of every global buffer by `buffer_sizes`, value count from `MiniBlockChunk::num_values`) with the
/// decompressor built by `DefaultDecompressionStrategy` from the encoding description, and compare with the input.
/// Also checks the chunk limits.  Returns the decoded bytes.
fn check_miniblock(
    ctx: &mut Ctx,
    codec: &str,
    compressed: &MiniBlockCompressed,
    encoding: &CompressiveEncoding,
    to_bytes: &dyn Fn(&DataBlock) -> Result<Vec<u8>, String>,
    expected: &[u8],
    total: u64,
    // chunk index -> the chunk is a 1024-value chunk of 64-bit words that needs all 64 bits (known finding)
    full_width_u64_chunk: &dyn Fn(usize) -> bool,
) {
    let strat = DefaultDecompressionStrategy::default();
    let dec: Box<dyn MiniBlockDecompressor> = match strat.create_miniblock_decompressor(encoding, &strat) {
        Ok(d) => d,
        Err(e) => {
            ctx.fail(&format!("decompressor:{codec}"), format!("no decompressor for encoding: {e}"));
            return;
        }
    };
    if compressed.num_values != total {
        ctx.fail(&format!("num_values:{codec}"), format!("num_values {} != {}", compressed.num_values, total));
    }
    let mut offs = vec![0usize; compressed.data.len()];
    let mut prev = 0u64;
    let mut out: Vec<u8> = vec![];
    let nchunks = compressed.chunks.len();
    for (ci, ch) in compressed.chunks.iter().enumerate() {
        if prev > total {
            ctx.fail(&format!("chunk_counts:{codec}"), format!("chunk {ci}: values before it {prev} > total {total}"));
            return;
        }
        let n = ch.num_values(prev, total);
        let is_last = ci + 1 == nchunks;
        // --- chunk limits ---
        let bytes: u64 = ch.buffer_sizes.iter().map(|s| *s as u64).sum();
        if bytes > MAX_MINIBLOCK_BYTES {
            let key = if codec.contains("inline_bitpack") && full_width_u64_chunk(ci) {
                KEY_IBP_U64.to_string()
            } else {
                format!("chunk_bytes:{codec}")
            };
            ctx.fail(
                &key,
                format!("chunk {ci} has {bytes} bytes > MAX_MINIBLOCK_BYTES {MAX_MINIBLOCK_BYTES}"),
            );
        }
        if n > MAX_MINIBLOCK_VALUES {
            ctx.fail(&format!("chunk_values:{codec}"), format!("chunk {ci} has {n} values > {MAX_MINIBLOCK_VALUES}"));
        }
        if n == 0 {
            ctx.fail(&format!("chunk_values:{codec}"), format!("chunk {ci} has 0 values"));
        }
        if !is_last && (ch.log_num_values == 0 || ch.log_num_values > 12) {
            ctx.fail(
                &format!("chunk_log:{codec}"),
                format!("non-last chunk {ci} has log_num_values {}", ch.log_num_values),
            );
        }
        if ch.buffer_sizes.len() != compressed.data.len() {
            ctx.fail(
                &format!("chunk_buffers:{codec}"),
                format!("chunk {ci} has {} sizes for {} buffers", ch.buffer_sizes.len(), compressed.data.len()),
            );
            return;
        }
        // --- slices ---
        let mut bufs = vec![];
        for (bi, s) in ch.buffer_sizes.iter().enumerate() {
            let s = *s as usize;
            if offs[bi] + s > compressed.data[bi].len() {
                ctx.fail(
                    &format!("chunk_sizes:{codec}"),
                    format!("chunk {ci} buffer {bi}: {}+{} beyond buffer of {} bytes", offs[bi], s, compressed.data[bi].len()),
                );
                return;
            }
            bufs.push(LanceBuffer::from(compressed.data[bi][offs[bi]..offs[bi] + s].to_vec()));
            offs[bi] += s;
        }
        let r = std::panic::catch_unwind(std::panic::AssertUnwindSafe(|| dec.decompress(bufs, n)));
        match r {
            Ok(Ok(b)) => match to_bytes(&b) {
                Ok(bs) => {
                    if b.num_values() != n {
                        ctx.fail(&format!("roundtrip:{codec}"), format!("chunk {ci} decoded {} values, expected {n}", b.num_values()));
                    }
                    out.extend_from_slice(&bs)
                }
                Err(e) => {
                    ctx.fail(&format!("roundtrip:{codec}"), e);
                    return;
                }
            },
            Ok(Err(e)) => {
                ctx.fail(&format!("roundtrip:{codec}"), format!("chunk {ci} ({n} values): decompress error {e}"));
                return;
            }
            Err(_) => {
                ctx.fail(&format!("roundtrip:{codec}"), format!("chunk {ci} ({n} values): decompress panicked"));
                return;
            }
        }
        prev += n;
    }
    if prev != total {
        ctx.fail(&format!("chunk_counts:{codec}"), format!("chunks cover {prev} of {total} values"));
    }
    for (bi, b) in compressed.data.iter().enumerate() {
        if offs[bi] != b.len() {
            ctx.fail(&format!("chunk_sizes:{codec}"), format!("buffer {bi}: chunks cover {} of {} bytes", offs[bi], b.len()));
        }
    }
    if out != expected {
        let pos = out.iter().zip(expected.iter()).position(|(a, b)| a != b).unwrap_or(out.len().min(expected.len()));
        ctx.fail(
            &format!("roundtrip:{codec}"),
            format!("decoded {} bytes vs input {} bytes, first difference at byte {pos}", out.len(), expected.len()),
        );
    }
}

fn field_with_meta(name: &str, dt: arrow_schema::DataType, meta: &[(&str, &str)]) -> Field {
    let md: HashMap<String, String> = meta.iter().map(|(k, v)| (k.to_string(), v.to_string())).collect();
    let af = arrow_schema::Field::new(name, dt, true).with_metadata(md);
    Field::try_from(&af).unwrap()
}

fn int_type(ts: usize) -> arrow_schema::DataType {
    match ts {
        1 => arrow_schema::DataType::UInt8,
        2 => arrow_schema::DataType::UInt16,
        4 => arrow_schema::DataType::UInt32,
        _ => arrow_schema::DataType::UInt64,
    }
}

// ---------- the interpreter ----------

struct C26;

fn exec_line(ctx: &mut Ctx, line: &str) -> String {
    let toks: Vec<&str> = line.split(' ').filter(|t| !t.is_empty()).collect();
    let bad = "bad-op".to_string();
    match toks.as_slice() {
        ["rle", ts, vs] => {
            let (Some(ts), Some(vs)) = (ts.parse::<usize>().ok(), parse_vals(vs)) else { return bad };
            if ![1, 2, 4, 8].contains(&ts) || !vs.iter().all(|v| fits(*v, ts)) {
                return bad;
            }
            ctx.tag(&format!("rle{}", ts * 8));
            let bytes = words_to_bytes(&vs, ts);
            let block = fixed_block(bytes.clone(), (ts * 8) as u64, vs.len() as u64, false);
            match RleMiniBlockEncoder::new().compress(block) {
                Ok((c, enc)) => {
                    if c.chunks.len() > 1 {
                        ctx.tag("rle:multi_chunk");
                    }
                    check_miniblock(ctx, "rle", &c, &enc, &block_bytes, &bytes, vs.len() as u64, &no_chunk);
                    show_mini(&c)
                }
                Err(_) => "err".into(),
            }
        }
        ["rled", ts, n, vb, lb] => {
            let (Some(ts), Some(n), Some(vb), Some(lb)) =
                (ts.parse::<usize>().ok(), n.parse::<u64>().ok(), parse_vals(vb), parse_vals(lb))
            else {
                return bad;
            };
            if ![1, 2, 4, 8].contains(&ts) || !vb.iter().chain(lb.iter()).all(|b| *b < 256) {
                return bad;
            }
            ctx.tag("rled");
            let vb: Vec<u8> = vb.iter().map(|b| *b as u8).collect();
            let lb: Vec<u8> = lb.iter().map(|b| *b as u8).collect();
            let d = RleMiniBlockDecompressor::new((ts * 8) as u64);
            let r = std::panic::catch_unwind(std::panic::AssertUnwindSafe(|| {
                d.decompress(vec![LanceBuffer::from(vb), LanceBuffer::from(lb)], n)
            }));
            match r {
                Ok(Ok(b)) => {
                    let bs = block_bytes(&b).unwrap();
                    let words: Vec<u64> = bs
                        .chunks(ts)
                        .map(|c| {
                            let mut w = [0u8; 8];
                            w[..ts].copy_from_slice(c);
                            u64::from_le_bytes(w)
                        })
                        .collect();
                    if words.len() as u64 != n {
                        ctx.fail("rle_decode_count", format!("decoded {} values, asked {n}", words.len()));
                    }
                    format!("ok {}", show_nat_list(words))
                }
                Ok(Err(_)) => {
                    ctx.tag("rled:err");
                    "err".into()
                }
                Err(_) => {
                    ctx.tag("rled:panic");
                    "panic".into()
                }
            }
        }
        ["bss", w, vs] => {
            let (Some(w), Some(vs)) = (w.parse::<usize>().ok(), parse_vals(vs)) else { return bad };
            if ![4, 8].contains(&w) || !vs.iter().all(|v| fits(*v, w)) {
                return bad;
            }
            ctx.tag(&format!("bss{}", w * 8));
            let bytes = words_to_bytes(&vs, w);
            let block = fixed_block(bytes.clone(), (w * 8) as u64, vs.len() as u64, false);
            match ByteStreamSplitEncoder::new(w * 8).compress(block) {
                Ok((c, enc)) => {
                    if c.chunks.len() > 1 {
                        ctx.tag("bss:multi_chunk");
                    }
                    check_miniblock(ctx, "bss", &c, &enc, &block_bytes, &bytes, vs.len() as u64, &no_chunk);
                    show_mini(&c)
                }
                Err(_) => "err".into(),
            }
        }
        ["bp", mx, vs] => {
            let (Some(mx), Some(vs)) = (mx.parse::<u64>().ok(), parse_vals(vs)) else { return bad };
            ctx.tag("bytepack");
            let mut e = BytepackedIntegerEncoder::with_capacity(vs.len(), mx);
            for v in &vs {
                unsafe { e.append(*v) };
            }
            let w = match &e {
                BytepackedIntegerEncoder::Zero => 0,
                BytepackedIntegerEncoder::U8(_) => 1,
                BytepackedIntegerEncoder::U16(_) => 2,
                BytepackedIntegerEncoder::U32(_) => 4,
                BytepackedIntegerEncoder::U64(_) => 8,
            };
            let data = e.into_data();
            // oracle: values within the declared maximum come back
            if vs.iter().all(|v| *v <= mx) {
                if w == 0 {
                    if !data.is_empty() {
                        ctx.fail("roundtrip:bytepack", "Zero variant produced bytes".into());
                    }
                } else {
                    let back: Vec<u64> = ByteUnpacker::new(data.clone(), w).collect();
                    if back != vs {
                        ctx.fail("roundtrip:bytepack", format!("unpacked {} values differ from the {} packed", back.len(), vs.len()));
                    }
                }
            } else {
                ctx.tag("bytepack:truncating");
            }
            format!("w={w} {}", show_buf(&data))
        }
        ["bpu", size, bs] => {
            let (Some(size), Some(bs)) = (size.parse::<usize>().ok(), parse_vals(bs)) else { return bad };
            if ![1, 2, 4, 8].contains(&size) || !bs.iter().all(|b| *b < 256) {
                return bad;
            }
            ctx.tag("byteunpack");
            let data: Vec<u8> = bs.iter().map(|b| *b as u8).collect();
            let r = std::panic::catch_unwind(std::panic::AssertUnwindSafe(|| {
                ByteUnpacker::new(data, size).collect::<Vec<u64>>()
            }));
            match r {
                Ok(v) => format!("ok {}", show_nat_list(v)),
                Err(_) => "panic".into(),
            }
        }
        ["flat", bpv, nv] => {
            let (Some(bpv), Some(nv)) = (bpv.parse::<usize>().ok(), nv.parse::<usize>().ok()) else { return bad };
            if bpv == 0 || bpv > 4092 {
                return bad;
            }
            ctx.tag("flat");
            let bytes: Vec<u8> = (0..bpv * nv).map(|i| (i * 131 + i / 251) as u8).collect();
            let block = fixed_block(bytes.clone(), (bpv * 8) as u64, nv as u64, false);
            match MiniBlockCompressor::compress(&ValueEncoder::default(), block) {
                Ok((c, enc)) => {
                    if c.chunks.len() > 1 {
                        ctx.tag("flat:multi_chunk");
                    }
                    check_miniblock(ctx, "flat", &c, &enc, &block_bytes, &bytes, nv as u64, &no_chunk);
                    if c.data.len() != 1 || c.data[0].as_ref() != bytes.as_slice() {
                        ctx.fail("roundtrip:flat", "ValueEncoder changed the data buffer".into());
                    }
                    let s = show_mini(&c);
                    s.split(" bufs=").next().unwrap().to_string()
                }
                Err(_) => "err".into(),
            }
        }

        ["bin", bw, items] => {
            let (Some(bw), Some(vals)) = (bw.parse::<usize>().ok(), parse_items(items)) else { return bad };
            if ![4, 8].contains(&bw) {
                return bad;
            }
            ctx.tag(&format!("bin{}", bw * 8));
            let block = var_block(&vals, bw, false);
            let expected = canon_vals(&vals);
            let r = std::panic::catch_unwind(std::panic::AssertUnwindSafe(|| BinaryMiniBlockEncoder::default().compress(block)));
            match r {
                Ok(Ok((c, enc))) => {
                    if c.chunks.len() > 1 {
                        ctx.tag("bin:multi_chunk");
                    }
                    if !vals.is_empty() {
                        check_miniblock(ctx, "binary", &c, &enc, &var_block_bytes, &expected, vals.len() as u64, &no_chunk);
                    }
                    show_mini(&c)
                }
                Ok(Err(_)) => "err".into(),
                Err(_) => {
                    ctx.fail("panic:binary", "BinaryMiniBlockEncoder::compress panicked".into());
                    "panic".into()
                }
            }
        }
        ["var", bw, items] => {
            let (Some(bw), Some(vals)) = (bw.parse::<usize>().ok(), parse_items(items)) else { return bad };
            if ![4, 8].contains(&bw) {
                return bad;
            }
            ctx.tag(&format!("var{}", bw * 8));
            let block = var_block(&vals, bw, false);
            match BlockCompressor::compress(&VariableEncoder::default(), block) {
                Ok(buf) => {
                    let bytes = buf.to_vec();
                    let r = std::panic::catch_unwind(std::panic::AssertUnwindSafe(|| {
                        BinaryBlockDecompressor::default().decompress(LanceBuffer::from(bytes.clone()), vals.len() as u64)
                    }));
                    match r {
                        Ok(Ok(b)) => match var_block_bytes(&b) {
                            Ok(bs) if bs == canon_vals(&vals) => {}
                            Ok(_) => ctx.fail("roundtrip:variable_block", "decoded values differ".into()),
                            Err(e) => ctx.fail("roundtrip:variable_block", e),
                        },
                        Ok(Err(e)) => ctx.fail("roundtrip:variable_block", format!("decompress error {e}")),
                        Err(_) => ctx.fail("roundtrip:variable_block", "decompress panicked".into()),
                    }
                    show_buf(&bytes)
                }
                Err(_) => "err".into(),
            }
        }
        ["pk", widths, nv, seed] => {
            let (Some(nv), Some(seed)) = (nv.parse::<usize>().ok(), seed.parse::<usize>().ok()) else { return bad };
            let Some(ws) = widths.split('/').map(|w| w.parse::<usize>().ok()).collect::<Option<Vec<usize>>>() else { return bad };
            if ws.is_empty() || ws.iter().any(|w| *w == 0 || *w > 64) || ws.iter().sum::<usize>() > 4092 || nv > 20000 {
                return bad;
            }
            ctx.tag("packed");
            let kids: Vec<Vec<u8>> = ws.iter().enumerate().map(|(j, w)| child_bytes(seed, j, *w, nv)).collect();
            let mut expected = vec![];
            for i in 0..nv {
                for (j, w) in ws.iter().enumerate() {
                    expected.extend_from_slice(&kids[j][i * w..(i + 1) * w]);
                }
            }
            let children: Vec<DataBlock> =
                ws.iter().zip(kids.iter()).map(|(w, k)| fixed_block(k.clone(), (*w * 8) as u64, nv as u64, true)).collect();
            let mut block = DataBlock::Struct(StructDataBlock { children, block_info: BlockInfo::new(), validity: None });
            block.compute_stat();
            let r = std::panic::catch_unwind(std::panic::AssertUnwindSafe(|| {
                PackedStructFixedWidthMiniBlockEncoder::default().compress(block)
            }));
            match r {
                Ok(Ok((c, enc))) => {
                    if c.chunks.len() > 1 {
                        ctx.tag("packed:multi_chunk");
                    }
                    check_miniblock(ctx, "packed", &c, &enc, &struct_block_bytes, &expected, nv as u64, &no_chunk);
                    if c.data.len() != 1 || c.data[0].as_ref() != expected.as_slice() {
                        ctx.fail("roundtrip:packed", "packed rows are not the row-major zip of the children".into());
                    }
                    show_mini(&c)
                }
                Ok(Err(_)) => "err".into(),
                Err(_) => "panic".into(),
            }
        }
        ["dict", items] => {
            let Some(vals) = parse_items(items) else { return bad };
            if vals.is_empty() {
                return bad;
            }
            ctx.tag("dict");
            let block = var_block(&vals, 4, true);
            let r = std::panic::catch_unwind(std::panic::AssertUnwindSafe(|| dictionary_encode(block)));
            match r {
                Ok((indices, dictionary)) => {
                    let idx: Vec<u64> = match &indices {
                        DataBlock::FixedWidth(f) if f.bits_per_value == 32 => read_words(&f.data, 4),
                        _ => {
                            ctx.fail("roundtrip:dict", "indices are not a 32-bit fixed width block".into());
                            return "err".into();
                        }
                    };
                    let dvals = match &dictionary {
                        DataBlock::VariableWidth(v) => match var_values(v) {
                            Ok(d) => d,
                            Err(e) => {
                                ctx.fail("roundtrip:dict", e);
                                return "err".into();
                            }
                        },
                        _ => {
                            ctx.fail("roundtrip:dict", "dictionary is not variable width".into());
                            return "err".into();
                        }
                    };
                    // oracle: lookup gives the input; dictionary has no duplicates
                    let back: Option<Vec<Vec<u8>>> = idx.iter().map(|i| dvals.get(*i as usize).cloned()).collect();
                    if back.as_deref() != Some(vals.as_slice()) {
                        ctx.fail("roundtrip:dict", "dictionary[indices] differs from the input".into());
                    }
                    let uniq: std::collections::HashSet<&Vec<u8>> = dvals.iter().collect();
                    if uniq.len() != dvals.len() {
                        ctx.fail("dict_duplicates", "dictionary contains a value twice".into());
                    }
                    format!("idx={} dict={}", show_nat_list(idx), show_buf(&canon_vals(&dvals)))
                }
                Err(_) => "panic".into(),
            }
        }
        ["ibp", ts, vs] => {
            let (Some(ts), Some(vs)) = (ts.parse::<usize>().ok(), parse_vals(vs)) else { return bad };
            if ![1, 2, 4, 8].contains(&ts) || !vs.iter().all(|v| fits(*v, ts)) || vs.is_empty() {
                return bad;
            }
            ctx.tag(&format!("ibp{}", ts * 8));
            let bytes = words_to_bytes(&vs, ts);
            let block = fixed_block(bytes.clone(), (ts * 8) as u64, vs.len() as u64, true);
            match MiniBlockCompressor::compress(&InlineBitpacking::new((ts * 8) as u64), block) {
                Ok((c, enc)) => {
                    if c.chunks.len() > 1 {
                        ctx.tag("ibp:multi_chunk");
                    }
                    let full = |ci: usize| ts == 8 && vs.chunks(1024).nth(ci).map(|c| c.iter().any(|v| v >> 63 == 1)).unwrap_or(false);
                    check_miniblock(ctx, "inline_bitpack", &c, &enc, &block_bytes, &bytes, vs.len() as u64, &full);
                    // header word (bit width) of every chunk
                    let mut off = 0usize;
                    let mut hdr = vec![];
                    for ch in &c.chunks {
                        hdr.push(read_words(&c.data[0][off..off + ts], ts)[0]);
                        off += ch.buffer_sizes[0] as usize;
                    }
                    let s = show_mini(&c);
                    format!("{} hdr={}", s.split(" bufs=").next().unwrap(), show_nat_list(hdr))
                }
                Err(_) => "err".into(),
            }
        }
        ["obp", ts, cw, vs] => {
            let (Some(ts), Some(cw), Some(vs)) = (ts.parse::<usize>().ok(), cw.parse::<u64>().ok(), parse_vals(vs)) else {
                return bad;
            };
            if ![1, 2, 4, 8].contains(&ts) || !vs.iter().all(|v| fits(*v, ts)) || vs.is_empty() || cw == 0 || cw >= (ts * 8) as u64 {
                return bad;
            }
            if !vs.iter().all(|v| *v >> cw == 0) {
                return bad;
            }
            ctx.tag(&format!("obp{}", ts * 8));
            let bytes = words_to_bytes(&vs, ts);
            let block = fixed_block(bytes.clone(), (ts * 8) as u64, vs.len() as u64, false);
            let codec = OutOfLineBitpacking::new(cw, (ts * 8) as u64);
            match BlockCompressor::compress(&codec, block) {
                Ok(buf) => {
                    let out = buf.to_vec();
                    let r = std::panic::catch_unwind(std::panic::AssertUnwindSafe(|| {
                        codec.decompress(LanceBuffer::from(out.clone()), vs.len() as u64)
                    }));
                    match r {
                        Ok(Ok(b)) => match block_bytes(&b) {
                            Ok(bs) if bs == bytes => {}
                            Ok(_) => ctx.fail("roundtrip:ool_bitpack", "decoded words differ".into()),
                            Err(e) => ctx.fail("roundtrip:ool_bitpack", e),
                        },
                        Ok(Err(e)) => ctx.fail("roundtrip:ool_bitpack", format!("decompress error {e}")),
                        Err(_) => ctx.fail("roundtrip:ool_bitpack", "decompress panicked".into()),
                    }
                    let words = out.len() / ts;
                    let wpc = 1024 * cw as usize / (ts * 8);
                    let full = vs.len() / 1024;
                    let tail = vs.len() % 1024;
                    let kind = if tail == 0 {
                        "none"
                    } else if words == full * wpc + tail {
                        ctx.tag("obp:raw_tail");
                        "raw"
                    } else {
                        ctx.tag("obp:packed_tail");
                        "packed"
                    };
                    format!("words={words} tail={kind}")
                }
                Err(_) => "err".into(),
            }
        }
        // oracle-only lines --------------------------------------------------------------------
        ["gen", inner, ts, vs] => {
            let (Some(ts), Some(vs)) = (ts.parse::<usize>().ok(), parse_vals(vs)) else { return bad };
            if ![1, 2, 4, 8].contains(&ts) || !vs.iter().all(|v| fits(*v, ts)) || vs.is_empty() {
                return bad;
            }
            let inner_c: Box<dyn MiniBlockCompressor> = match *inner {
                "rle" => Box::new(RleMiniBlockEncoder::new()),
                "flat" => Box::new(ValueEncoder::default()),
                "bss" if ts == 4 || ts == 8 => Box::new(ByteStreamSplitEncoder::new(ts * 8)),
                _ => return bad,
            };
            let bytes = words_to_bytes(&vs, ts);
            let block = fixed_block(bytes.clone(), (ts * 8) as u64, vs.len() as u64, false);
            match GeneralMiniBlockCompressor::new(inner_c, CompressionConfig::default()).compress(block) {
                Ok((c, enc)) => {
                    let name = encoding_name(&enc);
                    ctx.tag(&format!("gen:{name}"));
                    check_miniblock(ctx, &format!("gen:{name}"), &c, &enc, &block_bytes, &bytes, vs.len() as u64, &no_chunk);
                    "rt".into()
                }
                Err(_) => "err".into(),
            }
        }
        ["fsst", bw, items] => {
            let (Some(bw), Some(vals)) = (bw.parse::<usize>().ok(), parse_items(items)) else { return bad };
            if ![4, 8].contains(&bw) || vals.is_empty() {
                return bad;
            }
            let block = var_block(&vals, bw, false);
            let expected = canon_vals(&vals);
            let r = std::panic::catch_unwind(std::panic::AssertUnwindSafe(|| FsstMiniBlockEncoder::default().compress(block)));
            match r {
                Ok(Ok((c, enc))) => {
                    ctx.tag("fsst");
                    check_miniblock(ctx, "fsst", &c, &enc, &var_block_bytes, &expected, vals.len() as u64, &no_chunk);
                    "rt".into()
                }
                Ok(Err(_)) => "err".into(),
                Err(_) => {
                    ctx.fail("panic:fsst", "FsstMiniBlockEncoder::compress panicked".into());
                    "rt".into()
                }
            }
        }
        ["vstrat", bw, meta, items] => {
            let (Some(bw), Some(vals)) = (bw.parse::<usize>().ok(), parse_items(items)) else { return bad };
            if ![4, 8].contains(&bw) || vals.is_empty() {
                return bad;
            }
            let mut md: Vec<(&str, &str)> = vec![];
            for kv in meta.split(';') {
                match kv {
                    "-" => {}
                    "none" | "lz4" | "zstd" | "fsst" => md.push(("lance-encoding:compression", kv)),
                    _ => return bad,
                }
            }
            let dt = if bw == 4 { arrow_schema::DataType::Binary } else { arrow_schema::DataType::LargeBinary };
            let field = field_with_meta("c", dt, &md);
            let block = var_block(&vals, bw, true);
            let expected = canon_vals(&vals);
            let strat = DefaultCompressionStrategy::new();
            let comp = match strat.create_miniblock_compressor(&field, &block) {
                Ok(c) => c,
                Err(_) => return "err".into(),
            };
            let r = std::panic::catch_unwind(std::panic::AssertUnwindSafe(|| comp.compress(block)));
            match r {
                Ok(Ok((c, enc))) => {
                    let name = encoding_name(&enc);
                    ctx.tag(&format!("vstrat:{name}"));
                    check_miniblock(ctx, &format!("vstrat:{name}"), &c, &enc, &var_block_bytes, &expected, vals.len() as u64, &no_chunk);
                    "rt".into()
                }
                Ok(Err(_)) => "err".into(),
                Err(_) => {
                    ctx.fail("panic:vstrat", "compress panicked".into());
                    "rt".into()
                }
            }
        }
        ["const", n, bs] => {
            let (Some(n), Some(bs)) = (n.parse::<u64>().ok(), parse_vals(bs)) else { return bad };
            if !bs.iter().all(|b| *b < 256) {
                return bad;
            }
            ctx.tag("constant");
            let scalar: Vec<u8> = bs.iter().map(|b| *b as u8).collect();
            let d = ConstantDecompressor::new(if scalar.is_empty() { None } else { Some(LanceBuffer::from(scalar.clone())) });
            match BlockDecompressor::decompress(&d, LanceBuffer::empty(), n) {
                Ok(DataBlock::Constant(c)) => {
                    if c.num_values != n || c.data.as_ref() != scalar.as_slice() {
                        ctx.fail("roundtrip:constant", "constant block differs from the scalar".into());
                    }
                    format!("const {} x{}", show_buf(&c.data), c.num_values)
                }
                Ok(DataBlock::AllNull(a)) => {
                    if !scalar.is_empty() || a.num_values != n {
                        ctx.fail("roundtrip:constant", "all-null block for a scalar".into());
                    }
                    format!("allnull x{}", a.num_values)
                }
                _ => "err".into(),
            }
        }
        // oracle-only: the default strategy picks the codec (RLE / BSS / bit-packing / flat, optional LZ4/ZSTD wrapper)
        ["strat", ts, meta, vs] => {
            let (Some(ts), Some(vs)) = (ts.parse::<usize>().ok(), parse_vals(vs)) else { return bad };
            if ![1, 2, 4, 8].contains(&ts) || !vs.iter().all(|v| fits(*v, ts)) || vs.is_empty() {
                return bad;
            }
            let mut md: Vec<(&str, &str)> = vec![];
            for kv in meta.split(';') {
                match kv {
                    "-" => {}
                    "none" | "lz4" | "zstd" => md.push(("lance-encoding:compression", kv)),
                    "bss_on" => md.push(("lance-encoding:bss", "on")),
                    "bss_off" => md.push(("lance-encoding:bss", "off")),
                    "rle_always" => md.push(("lance-encoding:rle-threshold", "1.1")),
                    "rle_never" => md.push(("lance-encoding:rle-threshold", "0.0")),
                    _ => return bad,
                }
            }
            let field = field_with_meta("c", int_type(ts), &md);
            let bytes = words_to_bytes(&vs, ts);
            let block = fixed_block(bytes.clone(), (ts * 8) as u64, vs.len() as u64, true);
            let strat = DefaultCompressionStrategy::new();
            let comp = match strat.create_miniblock_compressor(&field, &block) {
                Ok(c) => c,
                Err(_) => return "err".into(),
            };
            match comp.compress(block) {
                Ok((c, enc)) => {
                    let name = encoding_name(&enc);
                    ctx.tag(&format!("strat:{name}"));
                    let full = |ci: usize| ts == 8 && vs.chunks(1024).nth(ci).map(|c| c.iter().any(|v| v >> 63 == 1)).unwrap_or(false);
                    check_miniblock(ctx, &format!("strat:{name}"), &c, &enc, &block_bytes, &bytes, vs.len() as u64, &full);
                    "rt".into()
                }
                Err(_) => "err".into(),
            }
        }
        _ => bad,
    }
}

fn encoding_name(e: &CompressiveEncoding) -> String {
    use lance_encoding::format::pb21::compressive_encoding::Compression as C;
    match e.compression.as_ref() {
        Some(C::Flat(_)) => "flat".into(),
        Some(C::InlineBitpacking(_)) => "inline_bitpack".into(),
        Some(C::OutOfLineBitpacking(_)) => "ool_bitpack".into(),
        Some(C::Variable(_)) => "variable".into(),
        Some(C::Fsst(f)) => format!("fsst({})", f.values.as_ref().map(|v| encoding_name(v)).unwrap_or_default()),
        Some(C::PackedStruct(_)) => "packed".into(),
        Some(C::Rle(_)) => "rle".into(),
        Some(C::ByteStreamSplit(_)) => "bss".into(),
        Some(C::General(g)) => format!("general({})", g.values.as_ref().map(|v| encoding_name(v)).unwrap_or_default()),
        Some(C::Constant(_)) => "constant".into(),
        Some(C::FixedSizeList(_)) => "fsl".into(),
        Some(C::Dictionary(_)) => "dictionary".into(),
        _ => "other".into(),
    }
}

// ---------- generators ----------

fn max_of(ts: usize) -> u64 {
    if ts >= 8 {
        u64::MAX
    } else {
        (1u64 << (8 * ts)) - 1
    }
}

fn pick_value(rng: &mut Rng, ts: usize) -> u64 {
    let mx = max_of(ts);
    match rng.below(8) {
        0 => 0,
        1 => mx,
        2 => mx - 1,
        3 => 1,
        4 => rng.below(4),
        5 => (mx >> 1) + rng.below(2),
        _ => rng.next_u64() & mx,
    }
}

const RUN_LENS: &[usize] = &[1, 1, 1, 2, 3, 7, 63, 64, 65, 127, 128, 254, 255, 256, 257, 509, 510, 511, 512, 765, 1023, 1024, 1025, 2047, 2048, 2049, 4096, 5000];

/// a run-structured value list, as protocol text, with about `target` values
fn gen_runs(rng: &mut Rng, ts: usize, target: usize) -> String {
    let mut items: Vec<String> = vec![];
    let mut n = 0usize;
    let mx = max_of(ts);
    while n < target {
        match rng.below(10) {
            // a stretch of distinct values (run length 1 each)
            0 | 1 | 2 => {
                let cap = if rng.chance(1, 4) { 3000 } else { 40 };
                let len = (1 + rng.usize(cap)).min(target - n).max(1);
                let len = if ts == 1 { len.min(200) } else { len };
                let start = rng.next_u64() & (mx >> 1);
                let len = (len as u64).min(mx - start) as usize;
                items.push(format!("{start}+{len}"));
                n += len;
            }
            // alternating pair
            3 => {
                let a = pick_value(rng, ts);
                let b = pick_value(rng, ts);
                let k = 1 + rng.usize(30);
                for _ in 0..k {
                    items.push(format!("{a}"));
                    items.push(format!("{b}"));
                }
                n += 2 * k;
            }
            _ => {
                let len = if rng.chance(1, 2) { *rng.pick(RUN_LENS) } else { 1 + rng.usize(300) };
                let v = pick_value(rng, ts);
                items.push(format!("{v}*{len}"));
                n += len;
            }
        }
    }
    items.join(",")
}

fn gen_random_words(rng: &mut Rng, ts: usize, n: usize) -> String {
    if n == 0 {
        return "-".into();
    }
    (0..n).map(|_| pick_value(rng, ts).to_string()).collect::<Vec<_>>().join(",")
}


/// byte-string items `len:seed*n` with about `target` values
fn gen_items(rng: &mut Rng, target: usize, max_len: usize) -> String {
    let mut items = vec![];
    let mut n = 0;
    while n < target {
        let len = match rng.below(8) {
            0 => 0,
            1 => max_len,
            2 => 1,
            3 => rng.usize(8),
            _ => rng.usize(max_len + 1),
        };
        let rep = match rng.below(6) {
            0 => *rng.pick(&[2usize, 15, 16, 17, 255, 256, 512, 513, 1024]),
            1 => 1 + rng.usize(40),
            _ => 1,
        }
        .min(target - n)
        .max(1);
        items.push(format!("{len}:{}*{rep}", rng.usize(256)));
        n += rep;
    }
    items.join(",")
}

fn gen_more(rng: &mut Rng, idx: usize, ts: usize, lines: &mut Vec<String>) {
    let bw = *rng.pick(&[4usize, 8]);
    match idx % 10 {
        0 | 1 => {
            // binary mini-block: narrow values (what the strategy sends), sometimes long ones
            let target = match rng.below(6) {
                0 => 1,
                1 => 2 + rng.usize(6),
                2 | 3 => 20 + rng.usize(300),
                _ => 600 + rng.usize(2500),
            };
            let max_len = *rng.pick(&[0usize, 3, 16, 40, 100, 255, 255, 255, 1000, 3000]);
            let items = gen_items(rng, target, max_len);
            lines.push(format!("bin {bw} {items}"));
            if rng.chance(1, 3) {
                let md = *rng.pick(&["-", "none", "fsst", "lz4", "zstd"]);
                lines.push(format!("vstrat {bw} {md} {items}"));
            }
        }
        2 => {
            // the overshoot shape: a stretch of tiny values, then wide ones
            let tiny = *rng.pick(&[256usize, 512, 511, 513, 1024, 100]);
            let wide = 200 + rng.usize(56);
            let k = 1 + rng.usize(1200);
            lines.push(format!("bin {bw} {}:1*{tiny},{wide}:2*{k},3:3*{}", rng.usize(2), rng.usize(5)));
        }
        3 => {
            let t1 = 1 + rng.usize(30);
            let items = gen_items(rng, t1, 40);
            lines.push(format!("var {bw} {items}"));
            let t2 = 1 + rng.usize(60);
            let ditems = gen_items(rng, t2, 6);
            lines.push(format!("dict {ditems}"));
        }
        4 => {
            let nkids = 1 + rng.usize(4);
            let ws: Vec<String> = (0..nkids).map(|_| rng.pick(&[1usize, 2, 4, 8, 16, 3]).to_string()).collect();
            let nv = match rng.below(4) {
                0 => 1,
                1 => *rng.pick(&[255usize, 256, 257, 1024, 4096, 4097]),
                _ => 1 + rng.usize(6000),
            };
            lines.push(format!("pk {} {nv} {}", ws.join("/"), rng.usize(256)));
        }
        5 | 6 => {
            // inline bit-packing: per-1024-chunk magnitudes
            let nchunks = 1 + rng.usize(4);
            let mut items = vec![];
            for c in 0..nchunks {
                let width = match rng.below(6) {
                    0 => 0,
                    1 => ts * 8,
                    2 => ts * 8 - 1,
                    _ => rng.usize(ts * 8 + 1),
                };
                let mx = if width == 0 { 0 } else if width >= 64 { u64::MAX } else { (1u64 << width) - 1 };
                let n = if c + 1 == nchunks { *rng.pick(&[1usize, 2, 100, 1023, 1024, 700]) } else { 1024 };
                if rng.chance(1, 2) {
                    items.push(format!("{mx}*1,{}*{}", mx / 2, n - 1));
                    if n == 1 {
                        items.pop();
                        items.push(format!("{mx}"));
                    }
                } else {
                    let a = rng.usize(n);
                    let mut parts = vec![];
                    if a > 0 {
                        parts.push(format!("0*{a}"));
                    }
                    parts.push(format!("{mx}"));
                    if n - a - 1 > 0 {
                        parts.push(format!("{}*{}", mx & 0x5555_5555_5555_5555, n - a - 1));
                    }
                    items.push(parts.join(","));
                }
            }
            lines.push(format!("ibp {ts} {}", items.join(",")));
        }
        7 => {
            let bits = ts * 8;
            let cw = 1 + rng.usize(bits - 1);
            let wpc = 1024 * cw / bits;
            let full = rng.usize(3);
            let tail = match rng.below(6) {
                0 => 0,
                1 => wpc.max(1).min(1023),
                2 => (wpc + 1).min(1023),
                3 => wpc.saturating_sub(1).max(1),
                _ => 1 + rng.usize(1023),
            };
            let n = full * 1024 + tail;
            if n == 0 {
                lines.push(format!("obp {ts} {cw} 1"));
            } else {
                let mx = (1u64 << cw) - 1;
                let a = rng.usize(n);
                let mut parts = vec![];
                if a > 0 {
                    parts.push(format!("{}*{a}", mx / 3));
                }
                parts.push(format!("{mx}"));
                if n - a - 1 > 0 {
                    parts.push(format!("{}*{}", rng.next_u64() & mx, n - a - 1));
                }
                lines.push(format!("obp {ts} {cw} {}", parts.join(",")));
            }
        }
        8 => {
            let inner = *rng.pick(&["rle", "flat", "bss"]);
            let ts2 = if inner == "bss" { *rng.pick(&[4usize, 8]) } else { ts };
            let n = 1500 + rng.usize(5000);
            let vs = if rng.chance(1, 2) { gen_runs(rng, ts2, n) } else { gen_random_words(rng, ts2, n) };
            lines.push(format!("gen {inner} {ts2} {vs}"));
        }
        _ => {
            let target = 50 + rng.usize(3000);
            let ml = *rng.pick(&[8usize, 30, 100, 255]);
            let items = gen_items(rng, target, ml);
            lines.push(format!("fsst {bw} {items}"));
            let n = rng.usize(5000);
            let bytes: Vec<u64> = (0..rng.usize(17)).map(|_| rng.below(256)).collect();
            lines.push(format!("const {n} {}", show_nat_list(bytes)));
        }
    }
}

impl Prop for C26 {
    fn id(&self) -> &'static str {
        "C26"
    }
    fn budget(&self, tier: Tier) -> usize {
        match tier {
            Tier::Quick => 2400,
            Tier::Thorough => 30000,
            Tier::Search => 12000,
        }
    }
    fn gen_case(&mut self, rng: &mut Rng, _tier: Tier, idx: usize) -> Vec<String> {
        let ts = *rng.pick(&[1usize, 2, 4, 8]);
        let size = match rng.below(10) {
            0 => 0,
            1 => 1,
            2 | 3 | 4 => 1 + rng.usize(40),
            5 | 6 => 1 + rng.usize(600),
            7 | 8 => 1000 + rng.usize(4000),
            _ => 4000 + rng.usize(6000),
        };
        let mut lines = vec![];
        if idx % 2 == 1 {
            gen_more(rng, idx / 2, ts, &mut lines);
            return lines;
        }
        match (idx / 2) % 8 {
            0 | 1 | 2 => {
                let vs = if size == 0 { "-".to_string() } else { gen_runs(rng, ts, size) };
                lines.push(format!("rle {ts} {vs}"));
                if rng.chance(1, 3) && size > 0 {
                    let meta = *rng.pick(&["-", "none", "lz4", "zstd", "rle_always", "rle_never", "bss_on;lz4", "rle_always;zstd"]);
                    lines.push(format!("strat {ts} {meta} {vs}"));
                }
            }
            3 => {
                // decoder on arbitrary buffers (malformed stream)
                let runs = rng.usize(6);
                let mut vb: Vec<u64> = (0..runs * ts).map(|_| rng.below(256)).collect();
                let mut lb: Vec<u64> = (0..runs).map(|_| *rng.pick(&[0u64, 1, 2, 3, 255, 254, 7])).collect();
                match rng.below(8) {
                    0 => {
                        vb.push(1);
                    }
                    1 => {
                        lb.push(3);
                    }
                    2 => {
                        lb.pop();
                    }
                    _ => {}
                }
                let total: u64 = lb.iter().sum();
                let n = match rng.below(5) {
                    0 => 0,
                    1 => total + 1 + rng.below(3),
                    2 => total,
                    _ => rng.below(total + 1),
                };
                lines.push(format!("rled {ts} {n} {} {}", show_nat_list(vb), show_nat_list(lb)));
            }
            4 => {
                let w = *rng.pick(&[4usize, 8]);
                let n = match rng.below(6) {
                    0 => 0,
                    1 => 1,
                    2 => *rng.pick(&[511usize, 512, 513, 1023, 1024, 1025, 2048, 1536]),
                    3 => 1 + rng.usize(3000),
                    _ => 1 + rng.usize(50),
                };
                lines.push(format!("bss {w} {}", gen_random_words(rng, w, n)));
            }
            5 => {
                let mx = match rng.below(8) {
                    0 => 0,
                    1 => 255,
                    2 => 256,
                    3 => 65535,
                    4 => 65536,
                    5 => u32::MAX as u64,
                    6 => u32::MAX as u64 + 1,
                    _ => {
                        let sh = rng.below(64);
                        rng.next_u64() >> sh
                    }
                };
                let n = rng.usize(30);
                let vals: Vec<u64> = (0..n)
                    .map(|_| if mx == 0 { 0 } else if rng.chance(1, 12) { rng.next_u64() } else { rng.next_u64() % mx.saturating_add(1).max(1) })
                    .collect();
                lines.push(format!("bp {mx} {}", show_nat_list(vals.clone())));
                let size = *rng.pick(&[1usize, 2, 4, 8]);
                let nb = if rng.chance(1, 6) { rng.usize(20) } else { size * rng.usize(6) };
                let bytes: Vec<u64> = (0..nb).map(|_| rng.below(256)).collect();
                lines.push(format!("bpu {size} {}", show_nat_list(bytes)));
            }
            6 => {
                let bpv = match rng.below(6) {
                    0 => *rng.pick(&[1usize, 2, 4, 8, 16, 32]),
                    1 => *rng.pick(&[3usize, 5, 12, 100, 1000, 2046, 2047, 4092]),
                    _ => 1 + rng.usize(64),
                };
                let nv = match rng.below(5) {
                    0 => 0,
                    1 => 1,
                    2 => *rng.pick(&[1023usize, 1024, 1025, 2048, 4095, 4096, 4097, 8192]),
                    _ => rng.usize(6000),
                };
                let nv = if bpv > 64 { nv.min(40) } else { nv };
                lines.push(format!("flat {bpv} {nv}"));
            }
            _ => {
                let meta = *rng.pick(&["-", "none", "lz4", "zstd", "bss_on;lz4", "bss_on;zstd", "rle_never", "bss_off;lz4"]);
                let vs = if rng.chance(1, 2) { gen_runs(rng, ts, size.max(1)) } else { gen_random_words(rng, ts, size.max(1)) };
                lines.push(format!("strat {ts} {meta} {vs}"));
            }
        }
        lines
    }
    fn exec_case(&mut self, lines: &[String]) -> CaseResult {
        let mut res = CaseResult::default();
        for (i, l) in lines.iter().enumerate() {
            let mut ctx = Ctx { res: &mut res, line: i };
            let out = match std::panic::catch_unwind(std::panic::AssertUnwindSafe(|| exec_line(&mut ctx, l))) {
                Ok(o) => o,
                Err(_) => {
                    let op = l.split(' ').next().unwrap_or("?").to_string();
                    res.failures.push(OracleFailure { what: format!("{op}: the implementation panicked"), key: Some(format!("panic:{op}")), line: i });
                    "panic".into()
                }
            };
            if out == "bad-op" {
                res.tags.push("bad-op".into());
            }
            res.outputs.push(out);
        }
        res.nontrivial = lines.iter().any(|l| l.len() > 12);
        res
    }
    fn rule(&self) -> String {
        "one codec invocation per line on run-structured / random / boundary-sized blocks of 8/16/32/64-bit words; \
         non-trivial = a non-empty block"
            .into()
    }
}

fn main() {
    run_main(C26)
}
