//! C05: every committed version is internally well formed.
//!
//! End-to-end histories on REAL lance datasets through the public API (create / append / overwrite / delete / update /
//! merge_insert with a full or PARTIAL source schema / compact_files / add_columns / drop_columns / create_index /
//! restore).  After every operation each newly committed version `v` is re-opened through fresh session caches and
//!   * the committed transaction (`Dataset::read_transaction`) and the manifest (`Dataset::manifest`, `get_fragments`,
//!     deletion vectors, `load_indices`) are projected to the structure of the Lean model (`../c05_model.rs`);
//!   * ORACLE (independent of the Lean model): the harness's own well-formedness predicate must hold on the real
//!     manifest, `Dataset::validate()` must succeed, the version must scan and `count_rows` must equal the sum of
//!     `physical_rows − deletions`, `num_deleted_rows` must equal the deletion vector's length, and the transaction
//!     the writers produced must satisfy the stated precondition `Valid`;
//!   * TIE: the op line carries the projected transaction(s); the Lean driver applies its `buildManifest` /
//!     `restoreOld` to its own previous manifest and must print the same manifest dump, `valid=`, `wf=`, `live=` and
//!     `validate=` (model of `Dataset::validate`).
//!
//! Op line:  `<high-level op> :: <txn> [:: <txn> …]`   (one txn per version the op committed; compaction commits
//! `reserve` versions before its `rewrite`),  `<high-level op> :: -` (the op committed nothing),
//! `<high-level op> :: !` (the op failed), anything without ` :: ` is malformed (`err parse` on both sides).
//! High-level ops (executed by the harness, opaque to the model):
//!   create s=<0|1> f=<n> k=<K> <rows> | append f=<n> <rows> | overwrite f=<n> k=<K> <rows> | delete <pred>
//!   | update <pred> c=<col> v=<int> | merge cols=<ints> ins=<0|1> <rows> | compact t=<n> m=<0|1> | addcol | dropcol <col>
//!   | index <col> | restore <v> | config <n>         pred ::= in:<ints> | ge:<int> | all        rows: tablekit form
//! Because the transactions are produced by the real writers, generation EXECUTES the history (the result is cached
//! and reused for the generated case; corpus / replay cases are executed afresh and additionally compare the
//! transactions they see with the recorded ones).
//! Output line: `ok <seg> [| <seg> …]`, `ok -`, `err`, `err parse`;
//!   seg ::= valid=<0|1> v=… st=… sch=… max=… nrid=… frags=… idx=… wf=<0|1> live=<0|1> validate=<ok|class>

use std::collections::HashMap;
use std::sync::Arc;

use arrow_array::{Array, ArrayRef, Int64Array, RecordBatch, RecordBatchIterator};
use arrow_schema::{DataType, Field, Schema as ArrowSchema};
use hcommon::*;
use lance::dataset::optimize::{compact_files, CompactionOptions};
use lance::dataset::transaction::{Operation, UpdateMode};
use lance::dataset::{
    MergeInsertBuilder, NewColumnTransform, UpdateBuilder, WhenMatched, WhenNotMatched, WriteDestination, WriteMode, WriteParams,
};
use lance::session::Session;
use lance::Dataset;
use lance_index::scalar::ScalarIndexParams;
use lance_index::{DatasetIndexExt, IndexType};
use lance_table::format::{Fragment, IndexMetadata, RowIdMeta};
use lance_table::rowids::read_row_ids;

#[path = "../tablekit.rs"]
#[allow(dead_code)]
mod tablekit;
use tablekit::{canon_err, parse_rows, show_rows, ErrKind, Kit, KitError, KitResult, Row};

#[path = "../c05_model.rs"]
mod c05_model;
use c05_model::*;

// ------------------------------------------------------------------------------------------------
// high-level ops
// ------------------------------------------------------------------------------------------------

#[derive(Clone, Debug)]
enum Pred {
    In(Vec<i64>),
    Ge(i64),
    All,
}

impl Pred {
    fn sql(&self) -> String {
        match self {
            Pred::In(ks) if ks.is_empty() => "c0 < c0".into(),
            Pred::In(ks) => format!("c0 in ({})", ks.iter().map(|k| k.to_string()).collect::<Vec<_>>().join(",")),
            Pred::Ge(k) => format!("c0 >= {k}"),
            Pred::All => "true".into(),
        }
    }
    fn show(&self) -> String {
        match self {
            Pred::In(ks) => format!("in:{}", show_ints(ks)),
            Pred::Ge(k) => format!("ge:{k}"),
            Pred::All => "all".into(),
        }
    }
    fn parse(s: &str) -> Option<Self> {
        if s == "all" {
            return Some(Pred::All);
        }
        if let Some(r) = s.strip_prefix("in:") {
            return parse_ints(r).map(Pred::In);
        }
        s.strip_prefix("ge:")?.parse().ok().map(Pred::Ge)
    }
}

fn parse_ints(s: &str) -> Option<Vec<i64>> {
    if s == "_" {
        return Some(vec![]);
    }
    s.split(',').map(|x| x.parse().ok()).collect()
}

#[derive(Clone, Debug)]
enum Hl {
    Create { stable: bool, f: usize, k: usize, rows: Vec<Row> },
    Append { f: usize, rows: Vec<Row> },
    Overwrite { f: usize, k: usize, rows: Vec<Row> },
    Delete(Pred),
    Update { pred: Pred, col: usize, val: i64 },
    Merge { cols: Vec<usize>, ins: bool, rows: Vec<Row> },
    Compact { target: usize, mat: bool },
    AddCol,
    DropCol(usize),
    Index(usize),
    Restore(u64),
    Config(u64),
}

impl Hl {
    fn name(&self) -> &'static str {
        match self {
            Hl::Create { .. } => "create",
            Hl::Append { .. } => "append",
            Hl::Overwrite { .. } => "overwrite",
            Hl::Delete(_) => "delete",
            Hl::Update { .. } => "update",
            Hl::Merge { .. } => "merge",
            Hl::Compact { .. } => "compact",
            Hl::AddCol => "addcol",
            Hl::DropCol(_) => "dropcol",
            Hl::Index(_) => "index",
            Hl::Restore(_) => "restore",
            Hl::Config(_) => "config",
        }
    }
    fn show(&self) -> String {
        match self {
            Hl::Create { stable, f, k, rows } => format!("create s={} f={f} k={k} {}", *stable as u8, show_rows(rows)),
            Hl::Append { f, rows } => format!("append f={f} {}", show_rows(rows)),
            Hl::Overwrite { f, k, rows } => format!("overwrite f={f} k={k} {}", show_rows(rows)),
            Hl::Delete(p) => format!("delete {}", p.show()),
            Hl::Update { pred, col, val } => format!("update {} c={col} v={val}", pred.show()),
            Hl::Merge { cols, ins, rows } => format!("merge cols={} ins={} {}", show_ints(cols), *ins as u8, show_rows(rows)),
            Hl::Compact { target, mat } => format!("compact t={target} m={}", *mat as u8),
            Hl::AddCol => "addcol".into(),
            Hl::DropCol(c) => format!("dropcol {c}"),
            Hl::Index(c) => format!("index {c}"),
            Hl::Restore(v) => format!("restore {v}"),
            Hl::Config(n) => format!("config {n}"),
        }
    }
    fn parse(s: &str) -> Option<Self> {
        let t: Vec<&str> = s.split(' ').filter(|x| !x.is_empty()).collect();
        let kv = |tok: &str, key: &str| -> Option<String> { tok.strip_prefix(key).map(|x| x.to_string()) };
        let b = |s: String| -> Option<bool> {
            match s.as_str() {
                "0" => Some(false),
                "1" => Some(true),
                _ => None,
            }
        };
        Some(match t.as_slice() {
            ["create", s, f, k, rows] => Hl::Create {
                stable: b(kv(s, "s=")?)?,
                f: kv(f, "f=")?.parse().ok()?,
                k: kv(k, "k=")?.parse().ok()?,
                rows: parse_rows(rows)?,
            },
            ["append", f, rows] => Hl::Append { f: kv(f, "f=")?.parse().ok()?, rows: parse_rows(rows)? },
            ["overwrite", f, k, rows] => {
                Hl::Overwrite { f: kv(f, "f=")?.parse().ok()?, k: kv(k, "k=")?.parse().ok()?, rows: parse_rows(rows)? }
            }
            ["delete", p] => Hl::Delete(Pred::parse(p)?),
            ["update", p, c, v] => {
                Hl::Update { pred: Pred::parse(p)?, col: kv(c, "c=")?.parse().ok()?, val: kv(v, "v=")?.parse().ok()? }
            }
            ["merge", cols, ins, rows] => Hl::Merge {
                cols: parse_ints(&kv(cols, "cols=")?)?.into_iter().map(|x| x as usize).collect(),
                ins: b(kv(ins, "ins=")?)?,
                rows: parse_rows(rows)?,
            },
            ["compact", t, m] => Hl::Compact { target: kv(t, "t=")?.parse().ok()?, mat: b(kv(m, "m=")?)? },
            ["addcol"] => Hl::AddCol,
            ["dropcol", c] => Hl::DropCol(c.parse().ok()?),
            ["index", c] => Hl::Index(c.parse().ok()?),
            ["restore", v] => Hl::Restore(v.parse().ok()?),
            ["config", n] => Hl::Config(n.parse().ok()?),
            _ => return None,
        })
    }
}

// ------------------------------------------------------------------------------------------------
// the property
// ------------------------------------------------------------------------------------------------

#[derive(Clone)]
struct Cached {
    outputs: Vec<String>,
    failures: Vec<OracleFailure>,
    tags: Vec<String>,
    nontrivial: bool,
}

struct C05 {
    kit: Kit,
    cache: HashMap<Vec<String>, Cached>,
}

fn batch(names: &[String], rows: &[Row]) -> KitResult<(Arc<ArrowSchema>, RecordBatch)> {
    if names.is_empty() || rows.iter().any(|r| r.len() != names.len()) {
        return Err(KitError::invalid("harness: row width does not match the columns"));
    }
    let schema = Arc::new(ArrowSchema::new(
        names.iter().map(|n| Field::new(n.clone(), DataType::Int64, true)).collect::<Vec<_>>(),
    ));
    let cols: Vec<ArrayRef> = (0..names.len())
        .map(|i| Arc::new(Int64Array::from(rows.iter().map(|r| r[i]).collect::<Vec<_>>())) as ArrayRef)
        .collect();
    let b = RecordBatch::try_new(schema.clone(), cols).map_err(KitError::from)?;
    Ok((schema, b))
}

fn col_names(ds: &Dataset) -> Vec<String> {
    ds.schema().fields.iter().map(|f| f.name.clone()).collect()
}

fn col_numbers(ds: &Dataset) -> Vec<usize> {
    col_names(ds).iter().filter_map(|n| n.strip_prefix('c').and_then(|x| x.parse().ok())).collect()
}

fn sorted<T: Ord>(mut v: Vec<T>) -> Vec<T> {
    v.sort();
    v
}

/// updated fragments are looked up by id: when the ids are pairwise different their order is irrelevant
fn by_id_if_distinct(mut v: Vec<MFrag>) -> Vec<MFrag> {
    let mut ids: Vec<u64> = v.iter().map(|f| f.id).collect();
    ids.sort();
    ids.dedup();
    if ids.len() == v.len() {
        v.sort_by_key(|f| f.id);
    }
    v
}

fn validate_class(msg: &str) -> &'static str {
    if msg.contains("not in increasing order") {
        "negativeField"
    } else if msg.contains("is duplicated in fragment") {
        "dupField"
    } else if msg.contains("did not have any fields in common") {
        "deadFile"
    } else if msg.contains("Duplicate fragment id") {
        "dupFragId"
    } else if msg.contains("not sorted in increasing") {
        "unsorted"
    } else if msg.contains("out of range") {
        "delOutOfRange"
    } else if msg.contains("Duplicate index id") {
        "dupIndexId"
    } else if msg.contains("Overlapping fragments") {
        "overlap"
    } else {
        "other"
    }
}

impl C05 {
    /// a new session (fresh metadata / index caches) on the same object-store registry, so `memory://` datasets survive
    fn fresh_session(&mut self) {
        let reg = self.kit.session.store_registry();
        self.kit.session = Arc::new(Session::new(64 << 20, 64 << 20, reg));
    }

    fn write(&self, dest: Result<&Dataset, &str>, mode: WriteMode, names: &[String], rows: &[Row], f: usize, stable: bool) -> KitResult<Dataset> {
        let (schema, b) = batch(names, rows)?;
        let params = WriteParams {
            mode,
            max_rows_per_file: f,
            enable_stable_row_ids: stable,
            session: Some(self.kit.session.clone()),
            ..Default::default()
        };
        let reader = RecordBatchIterator::new(vec![Ok(b)].into_iter(), schema);
        let r = match dest {
            Ok(ds) => self.kit.block_on(Dataset::write(reader, WriteDestination::Dataset(Arc::new(ds.clone())), Some(params))),
            Err(uri) => self.kit.block_on(Dataset::write(reader, uri, Some(params))),
        };
        r.map_err(KitError::from)
    }

    /// run one high-level op through the public API
    fn apply(&self, uri: &str, cur: Option<&Dataset>, op: &Hl) -> KitResult<Dataset> {
        let kit = &self.kit;
        let need = || cur.cloned().ok_or_else(|| KitError { kind: ErrKind::NotFound, msg: "no table".into() });
        match op {
            Hl::Create { stable, f, k, rows } => {
                let names: Vec<String> = (0..*k).map(|i| format!("c{i}")).collect();
                self.write(Err(uri), WriteMode::Create, &names, rows, *f, *stable)
            }
            Hl::Append { f, rows } => {
                let d = need()?;
                self.write(Ok(&d), WriteMode::Append, &col_names(&d), rows, *f, d.manifest().uses_stable_row_ids())
            }
            Hl::Overwrite { f, k, rows } => {
                let d = need()?;
                let names: Vec<String> = (0..*k).map(|i| format!("c{i}")).collect();
                self.write(Ok(&d), WriteMode::Overwrite, &names, rows, *f, d.manifest().uses_stable_row_ids())
            }
            Hl::Delete(p) => {
                let mut d = need()?;
                kit.block_on(d.delete(&p.sql()))?;
                Ok(d)
            }
            Hl::Update { pred, col, val } => {
                let d = need()?;
                let r = kit.block_on(async {
                    UpdateBuilder::new(Arc::new(d))
                        .update_where(&pred.sql())?
                        .set(format!("c{col}"), &val.to_string())?
                        .build()?
                        .execute()
                        .await
                })?;
                Ok(r.new_dataset.as_ref().clone())
            }
            Hl::Merge { cols, ins, rows } => {
                let d = need()?;
                let names: Vec<String> = cols.iter().map(|c| format!("c{c}")).collect();
                let (schema, b) = batch(&names, rows)?;
                let reader = RecordBatchIterator::new(vec![Ok(b)].into_iter(), schema);
                let r = kit.block_on(async {
                    let mut mb = MergeInsertBuilder::try_new(Arc::new(d), vec!["c0".to_string()])?;
                    mb.when_matched(WhenMatched::UpdateAll)
                        .when_not_matched(if *ins { WhenNotMatched::InsertAll } else { WhenNotMatched::DoNothing });
                    mb.try_build()?.execute_reader(Box::new(reader)).await
                })?;
                Ok(r.0.as_ref().clone())
            }
            Hl::Compact { target, mat } => {
                let mut d = need()?;
                if *target == 0 {
                    return Err(KitError::invalid("harness: target 0"));
                }
                let opts = CompactionOptions {
                    target_rows_per_fragment: *target,
                    materialize_deletions: *mat,
                    materialize_deletions_threshold: 0.0,
                    ..Default::default()
                };
                kit.block_on(compact_files(&mut d, opts, None))?;
                Ok(d)
            }
            Hl::AddCol => {
                let mut d = need()?;
                let next = col_numbers(&d).into_iter().max().map(|x| x + 1).unwrap_or(0);
                kit.block_on(d.add_columns(
                    NewColumnTransform::SqlExpressions(vec![(format!("c{next}"), "c0 + 1".into())]),
                    None,
                    None,
                ))?;
                Ok(d)
            }
            Hl::DropCol(c) => {
                let mut d = need()?;
                let name = format!("c{c}");
                kit.block_on(d.drop_columns(&[name.as_str()]))?;
                Ok(d)
            }
            Hl::Index(c) => {
                let mut d = need()?;
                let name = format!("c{c}");
                kit.block_on(d.create_index(&[name.as_str()], IndexType::BTree, None, &ScalarIndexParams::default(), true))?;
                Ok(d)
            }
            Hl::Restore(v) => {
                let d = need()?;
                let mut old = kit.block_on(d.checkout_version(*v))?;
                kit.block_on(old.restore())?;
                Ok(old)
            }
            Hl::Config(n) => {
                let mut d = need()?;
                let v = n.to_string();
                kit.block_on(async { d.update_config([("c05.key", v.as_str())]).await })?;
                Ok(d)
            }
        }
    }

    fn project_frag(&self, at: &Arc<Dataset>, f: &Fragment) -> KitResult<MFrag> {
        let dels = if f.deletion_file.is_some() {
            let ff = lance::dataset::fragment::FileFragment::new(at.clone(), f.clone());
            match self.kit.block_on(ff.get_deletion_vector())? {
                Some(dv) => {
                    let mut v: Vec<u64> = dv.as_ref().clone().into_iter().map(|x| x as u64).collect();
                    v.sort();
                    v
                }
                None => vec![],
            }
        } else {
            vec![]
        };
        let rid = match &f.row_id_meta {
            None => None,
            Some(RowIdMeta::Inline(data)) => Some(read_row_ids(data).map_err(KitError::from)?.len()),
            Some(RowIdMeta::External(_)) => return Err(KitError::other("harness: external row id file")),
        };
        Ok(MFrag {
            id: f.id,
            files: f.files.iter().map(|d| d.fields.clone()).collect(),
            rows: f.physical_rows.map(|x| x as u64).unwrap_or(u64::MAX),
            dels,
            rid,
        })
    }

    fn project_frags(&self, at: &Arc<Dataset>, fs: &[Fragment]) -> KitResult<Vec<MFrag>> {
        fs.iter().map(|f| self.project_frag(at, f)).collect()
    }

    fn project_index(ix: &IndexMetadata, uu: &mut UuidMap) -> MIndex {
        MIndex {
            name: ix.name.replace([' ', ':', ';'], "?"),
            uuid: uu.get(&ix.uuid.to_string()),
            fields: ix.fields.clone(),
            bitmap: ix.fragment_bitmap.as_ref().map(|b| b.iter().map(|x| x as u64).collect()),
        }
    }

    fn schema_ids(s: &lance_core::datatypes::Schema) -> Vec<i32> {
        s.fields_pre_order().map(|f| f.id).collect()
    }

    fn project_op(&self, at: &Arc<Dataset>, op: &Operation, uu: &mut UuidMap) -> KitResult<MOp> {
        Ok(match op {
            Operation::Overwrite { fragments, schema, .. } => MOp::Overwrite {
                cfg_stable: at.manifest().uses_stable_row_ids(),
                schema: Self::schema_ids(schema),
                frags: self.project_frags(at, fragments)?,
            },
            Operation::Append { fragments } => MOp::Append { frags: self.project_frags(at, fragments)? },
            Operation::Delete { updated_fragments, deleted_fragment_ids, .. } => MOp::Delete {
                updated: by_id_if_distinct(self.project_frags(at, updated_fragments)?),
                deleted: sorted(deleted_fragment_ids.clone()),
            },
            Operation::Update {
                removed_fragment_ids,
                updated_fragments,
                new_fragments,
                fields_modified,
                fields_for_preserving_frag_bitmap,
                update_mode,
                ..
            } => MOp::Update {
                // id sets / field sets come out of hash sets and concurrent tasks: canonical order (the model only
                // tests membership in them; updated fragments are looked up by id)
                removed: sorted(removed_fragment_ids.clone()),
                updated: by_id_if_distinct(self.project_frags(at, updated_fragments)?),
                new: self.project_frags(at, new_fragments)?,
                fm: sorted(fields_modified.iter().map(|x| *x as i32).collect()),
                fp: sorted(fields_for_preserving_frag_bitmap.iter().map(|x| *x as i32).collect()),
                rewrite_rows: *update_mode == Some(UpdateMode::RewriteRows),
            },
            Operation::Rewrite { groups, rewritten_indices, frag_reuse_index } => {
                if frag_reuse_index.is_some() {
                    return Ok(MOp::Other);
                }
                let mut gs = vec![];
                for g in groups {
                    gs.push((g.old_fragments.iter().map(|f| f.id).collect(), self.project_frags(at, &g.new_fragments)?));
                }
                MOp::Rewrite {
                    groups: gs,
                    rewritten: rewritten_indices
                        .iter()
                        .map(|r| {
                            let a = uu.get(&r.old_id.to_string());
                            let b = uu.get(&r.new_id.to_string());
                            (a, b)
                        })
                        .collect(),
                }
            }
            Operation::Merge { fragments, schema } => {
                MOp::Merge { schema: Self::schema_ids(schema), frags: self.project_frags(at, fragments)? }
            }
            Operation::Project { schema } => MOp::Project { schema: Self::schema_ids(schema) },
            Operation::CreateIndex { new_indices, removed_indices } => {
                let removed = removed_indices.iter().map(|i| uu.get(&i.uuid.to_string())).collect();
                MOp::CreateIndex { new: new_indices.iter().map(|i| Self::project_index(i, uu)).collect(), removed }
            }
            Operation::ReserveFragments { num_fragments } => MOp::Reserve { n: *num_fragments as u64 },
            Operation::UpdateConfig { .. } => MOp::Config,
            Operation::Restore { version } => MOp::Restore { version: *version },
            _ => MOp::Other,
        })
    }

    fn project_manifest(&self, at: &Arc<Dataset>, uu: &mut UuidMap) -> KitResult<MManifest> {
        let m = at.manifest();
        let indices = self.kit.block_on(at.load_indices())?;
        Ok(MManifest {
            version: m.version,
            stable: m.uses_stable_row_ids(),
            schema: Self::schema_ids(&m.schema),
            frags: self.project_frags(at, m.fragments.as_ref())?,
            max_frag: m.max_fragment_id.map(|x| x as u64),
            next_row_id: m.next_row_id,
            indices: indices.iter().map(|i| Self::project_index(i, uu)).collect(),
        })
    }

    fn gen_rows(rng: &mut Rng, keys: &[i64], width: usize) -> Vec<Row> {
        keys.iter()
            .map(|k| {
                let mut r: Row = vec![Some(*k)];
                for _ in 1..width {
                    r.push(if rng.chance(1, 8) { None } else { Some(rng.below(50) as i64) });
                }
                r
            })
            .collect()
    }

    fn pick_keys(rng: &mut Rng, live: &[i64], max: usize) -> Vec<i64> {
        if live.is_empty() {
            return vec![];
        }
        let n = 1 + rng.usize(max.min(live.len()));
        let mut v: Vec<i64> = (0..n).map(|_| *rng.pick(live)).collect();
        v.sort();
        v.dedup();
        v
    }

    /// the next op of a generated history, chosen from the REAL state of the table
    fn gen_op(&self, rng: &mut Rng, cur: Option<&Dataset>, next_key: &mut i64, malformed: bool, force: Option<&str>) -> Hl {
        let mut fresh = |n: usize| -> Vec<i64> {
            (0..n)
                .map(|_| {
                    *next_key += 1;
                    *next_key
                })
                .collect()
        };
        let Some(d) = cur else {
            let k = 2 + rng.usize(3);
            let n = 2 + rng.usize(8);
            let keys = fresh(n);
            return Hl::Create { stable: rng.chance(2, 5), f: 2 + rng.usize(4), k, rows: Self::gen_rows(rng, &keys, k) };
        };
        let cols = col_numbers(d);
        let width = cols.len();
        // live keys (small tables: scan c0)
        let live: Vec<i64> = self
            .kit
            .block_on(async {
                let mut sc = d.scan();
                sc.project(&["c0"])?;
                sc.try_into_batch().await
            })
            .ok()
            .and_then(|b| b.column_by_name("c0").map(|c| c.clone()))
            .and_then(|c| c.as_any().downcast_ref::<Int64Array>().map(|a| a.iter().flatten().collect()))
            .unwrap_or_default();
        let others: Vec<usize> = cols.iter().copied().filter(|c| *c != 0).collect();
        let version = d.version().version;
        let choice = match force {
            Some(f) => f.to_string(),
            None => {
                let r = rng.below(100);
                match r {
                    0..=17 => "append",
                    18..=28 => "delete",
                    29..=38 => "update",
                    39..=54 => "merge_partial",
                    55..=58 => "merge_full",
                    59..=68 => "compact",
                    69..=76 => "addcol",
                    77..=83 => "dropcol",
                    84..=91 => "index",
                    92..=95 => "restore",
                    96 | 97 => "config",
                    _ => "overwrite",
                }
                .to_string()
            }
        };
        match choice.as_str() {
            "append" => {
                let n = 1 + rng.usize(6);
                let keys = fresh(n);
                let w = if malformed && rng.chance(1, 3) { width + 1 } else { width };
                Hl::Append { f: 2 + rng.usize(4), rows: Self::gen_rows(rng, &keys, w) }
            }
            "delete" => Hl::Delete(match rng.below(10) {
                0 => Pred::All,
                1 | 2 => Pred::Ge(live.iter().copied().max().unwrap_or(0) - rng.below(4) as i64),
                _ => Pred::In(Self::pick_keys(rng, &live, 4)),
            }),
            "update" => Hl::Update {
                pred: if rng.chance(1, 8) { Pred::All } else { Pred::In(Self::pick_keys(rng, &live, 4)) },
                col: if others.is_empty() || (malformed && rng.chance(1, 3)) { 99 } else { *rng.pick(&others) },
                val: rng.below(50) as i64,
            },
            "merge_partial" | "merge_full" => {
                let mut sel: Vec<usize> = vec![0];
                if choice == "merge_full" || others.len() <= 1 {
                    sel = cols.clone();
                } else {
                    let keep: Vec<usize> = others.iter().copied().filter(|_| rng.chance(1, 2)).collect();
                    let keep = if keep.is_empty() { vec![others[rng.usize(others.len())]] } else { keep };
                    let keep = if keep.len() == others.len() { keep[..keep.len() - 1].to_vec() } else { keep };
                    sel.extend(keep);
                }
                let ins = rng.chance(1, 2);
                let mut keys = Self::pick_keys(rng, &live, 5);
                if ins {
                    keys.extend(fresh(1 + rng.usize(2)));
                }
                if malformed && rng.chance(1, 3) && !keys.is_empty() {
                    keys.push(keys[0]); // duplicate source key
                }
                let w = sel.len();
                Hl::Merge { cols: sel, ins, rows: Self::gen_rows(rng, &keys, w) }
            }
            "compact" => Hl::Compact { target: [3, 5, 8, 1000][rng.usize(4)], mat: rng.chance(2, 3) },
            "addcol" => Hl::AddCol,
            "dropcol" => Hl::DropCol(if others.is_empty() || (malformed && rng.chance(1, 3)) { 0 } else { *rng.pick(&others) }),
            "index" => Hl::Index(if malformed && rng.chance(1, 3) { 77 } else { *rng.pick(&cols) }),
            "restore" => Hl::Restore(if malformed && rng.chance(1, 3) { version + 3 } else { 1 + rng.below(version) }),
            "config" => Hl::Config(rng.below(5)),
            _ => {
                let k = 2 + rng.usize(3);
                let n = 1 + rng.usize(6);
                let keys = fresh(n);
                Hl::Overwrite { f: 2 + rng.usize(4), k, rows: Self::gen_rows(rng, &keys, k) }
            }
        }
    }

    /// run a history.  `gen = Some(..)`: ops are generated step by step from the real state and the full op lines are
    /// returned; `gen = None`: the given lines are executed and their recorded transactions compared.
    fn drive(&mut self, given: &[String], mut gen: Option<(&mut Rng, usize, bool, Vec<&'static str>)>) -> (Vec<String>, CaseResult) {
        self.kit.reset_session();
        let uri = self.kit.fresh_uri();
        let mut res = CaseResult::default();
        let mut lines_out: Vec<String> = vec![];
        let mut ds: Option<Dataset> = None;
        let mut uu = UuidMap::default();
        let mut prev: Option<MManifest> = None;
        let mut next_key: i64 = 0;
        let mut n_commits = 0usize;
        let mut kinds: std::collections::BTreeSet<String> = Default::default();
        let mut saw_tomb = false;
        let total = match &gen {
            Some((_, n, _, _)) => *n,
            None => given.len(),
        };
        for ln in 0..total {
            // ---- the high-level op of this step
            let (hl, recorded): (Hl, Option<String>) = match gen.as_mut() {
                Some((rng, _, malformed, script)) => {
                    if *malformed && ds.is_some() && rng.chance(1, 10) {
                        // a syntactically broken line
                        lines_out.push("delete in:1".to_string());
                        res.outputs.push("err parse".into());
                        res.tags.push("err:parse".into());
                        continue;
                    }
                    let force = script.get(ln).copied().filter(|s| !s.is_empty());
                    (self.gen_op(rng, ds.as_ref(), &mut next_key, *malformed, force), None)
                }
                None => {
                    let line = &given[ln];
                    let Some((h, rest)) = line.split_once(" :: ") else {
                        res.outputs.push("err parse".into());
                        res.tags.push("err:parse".into());
                        continue;
                    };
                    let Some(hl) = Hl::parse(h) else {
                        res.outputs.push("err parse".into());
                        res.tags.push("err:parse".into());
                        continue;
                    };
                    (hl, Some(rest.trim().to_string()))
                }
            };
            res.tags.push(format!("op:{}", hl.name()));
            let before = ds.as_ref().map(|d| d.version().version).unwrap_or(0);
            let r = std::panic::catch_unwind(std::panic::AssertUnwindSafe(|| self.apply(&uri, ds.as_ref(), &hl))).unwrap_or_else(|e| {
                let msg = e
                    .downcast_ref::<String>()
                    .cloned()
                    .or_else(|| e.downcast_ref::<&str>().map(|s| s.to_string()))
                    .unwrap_or_else(|| "panic".into());
                Err(KitError { kind: ErrKind::Other, msg: format!("PANIC {msg}") })
            });
            let op_failed = r.is_err();
            if let Err(e) = &r {
                if std::env::var("C05_DEBUG").is_ok() {
                    eprintln!("line {ln} {}: {:?}: {}", hl.show(), e.kind, e.msg);
                }
                if e.msg.starts_with("PANIC") {
                    res.failures.push(OracleFailure { what: format!("{}: {}", hl.show(), e.msg), key: Some("panic".into()), line: ln });
                }
                res.tags.push(format!("err:{}:{}", hl.name(), e.kind.as_str()));
            }
            // ---- observe every version committed by the op through fresh caches (the handle returned by the op is
            // kept alive until the table is re-opened: the registry holds in-memory stores weakly)
            let keep_alive = r.ok();
            self.fresh_session();
            let latest = match self.kit.open(&uri, None) {
                Ok(d) => Some(d),
                Err(e) if e.kind == ErrKind::NotFound => None,
                Err(e) => {
                    res.failures.push(OracleFailure {
                        what: format!("after {} the table cannot be opened: {}", hl.show(), e.msg),
                        key: Some("open_error".into()),
                        line: ln,
                    });
                    None
                }
            };
            drop(keep_alive);
            let after = latest.as_ref().map(|d| d.version().version).unwrap_or(0);
            let mut txn_texts: Vec<String> = vec![];
            let mut segs: Vec<String> = vec![];
            if let Some(latest) = &latest {
                for v in (before + 1)..=after {
                    let at = match self.kit.block_on(latest.checkout_version(v)) {
                        Ok(d) => Arc::new(d),
                        Err(e) => {
                            res.failures.push(OracleFailure {
                                what: format!("version {v} committed by {} cannot be opened: {e}", hl.show()),
                                key: Some("open_error".into()),
                                line: ln,
                            });
                            txn_texts.push("other".into());
                            segs.push("unreadable".into());
                            continue;
                        }
                    };
                    let mut fail = |what: String, key: &str| res.failures.push(OracleFailure { what, key: Some(key.into()), line: ln });
                    let txn = self.kit.block_on(at.read_transaction()).ok().flatten();
                    let mop = match &txn {
                        Some(t) => self.project_op(&at, &t.operation, &mut uu).unwrap_or(MOp::Other),
                        None => MOp::Other,
                    };
                    let man = match self.project_manifest(&at, &mut uu) {
                        Ok(m) => m,
                        Err(e) => {
                            fail(format!("version {v}: manifest cannot be projected: {}", e.msg), "projection_error");
                            txn_texts.push(show_op(&mop));
                            segs.push("unreadable".into());
                            continue;
                        }
                    };
                    kinds.insert(show_op(&mop).split(' ').next().unwrap_or("").to_string());
                    if let MOp::Update { rewrite_rows, .. } = &mop {
                        kinds.insert(if *rewrite_rows { "update_rows".into() } else { "update_cols".into() });
                    }
                    // ORACLE 1: the writers' side of the contract
                    let is_valid = valid(prev.as_ref(), &mop);
                    if !is_valid {
                        fail(
                            format!("version {v}: transaction `{}` violates the stated precondition of build_manifest (previous: {})",
                                show_op(&mop), prev.as_ref().map(show_manifest).unwrap_or_else(|| "none".into())),
                            if mop == MOp::Other { "txn_unmodelled" } else { "txn_invalid" },
                        );
                    }
                    // ORACLE 2: well-formedness of the real manifest
                    let viol = wf_violations(&man);
                    for c in &viol {
                        fail(format!("version {v} after {}: manifest is not well formed: {c}: {}", hl.show(), show_manifest(&man)), &format!("wf_{c}"));
                    }
                    let live = files_live(&man);
                    if man.frags.iter().any(|f| f.files.iter().flatten().any(|x| *x == -2)) {
                        saw_tomb = true;
                    }
                    // ORACLE 3: the metadata agrees with the deletion files
                    for (f, mf) in at.manifest().fragments.iter().zip(man.frags.iter()) {
                        let n = f.deletion_file.as_ref().and_then(|d| d.num_deleted_rows);
                        if let Some(n) = n {
                            if n != mf.dels.len() {
                                fail(format!("version {v}: fragment {} records {n} deletions, its deletion vector has {}", f.id, mf.dels.len()), "num_deleted_rows_mismatch");
                            }
                        }
                    }
                    // ORACLE 4: Dataset::validate
                    let val = match self.kit.block_on(at.validate()) {
                        Ok(()) => "ok".to_string(),
                        Err(e) => {
                            let msg = e.to_string();
                            let class = validate_class(&msg);
                            let mut short = msg.clone();
                            short.truncate(160);
                            let key = match class {
                                "negativeField" => "validate_rejects_tombstone",
                                "deadFile" if viol.is_empty() && !live => "validate_rejects_dead_file",
                                _ => "validate_failed",
                            };
                            fail(format!("version {v} after {}: Dataset::validate() failed ({class}): {short} | manifest {}", hl.show(), show_manifest(&man)), key);
                            class.to_string()
                        }
                    };
                    // ORACLE 5: the version scans, and counts what the manifest says
                    let expect: u64 = man.frags.iter().map(|f| f.rows.saturating_sub(f.dels.len() as u64)).sum();
                    match self.kit.block_on(at.count_rows(None)) {
                        Ok(n) if n as u64 == expect => {}
                        Ok(n) => fail(format!("version {v}: count_rows = {n}, manifest says {expect}"), "count_mismatch"),
                        Err(e) => fail(format!("version {v}: count_rows failed: {e}"), "scan_error"),
                    }
                    match self.kit.block_on(at.scan().try_into_batch()) {
                        Ok(b) if b.num_rows() as u64 == expect => {}
                        Ok(b) => fail(format!("version {v}: scan returns {} rows, manifest says {expect}", b.num_rows()), "count_mismatch"),
                        Err(e) => fail(format!("version {v}: scan failed: {e}"), "scan_error"),
                    }
                    txn_texts.push(show_op(&mop));
                    segs.push(format!(
                        "valid={} {} wf={} live={} validate={}",
                        is_valid as u8,
                        show_manifest(&man),
                        viol.is_empty() as u8,
                        live as u8,
                        val
                    ));
                    n_commits += 1;
                    prev = Some(man);
                }
            }
            let failed = op_failed && after == before;
            let rest = if failed {
                "!".to_string()
            } else if txn_texts.is_empty() {
                "-".to_string()
            } else {
                txn_texts.join(" :: ")
            };
            let mut out = if failed {
                "err".to_string()
            } else if segs.is_empty() {
                "ok -".to_string()
            } else {
                format!("ok {}", segs.join(" | "))
            };
            if let Some(rec) = &recorded {
                if rec != &rest {
                    res.tags.push("txn_differs_from_recording".into());
                    out.push_str(" rec=diff");
                    if std::env::var("C05_DEBUG").is_ok() {
                        eprintln!("line {ln}: recorded `{rec}` executed `{rest}`");
                    }
                }
            }
            lines_out.push(format!("{} :: {}", hl.show(), rest));
            res.outputs.push(out);
            ds = latest;
        }
        for k in &kinds {
            res.tags.push(format!("txn:{k}"));
        }
        if saw_tomb {
            res.tags.push("tombstones".into());
        }
        res.tags.push(format!("commits:{}", n_commits.min(12)));
        res.nontrivial = n_commits >= 3 && kinds.len() >= 3;
        (lines_out, res)
    }
}

const SCRIPTS: &[&[&str]] = &[
    // the confirmed design-spike history: one partial-schema merge_insert
    &["", "merge_partial"],
    // a data file left with a dropped column and tombstones only
    &["", "addcol", "dropcol", "merge_partial", "merge_partial"],
    &["", "merge_partial", "merge_partial", "compact"],
    &["", "index", "append", "compact", "delete", "compact"],
    &["", "delete", "update", "compact", "restore", "append"],
    &["", "index", "merge_partial", "update", "dropcol"],
    &["", "addcol", "index", "overwrite", "append", "restore", "append"],
    &["", "append", "index", "update", "merge_full", "compact", "index"],
];

impl Prop for C05 {
    fn id(&self) -> &'static str {
        "C05"
    }

    fn budget(&self, tier: Tier) -> usize {
        match tier {
            Tier::Quick => 900,
            Tier::Thorough => 7000,
            Tier::Search => 1500,
        }
    }

    fn gen_case(&mut self, rng: &mut Rng, _tier: Tier, idx: usize) -> Vec<String> {
        let script: Vec<&'static str> = if idx < 3 * SCRIPTS.len() { SCRIPTS[idx % SCRIPTS.len()].to_vec() } else { vec![] };
        let malformed = script.is_empty() && rng.chance(3, 20);
        let len = if script.is_empty() { 3 + rng.usize(8) } else { script.len() };
        let mut r = rng.fork();
        let (lines, res) = self.drive(&[], Some((&mut r, len, malformed, script)));
        self.cache.insert(
            lines.clone(),
            Cached { outputs: res.outputs, failures: res.failures, tags: res.tags, nontrivial: res.nontrivial },
        );
        lines
    }

    fn exec_case(&mut self, lines: &[String]) -> CaseResult {
        if let Some(c) = self.cache.remove(lines) {
            return CaseResult { outputs: c.outputs, failures: c.failures, tags: c.tags, nontrivial: c.nontrivial };
        }
        let (_, res) = self.drive(lines, None);
        res
    }

    fn rule(&self) -> String {
        "the first 24 cases follow 8 scripted op-kind sequences (partial-schema merge_insert right after create; add column, \
         drop column, two partial merge_inserts; index + compaction; delete/update/compact/restore/append …) with random \
         arguments; the rest are random histories of 3-10 ops after a create (2-4 Int64 columns, 2-9 rows, max_rows_per_file \
         2-5, stable row ids 40%): append 18%, delete 11%, update 10%, partial-schema merge_insert 16%, full merge_insert 4%, \
         compact_files 10%, add column 8%, drop column 7%, create BTree index 8%, restore 4%, update_config 2%, overwrite 2%. Every op is chosen \
         from the REAL state (live keys, columns, version) and executed while generating, so the op line can carry the \
         transactions the writers produced; 15% malformed (wrong width, unknown column, duplicate source key, restore of a \
         future version, drop of the key column, broken syntax). Non-trivial = at least 3 commits of at least 3 different \
         transaction kinds."
            .into()
    }
}

fn main() {
    // record mode: turn a file of high-level cases (`# case` separated, lines without ` :: `) into full op lines
    if let Ok(path) = std::env::var("C05_RECORD") {
        let text = std::fs::read_to_string(&path).expect("read C05_RECORD file");
        let mut p = C05 { kit: Kit::new(), cache: HashMap::new() };
        let mut cases: Vec<(String, Vec<String>)> = vec![];
        for l in text.lines() {
            if l.starts_with("# case") || cases.is_empty() {
                cases.push((if l.starts_with("# case") { l.to_string() } else { "# case".to_string() }, vec![]));
                if l.starts_with("# case") {
                    continue;
                }
            }
            if l.starts_with("##") || l.trim().is_empty() {
                continue;
            }
            let hl = l.split(" :: ").next().unwrap().trim().to_string();
            cases.last_mut().unwrap().1.push(format!("{hl} :: ?"));
        }
        for (hdr, c) in cases.iter().filter(|c| !c.1.is_empty()) {
            println!("{hdr}");
            let (lines, res) = p.drive(c, None);
            for (l, o) in lines.iter().zip(res.outputs.iter()) {
                println!("{l}");
                eprintln!("   -> {o}");
            }
            for f in &res.failures {
                eprintln!("   ORACLE {:?}: {}", f.key, f.what);
            }
        }
        return;
    }
    let _ = canon_err;
    run_main(C05 { kit: Kit::new(), cache: HashMap::new() })
}
