//! C38: caching is transparent.
//!
//! Interpreter of the C38 op lines against the REAL lance code, a seeded generator of histories on 1–3 tables that share one
//! `Session`, and the property oracle.
//!
//! Every case is executed twice on two separate in-memory stores (same uris):
//!   * CONTROL: every call goes through a session with caching disabled (`Session::new(0, 0, …)`; moka keeps nothing at
//!     capacity 0).  Its canonical output lines are what the bin prints — the Lean driver predicts them from the table model.
//!   * MAIN: every call goes through ONE shared session whose index / metadata cache capacities are those of the case's
//!     `session` line (`zero` = 0 bytes, `tiny` = 12 000 bytes — entries are evicted all the time —, `large` = 64 MiB).
//!     After each read through the shared session the same read is repeated through a FRESH session on the same store.
//!
//! Oracle (independent of the Lean model): (1) every line of MAIN equals the line of CONTROL — results with any cache
//! capacity are the results with caching disabled, on the write path too (a commit reads the index list of the version it
//! builds on through the cache); (2) every read through the shared session equals the read through the fresh session.
//! A difference on a table whose location was dropped and created again earlier in the case is tagged with the known class
//! (`recreate_*`), any other difference is unclassified.
//!
//! Op lines (`<t>` = table location 0..2):
//!
//! ```text
//! session <zero|tiny|large>            first line of a case
//! create <t> s=<0|1> f=<1..8> <n>      WriteMode::Create, enable_stable_row_ids = s, max_rows_per_file = f, n rows (1..40)
//! append <t> f=<f> <n>                 open through the session, WriteMode::Append through the handle
//! overwrite <t> f=<f> <n>              … WriteMode::Overwrite
//! delete <t> <lo> <hi>                 Dataset::delete("c0 >= lo AND c0 < hi")
//! restore <t> <v>                      checkout_version(v) + restore()
//! index <t>                            create_index(["c0"], BTree, "idx", replace = true)
//! drop <t>                             ObjectStore::remove_dir_all(table root)
//! scan <t> | scanv <t> <v>             ordered scan with _rowid of the latest / of version v
//! count <t> | indices <t> | txn <t> <v> | take <t> <ids>
//! txnh <t>                            read_transaction() on the HANDLE the last successful write at <t> returned (no re-open:
//!                                      nothing re-inserts the transaction before the read)
//! fscan <t> <lo>                       ordered scan with _rowid and filter `c0 >= lo` (uses the scalar index when there is one)
//! ```
//! Rows have one Int64 column `c0`; the values are a per-case counter, so no value is ever written twice.
//!
//! Output: writes `ok v=<version> frags=<id:rows:dels,…>`, `drop` → `ok`, `scan` → `v=<version> rows=<c0,_rowid;…>`,
//! `count` → `n=<k>`, `indices` → `idx=<i<k>:<fragment bitmap a.b.c>,…>` (`i<k>` = k-th index created in the case),
//! `txn` → `txn=<operation> rv=<read_version>`, `take` → `take=<c0,_rowid;…>` (`skip` without stable row ids),
//! `err <kind>` / `err parse`.

use std::sync::Arc;

use hcommon::*;
use lance::dataset::ProjectionRequest;
use lance::session::Session;
use lance::Dataset;
use lance_index::scalar::ScalarIndexParams;
use lance_index::{DatasetIndexExt, IndexType};
use lance_io::object_store::{ObjectStore, ObjectStoreParams, ObjectStoreRegistry};

#[path = "../tablekit.rs"]
#[allow(dead_code)]
mod tablekit;
use tablekit::*;

const LARGE: usize = 64 << 20;
const TINY: usize = 12_000;

#[derive(Clone, Debug)]
enum Op {
    Session(String),
    Create { t: usize, stable: bool, f: usize, n: usize },
    Append { t: usize, f: usize, n: usize },
    Overwrite { t: usize, f: usize, n: usize },
    Delete { t: usize, lo: u64, hi: u64 },
    Restore { t: usize, v: u64 },
    Index { t: usize },
    Drop { t: usize },
    Scan { t: usize },
    ScanV { t: usize, v: u64 },
    Count { t: usize },
    Indices { t: usize },
    Txn { t: usize, v: u64 },
    Take { t: usize, ids: Vec<u64> },
    FScan { t: usize, lo: u64 },
    TxnH { t: usize },
}

impl Op {
    fn table(&self) -> Option<usize> {
        match self {
            Op::Session(_) => None,
            Op::Create { t, .. }
            | Op::Append { t, .. }
            | Op::Overwrite { t, .. }
            | Op::Delete { t, .. }
            | Op::Restore { t, .. }
            | Op::Index { t }
            | Op::Drop { t }
            | Op::Scan { t }
            | Op::ScanV { t, .. }
            | Op::Count { t }
            | Op::Indices { t }
            | Op::Txn { t, .. }
            | Op::Take { t, .. }
            | Op::FScan { t, .. }
            | Op::TxnH { t } => Some(*t),
        }
    }
    fn is_read(&self) -> bool {
        matches!(self, Op::Scan { .. } | Op::ScanV { .. } | Op::Count { .. } | Op::Indices { .. } | Op::Txn { .. } | Op::Take { .. } | Op::FScan { .. } | Op::TxnH { .. })
    }
    fn name(&self) -> &'static str {
        match self {
            Op::Session(_) => "session",
            Op::Create { .. } => "create",
            Op::Append { .. } => "append",
            Op::Overwrite { .. } => "overwrite",
            Op::Delete { .. } => "delete",
            Op::Restore { .. } => "restore",
            Op::Index { .. } => "index",
            Op::Drop { .. } => "drop",
            Op::Scan { .. } => "scan",
            Op::ScanV { .. } => "scanv",
            Op::Count { .. } => "count",
            Op::Indices { .. } => "indices",
            Op::Txn { .. } => "txn",
            Op::Take { .. } => "take",
            Op::FScan { .. } => "fscan",
            Op::TxnH { .. } => "txnh",
        }
    }
}

fn parse_nat(s: &str) -> Option<u64> {
    if s.is_empty() || s.len() > 9 || !s.bytes().all(|b| b.is_ascii_digit()) {
        return None;
    }
    s.parse().ok()
}
fn parse_tab(s: &str) -> Option<usize> {
    parse_nat(s).filter(|t| *t < 3).map(|t| t as usize)
}
fn parse_f(s: &str) -> Option<usize> {
    parse_nat(s.strip_prefix("f=")?).filter(|f| (1..=8).contains(f)).map(|f| f as usize)
}
fn parse_n(s: &str) -> Option<usize> {
    parse_nat(s).filter(|n| (1..=40).contains(n)).map(|n| n as usize)
}
/// `1,2,3` / `-`, every item 1–9 digits (the Lean side: `parseNatList`)
fn parse_ids(s: &str) -> Option<Vec<u64>> {
    if s == "-" {
        return Some(vec![]);
    }
    s.split(',').map(|x| if x.is_empty() || !x.bytes().all(|b| b.is_ascii_digit()) { None } else { x.parse().ok() }).collect()
}

fn parse_op(line: &str) -> Option<Op> {
    let t: Vec<&str> = line.trim().split(' ').filter(|s| !s.is_empty()).collect();
    match t.as_slice() {
        ["session", c] if ["zero", "tiny", "large"].contains(c) => Some(Op::Session(c.to_string())),
        ["create", t, s, f, n] => {
            let stable = match s.strip_prefix("s=")? {
                "0" => false,
                "1" => true,
                _ => return None,
            };
            Some(Op::Create { t: parse_tab(t)?, stable, f: parse_f(f)?, n: parse_n(n)? })
        }
        ["append", t, f, n] => Some(Op::Append { t: parse_tab(t)?, f: parse_f(f)?, n: parse_n(n)? }),
        ["overwrite", t, f, n] => Some(Op::Overwrite { t: parse_tab(t)?, f: parse_f(f)?, n: parse_n(n)? }),
        ["delete", t, lo, hi] => Some(Op::Delete { t: parse_tab(t)?, lo: parse_nat(lo)?, hi: parse_nat(hi)? }),
        ["restore", t, v] => Some(Op::Restore { t: parse_tab(t)?, v: parse_nat(v)? }),
        ["index", t] => Some(Op::Index { t: parse_tab(t)? }),
        ["drop", t] => Some(Op::Drop { t: parse_tab(t)? }),
        ["scan", t] => Some(Op::Scan { t: parse_tab(t)? }),
        ["scanv", t, v] => Some(Op::ScanV { t: parse_tab(t)?, v: parse_nat(v)? }),
        ["count", t] => Some(Op::Count { t: parse_tab(t)? }),
        ["indices", t] => Some(Op::Indices { t: parse_tab(t)? }),
        ["txn", t, v] => Some(Op::Txn { t: parse_tab(t)?, v: parse_nat(v)? }),
        ["take", t, ids] => Some(Op::Take { t: parse_tab(t)?, ids: parse_ids(ids)? }),
        ["txnh", t] => Some(Op::TxnH { t: parse_tab(t)? }),
        ["fscan", t, lo] => Some(Op::FScan { t: parse_tab(t)?, lo: parse_nat(lo)? }),
        _ => None,
    }
}

/// one execution of a case: its session, store anchor, row-value counter and index labels
struct Run {
    /// the session every call of this run goes through
    session: Arc<Session>,
    registry: Arc<ObjectStoreRegistry>,
    /// keeps the in-memory store alive for the whole run
    anchor: Option<Arc<ObjectStore>>,
    uris: [String; 3],
    next_val: i64,
    /// uuids of the indices created in this run, in creation order
    labels: Vec<String>,
    /// read every read again through a fresh session
    double_read: bool,
    /// the handle the last successful write at each location returned
    handles: [Option<Dataset>; 3],
}

struct C38 {
    kit: Kit,
    case_no: u64,
}

fn err_line(e: &KitError) -> String {
    format!("err {}", e.kind.as_str())
}

impl C38 {
    fn new_run(&mut self, cap: usize, double_read: bool) -> Run {
        let registry = Arc::new(ObjectStoreRegistry::default());
        let session = Arc::new(Session::new(cap, cap, registry.clone()));
        let n = self.case_no;
        let uris = [format!("memory://c38_{n}_t0"), format!("memory://c38_{n}_t1"), format!("memory://c38_{n}_t2")];
        let anchor = self
            .kit
            .block_on(ObjectStore::from_uri_and_params(registry.clone(), &uris[0], &ObjectStoreParams::default()))
            .ok()
            .map(|(s, _)| s);
        Run { session, registry, anchor, uris, next_val: 0, labels: vec![], double_read, handles: [None, None, None] }
    }

    fn rows(run: &mut Run, n: usize) -> Vec<Row> {
        let r = (0..n).map(|i| vec![Some(run.next_val + i as i64)]).collect();
        run.next_val += n as i64;
        r
    }

    fn write_line(ds: &Dataset) -> String {
        format!("ok v={} frags={}", ds.version().version, show_frags(&Kit::fragments(ds)))
    }

    fn write_inner(kit: &Kit, run: &mut Run, op: &Op) -> KitResult<String> {
        let spec = SchemaSpec::ints(1);
        match op {
            Op::Create { t, stable, f, n } => {
                let knobs = Knobs { max_rows_per_file: Some(*f), stable_row_ids: *stable, ..Default::default() };
                // no rows are drawn from the counter when the table is already there (the model does the same)
                if kit.open(&run.uris[*t], None).is_ok() {
                    return Err(KitError { kind: ErrKind::AlreadyExists, msg: "exists".into() });
                }
                let rows = Self::rows(run, *n);
                let ds = kit.create(&run.uris[*t], &spec, &[rows], &knobs)?;
                let l = Self::write_line(&ds);
                run.handles[*t] = Some(ds);
                Ok(l)
            }
            Op::Append { t, f, n } | Op::Overwrite { t, f, n } => {
                let d = kit.open(&run.uris[*t], None)?;
                let knobs = Knobs {
                    max_rows_per_file: Some(*f),
                    stable_row_ids: d.manifest().uses_stable_row_ids(),
                    ..Default::default()
                };
                let rows = Self::rows(run, *n);
                let ds = if matches!(op, Op::Append { .. }) {
                    kit.append(&d, &spec, &[rows], &knobs)?
                } else {
                    kit.overwrite(&d, &spec, &[rows], &knobs)?
                };
                let l = Self::write_line(&ds);
                run.handles[*t] = Some(ds);
                Ok(l)
            }
            Op::Delete { t, lo, hi } => {
                let mut d = kit.open(&run.uris[*t], None)?;
                kit.lance_call("delete", d.delete(&format!("c0 >= {lo} AND c0 < {hi}")))?;
                let l = Self::write_line(&d);
                run.handles[*t] = Some(d);
                Ok(l)
            }
            Op::Restore { t, v } => {
                let d = kit.open(&run.uris[*t], None)?;
                let mut old = kit.lance_call("checkout_version", d.checkout_version(*v))?;
                kit.lance_call("restore", old.restore())?;
                let l = Self::write_line(&old);
                run.handles[*t] = Some(old);
                Ok(l)
            }
            Op::Index { t } => {
                let mut d = kit.open(&run.uris[*t], None)?;
                kit.lance_call(
                    "create_index",
                    d.create_index(&["c0"], IndexType::BTree, Some("idx".into()), &ScalarIndexParams::default(), true),
                )?;
                let l = Self::write_line(&d);
                run.handles[*t] = Some(d);
                Ok(l)
            }
            Op::Drop { t } => {
                // a table that is not there: not_found (decided by opening it, like every other op)
                kit.open(&run.uris[*t], None)?;
                let (store, path) = kit
                    .block_on(ObjectStore::from_uri_and_params(run.registry.clone(), &run.uris[*t], &ObjectStoreParams::default()))
                    .map_err(KitError::from)?;
                kit.lance_call("remove_dir_all", store.remove_dir_all(path))?;
                run.handles[*t] = None;
                Ok("ok".into())
            }
            _ => Err(KitError::other("not a write")),
        }
    }

    /// a write or drop through the run's session
    fn exec_write(&mut self, run: &mut Run, op: &Op) -> String {
        self.kit.session = run.session.clone();
        let line = match Self::write_inner(&self.kit, run, op) {
            Ok(l) => l,
            Err(e) => err_line(&e),
        };
        // learn the uuid of a new index through a session of its own (no cache involved)
        if matches!(op, Op::Index { .. }) && line.starts_with("ok") {
            let t = op.table().unwrap();
            self.kit.session = Arc::new(Session::new(0, 0, run.registry.clone()));
            if let Ok(d) = self.kit.open(&run.uris[t], None) {
                if let Ok(ix) = self.kit.block_on(d.load_indices()) {
                    for i in ix.iter() {
                        let u = i.uuid.to_string();
                        if !run.labels.contains(&u) {
                            run.labels.push(u);
                        }
                    }
                }
            }
            self.kit.session = run.session.clone();
        }
        line
    }

    fn read_inner(kit: &Kit, run: &Run, op: &Op, fresh: bool) -> KitResult<(String, String)> {
        let spec = SchemaSpec::ints(1);
        let scan_line = |d: &Dataset| -> KitResult<String> {
            let rows = kit.scan(d, &spec, &ScanOpts { ordered: true, with_row_id: true, ..Default::default() })?;
            Ok(format!("v={} rows={}", d.version().version, show_rows(&rows)))
        };
        match op {
            Op::Scan { t } => {
                let d = kit.open(&run.uris[*t], None)?;
                let l = scan_line(&d)?;
                Ok((l.clone(), l))
            }
            Op::ScanV { t, v } => {
                let d = kit.open(&run.uris[*t], None)?;
                let at = kit.lance_call("checkout_version", d.checkout_version(*v))?;
                let l = scan_line(&at)?;
                Ok((l.clone(), l))
            }
            Op::FScan { t, lo } => {
                let d = kit.open(&run.uris[*t], None)?;
                let f = format!("c0 >= {lo}");
                let rows =
                    kit.scan(&d, &spec, &ScanOpts { ordered: true, with_row_id: true, filter: Some(&f), ..Default::default() })?;
                let l = format!("v={} rows={}", d.version().version, show_rows(&rows));
                Ok((l.clone(), l))
            }
            Op::Count { t } => {
                let d = kit.open(&run.uris[*t], None)?;
                let l = format!("n={}", kit.count_rows(&d, None)?);
                Ok((l.clone(), l))
            }
            Op::Indices { t } => {
                let d = kit.open(&run.uris[*t], None)?;
                let ix = kit.lance_call("load_indices", d.load_indices())?;
                let mut parts = vec![];
                let mut detail = vec![];
                for i in ix.iter() {
                    let u = i.uuid.to_string();
                    let label = match run.labels.iter().position(|x| *x == u) {
                        Some(k) => format!("i{k}"),
                        None => "i?".into(),
                    };
                    let bm = match &i.fragment_bitmap {
                        Some(b) if !b.is_empty() => b.iter().map(|x| x.to_string()).collect::<Vec<_>>().join("."),
                        _ => "-".into(),
                    };
                    parts.push(format!("{label}:{bm}"));
                    detail.push(format!("{u}:{bm}:{}:{}", i.name, i.dataset_version));
                }
                let l = if parts.is_empty() { "idx=-".to_string() } else { format!("idx={}", parts.join(",")) };
                Ok((l, detail.join(",")))
            }
            Op::Txn { t, v } => {
                let d = kit.open(&run.uris[*t], None)?;
                let tx = kit.lance_call("read_transaction_by_version", d.read_transaction_by_version(*v))?;
                match tx {
                    None => Ok(("txn=none".into(), "none".into())),
                    Some(tx) => {
                        let dbg = format!("{:?}", tx.operation);
                        let kind: String = dbg.chars().take_while(|c| c.is_ascii_alphanumeric()).collect();
                        Ok((format!("txn={kind} rv={}", tx.read_version), format!("{} {} {kind}", tx.uuid, tx.read_version)))
                    }
                }
            }
            Op::TxnH { t } => {
                let h = run.handles[*t].as_ref().ok_or_else(|| KitError { kind: ErrKind::NotFound, msg: "no handle".into() })?;
                // shared session: the handle itself; fresh session: the same version opened through the fresh session
                let opened;
                let d = if fresh {
                    opened = kit.open(&run.uris[*t], Some(h.version().version))?;
                    &opened
                } else {
                    h
                };
                let tx = kit.lance_call("read_transaction", d.read_transaction())?;
                match tx {
                    None => Ok(("txn=none".into(), "none".into())),
                    Some(tx) => {
                        let dbg = format!("{:?}", tx.operation);
                        let kind: String = dbg.chars().take_while(|c| c.is_ascii_alphanumeric()).collect();
                        Ok((format!("txn={kind} rv={}", tx.read_version), format!("{} {} {kind}", tx.uuid, tx.read_version)))
                    }
                }
            }
            Op::Take { t, ids } => {
                let d = kit.open(&run.uris[*t], None)?;
                if !d.manifest().uses_stable_row_ids() {
                    return Ok(("skip".into(), "skip".into()));
                }
                let pr = ProjectionRequest::from_columns(["c0", "_rowid"], d.schema());
                let b = kit.lance_call("take_rows", d.take_rows(ids, pr))?;
                let rows = spec.decode(&b, &["_rowid"]).map_err(|e| KitError::other(format!("decode: {}", e.0)))?;
                let l = format!("take={}", show_rows(&rows));
                Ok((l.clone(), l))
            }
            _ => Err(KitError::other("not a read")),
        }
    }

    /// a read through `session`; returns (canonical line, detailed text for the shared-vs-fresh comparison)
    fn exec_read(&mut self, run: &Run, session: Arc<Session>, op: &Op, fresh: bool) -> (String, String) {
        self.kit.session = session;
        match Self::read_inner(&self.kit, run, op, fresh) {
            Ok(x) => x,
            Err(e) => (err_line(&e), format!("err {} {}", e.kind.as_str(), e.msg.chars().take(160).collect::<String>())),
        }
    }

    fn exec_read_guarded(&mut self, run: &Run, session: Arc<Session>, op: &Op, fresh: bool) -> (String, String) {
        match std::panic::catch_unwind(std::panic::AssertUnwindSafe(|| self.exec_read(run, session, op, fresh))) {
            Ok(x) => x,
            Err(e) => {
                let msg = e
                    .downcast_ref::<String>()
                    .cloned()
                    .or_else(|| e.downcast_ref::<&str>().map(|s| s.to_string()))
                    .unwrap_or_else(|| "panic".into());
                ("err panic".into(), format!("err panic {msg}"))
            }
        }
    }

    /// run every line; returns the canonical lines and, per line, a shared-vs-fresh difference if there is one
    fn run_case(&mut self, ops: &[Option<Op>], cap: usize, double_read: bool) -> (Vec<String>, Vec<Option<String>>) {
        let mut run = self.new_run(cap, double_read);
        let mut out = vec![];
        let mut diffs = vec![];
        for op in ops {
            let mut diff = None;
            let line = match op {
                None => "err parse".to_string(),
                Some(Op::Session(_)) => "ok".to_string(),
                Some(op) if op.is_read() => {
                    let shared = run.session.clone();
                    let (line, detail) = self.exec_read_guarded(&run, shared, op, false);
                    if run.double_read {
                        let fresh = Arc::new(Session::new(LARGE, LARGE, run.registry.clone()));
                        let (fline, fdetail) = self.exec_read_guarded(&run, fresh, op, true);
                        if fline != line || (fdetail != detail && !line.starts_with("err")) {
                            diff = Some(format!("shared session: {line} [{detail}]; fresh session: {fline} [{fdetail}]"));
                        }
                    }
                    line
                }
                Some(op) => {
                    // a panic inside lance is an answer of this call (`err panic`), not the end of the case
                    match std::panic::catch_unwind(std::panic::AssertUnwindSafe(|| self.exec_write(&mut run, op))) {
                        Ok(l) => l,
                        Err(_) => "err panic".to_string(),
                    }
                }
            };
            out.push(line);
            diffs.push(diff);
        }
        run.handles = [None, None, None];
        drop(run.anchor.take());
        (out, diffs)
    }
}

fn cap_of(name: &str) -> usize {
    match name {
        "zero" => 0,
        "tiny" => TINY,
        _ => LARGE,
    }
}

impl Prop for C38 {
    fn id(&self) -> &'static str {
        "C38"
    }

    fn budget(&self, tier: Tier) -> usize {
        match tier {
            Tier::Quick => 450,
            Tier::Thorough => 8000,
            Tier::Search => 2500,
        }
    }

    fn gen_case(&mut self, rng: &mut Rng, _tier: Tier, idx: usize) -> Vec<String> {
        let cap = ["large", "tiny", "zero", "large"][idx % 4];
        let mut lines = vec![format!("session {cap}")];
        if idx % 10 == 9 {
            // the transaction of a version of a dropped table must not be served for the table created at its place:
            // read it (handle and re-open), drop, create again, read through the handle the write returned
            let cap = ["large", "tiny", "zero"][(idx / 10) % 3];
            let mut lines = vec![format!("session {cap}")];
            let t = rng.usize(3);
            let s = rng.usize(2);
            lines.push(format!("create {t} s={s} f={} {}", 1 + rng.usize(3), 1 + rng.usize(5)));
            lines.push(format!("txnh {t}"));
            if rng.chance(1, 2) {
                lines.push(format!("append {t} f=2 {}", 1 + rng.usize(3)));
                lines.push(format!("txnh {t}"));
                lines.push(format!("txn {t} 1"));
            }
            lines.push(format!("drop {t}"));
            lines.push(format!("txnh {t}"));
            lines.push(format!("create {t} s={s} f={} {}", 1 + rng.usize(3), 1 + rng.usize(5)));
            lines.push(format!("txnh {t}"));
            lines.push(format!("txn {t} 1"));
            if rng.chance(1, 2) {
                lines.push(format!("delete {t} 0 1"));
                lines.push(format!("txnh {t}"));
                lines.push(format!("txn {t} 2"));
            }
            return lines;
        }
        let ntab = 1 + rng.usize(3);
        let recreate_ok = rng.chance(35, 100);
        let malformed = rng.chance(12, 100);
        // generator-side sketch of the state
        let mut exists = [false; 3];
        let mut stable = [false; 3];
        let mut nver = [0u64; 3];
        let mut dropped = [false; 3];
        let mut next_val = 0u64;
        let mut next_rid = [0u64; 3];
        let steps = 6 + rng.usize(9);
        fn reads(rng: &mut Rng, t: usize, nver: u64, stable: bool, next_rid: u64, next_val: u64, lines: &mut Vec<String>) {
            let k = 1 + rng.usize(3);
            for _ in 0..k {
                match rng.usize(10) {
                    8 => lines.push(format!("fscan {t} {}", next_val.saturating_sub(rng.below(9)))),
                    9 => lines.push(format!("txnh {t}")),
                    0 | 1 | 2 => lines.push(format!("scan {t}")),
                    3 => lines.push(format!("count {t}")),
                    4 => lines.push(format!("indices {t}")),
                    5 => lines.push(format!("txn {t} {}", 1 + rng.below(nver.max(1)))),
                    6 => lines.push(format!("scanv {t} {}", 1 + rng.below(nver.max(1)))),
                    _ => {
                        if stable {
                            let hi = next_rid + 2;
                            let ids: Vec<u64> = (0..hi).filter(|_| rng.chance(3, 4)).collect();
                            lines.push(format!("take {t} {}", show_nat_list(ids)));
                        } else {
                            lines.push(format!("scan {t}"));
                        }
                    }
                }
            }
        }
        for _ in 0..steps {
            let t = rng.usize(ntab);
            if !exists[t] {
                if dropped[t] && !recreate_ok {
                    continue;
                }
                let s = rng.chance(2, 3);
                let f = 1 + rng.usize(3);
                let n = 1 + rng.usize(6);
                lines.push(format!("create {t} s={} f={f} {n}", s as u8));
                exists[t] = true;
                stable[t] = s;
                nver[t] = 1;
                next_val += n as u64;
                next_rid[t] = if s { n as u64 } else { 0 };
                reads(rng, t, nver[t], stable[t], next_rid[t], next_val, &mut lines);
                continue;
            }
            let f = 1 + rng.usize(3);
            let n = 1 + rng.usize(5);
            match rng.usize(20) {
                0..=4 => {
                    lines.push(format!("append {t} f={f} {n}"));
                    next_val += n as u64;
                    if stable[t] {
                        next_rid[t] += n as u64;
                    }
                    nver[t] += 1;
                }
                5..=8 => {
                    lines.push(format!("overwrite {t} f={f} {n}"));
                    next_val += n as u64;
                    if stable[t] {
                        next_rid[t] += n as u64;
                    }
                    nver[t] += 1;
                }
                9..=11 => {
                    let lo = next_val.saturating_sub(1 + rng.below(8));
                    let hi = lo + 1 + rng.below(3);
                    lines.push(format!("delete {t} {lo} {hi}"));
                    nver[t] += 1;
                }
                12 | 13 => {
                    lines.push(format!("restore {t} {}", 1 + rng.below(nver[t])));
                    nver[t] += 1;
                }
                14 | 15 => {
                    lines.push(format!("index {t}"));
                    nver[t] += 1;
                }
                16 | 17 | 18 => {
                    if rng.chance(1, 2) || recreate_ok {
                        lines.push(format!("drop {t}"));
                        exists[t] = false;
                        dropped[t] = true;
                        continue;
                    } else {
                        lines.push(format!("append {t} f={f} {n}"));
                        next_val += n as u64;
                        if stable[t] {
                            next_rid[t] += n as u64;
                        }
                        nver[t] += 1;
                    }
                }
                _ => {}
            }
            reads(rng, t, nver[t], stable[t], next_rid[t], next_val, &mut lines);
        }
        if malformed && lines.len() > 2 {
            let i = 1 + rng.usize(lines.len() - 1);
            let bad = match rng.usize(6) {
                0 => "scan 3".to_string(),
                1 => "append 0 f=0 3".to_string(),
                2 => format!("restore {} 99", rng.usize(ntab)),
                3 => format!("create {} s=1 f=2 3", rng.usize(ntab)),
                4 => "take 0 1,,2".to_string(),
                _ => format!("scanv {} 77", rng.usize(ntab)),
            };
            // an inserted create may change what later lines do; both sides interpret the same lines
            lines.insert(i, bad);
        }
        lines
    }

    fn exec_case(&mut self, lines: &[String]) -> CaseResult {
        self.case_no += 1;
        let ops: Vec<Option<Op>> = lines.iter().map(|l| parse_op(l)).collect();
        let cap_name = ops
            .iter()
            .find_map(|o| match o {
                Some(Op::Session(c)) => Some(c.clone()),
                _ => None,
            })
            .unwrap_or_else(|| "large".into());
        let mut res = CaseResult::default();
        res.tags.push(format!("cap:{cap_name}"));

        // CONTROL: caching disabled
        let (control, _) = self.run_case(&ops, 0, false);
        // MAIN: one shared session with the case's capacities; reads repeated through a fresh session
        let (main, diffs) = self.run_case(&ops, cap_of(&cap_name), true);

        // bookkeeping for the classification: locations created again after a drop
        let mut dropped = [false; 3];
        let mut recreated = [false; 3];
        let mut any_recreate = false;
        let mut reads_after_two_versions = 0;
        let mut writes = 0;
        let mut reported = false;
        for (ln, op) in ops.iter().enumerate() {
            let ok = control[ln].starts_with("ok");
            match op {
                None => res.tags.push("op:parse_error".into()),
                Some(op) => {
                    res.tags.push(format!("op:{}", op.name()));
                    if control[ln].starts_with("err") {
                        res.tags.push(format!("{}:{}", op.name(), control[ln].replace(' ', "_")));
                    }
                    match op {
                        Op::Create { t, .. } if ok => {
                            if dropped[*t] {
                                recreated[*t] = true;
                                any_recreate = true;
                            }
                            writes += 1;
                        }
                        Op::Drop { t } if ok => dropped[*t] = true,
                        Op::Session(_) => {}
                        _ if ok => writes += 1,
                        _ => {}
                    }
                    if op.is_read() && writes >= 2 && !control[ln].starts_with("err") {
                        reads_after_two_versions += 1;
                    }
                }
            }
            let t = op.as_ref().and_then(|o| o.table());
            let opn = op.as_ref().map(|o| o.name()).unwrap_or("");
            let class = || -> Option<String> {
                if !t.map(|t| recreated[t]).unwrap_or(false) {
                    return None;
                }
                match opn {
                    "scan" | "scanv" | "take" => Some("recreate_row_ids".into()),
                    "fscan" => Some("recreate_index_metadata".into()),
                    "indices" | "append" | "overwrite" | "delete" | "restore" | "index" => Some("recreate_index_metadata".into()),
                    _ => None,
                }
            };
            if (opn == "txn" || opn == "txnh") && diffs[ln].is_some() {
                // the shared session and a fresh session read different transactions from the SAME store: never matched by a
                // known finding, and reported even when an earlier line of the case already differed
                res.failures.push(OracleFailure {
                    what: format!(
                        "line {ln} `{}` (cache capacity {cap_name}): the transaction read through the shared session is not the one stored: shared `{}`, caching disabled `{}`; {}",
                        lines[ln],
                        main[ln],
                        control[ln],
                        diffs[ln].clone().unwrap_or_default()
                    ),
                    key: None,
                    line: ln,
                });
                res.tags.push("oracle:stale_transaction".into());
                continue;
            }
            if reported {
                continue;
            }
            if main[ln] != control[ln] {
                res.failures.push(OracleFailure {
                    what: format!(
                        "line {ln} `{}`: with cache capacity {cap_name} the session answers `{}`, with caching disabled `{}`",
                        lines[ln], main[ln], control[ln]
                    ),
                    key: class(),
                    line: ln,
                });
                res.tags.push("oracle:main_vs_control".into());
                reported = true;
            } else if let Some(d) = &diffs[ln] {
                res.failures.push(OracleFailure {
                    what: format!("line {ln} `{}` (cache capacity {cap_name}): {d}", lines[ln]),
                    key: class(),
                    line: ln,
                });
                res.tags.push("oracle:shared_vs_fresh".into());
                reported = true;
            }
        }
        if any_recreate {
            res.tags.push("history:recreate".into());
        }
        res.nontrivial = reads_after_two_versions >= 1;
        res.outputs = control;
        res
    }

    fn rule(&self) -> String {
        "seeded histories of 6-14 steps on 1-3 table locations sharing one session (create with/without stable row ids, append, \
         overwrite, delete by value range, restore, create index, drop; 35 % of the cases may create a location again after a drop), \
         1-3 reads after every step (scan with _rowid, count, load_indices, read_transaction_by_version, scan of an old version, \
         take_rows, filtered scan c0 >= x); cache capacities cycle large / tiny / zero / large; 12 % of the cases get one malformed or failing line. Every \
         case runs on a session with caching disabled (printed, compared with the model) and on the shared session (compared line by \
         line with the former, and every read with a fresh session). Non-trivial: a read that succeeds after at least two commits."
            .into()
    }
}

fn main() {
    run_main(C38 { kit: Kit::new(), case_no: 0 })
}
