//! C12: delete, update and merge_insert follow SQL semantics on the model table.
//!
//! Interpreter of the C12 op lines against the REAL lance code (`DeleteBuilder`, `UpdateBuilder`, `MergeInsertBuilder`,
//! `Dataset::count_rows(filter)`, `count_deleted_rows`, BTree `create_index`), a seeded generator of short histories, and
//! the property oracle.  Uses the table kit (`../tablekit.rs`, Int64 columns only) and the query kit (`../querykit.rs`).
//!
//! # Op lines (one table per case; tokens separated by single spaces)
//!
//! ```text
//! create f=<nat> s=<0|1> k=<K> <rows>      WriteMode::Create, max_rows_per_file = f (rows/f fragments), stable row ids s, K in 1..=4
//! append <rows>                             WriteMode::Append (one more fragment per f rows)
//! index c<i>                                create_index(BTree) on column c<i> (replace = true)
//! delete <expr>                             DeleteBuilder::new(ds, sql(expr)).conflict_retries(0)
//! count <expr>                              Dataset::count_rows(Some(sql(expr)))
//! update <assigns> <expr|->                 UpdateBuilder .set(..)* [.update_where(sql(expr))]; `-` = no WHERE clause
//!      assigns ::= assign ("," assign)*     assign ::= c<i>:=<int> | c<i>:=n | c<i>:=c<j> | c<i>:=c<j>+<int>   (distinct targets)
//! merge on=<c..,> m=<nothing|all|fail|if> nm=<insert|nothing> ns=<keep|delete|if> ix=<0|1> cols=<c..,> <rows> [<expr>] [<expr>]
//!      on = key columns; m = when_matched (if: UpdateIf, its condition is the first trailing <expr>, over the combined row:
//!      c0..c{K-1} = source.c*, cK..c{2K-1} = target.c*); nm = when_not_matched; ns = when_not_matched_by_source (if: DeleteIf,
//!      its condition is the last trailing <expr>, over the target row); ix = use_index; cols = the columns of the source
//!      batch, strictly increasing (a proper subset = partial schema); rows have one cell per source column.
//! ```
//! `<expr>` is the query kit's prefix form.  Output: `ok [ins= upd= del=] [upd=] n=<count_rows> rows=<sorted scan>` /
//! `ok n=<k>` (count) / `ok` (index) / `err <kind>` / `err parse` / `err no_table`.
//!
//! # Oracle (independent of the Lean model)
//!
//! The harness keeps its own table (a sorted multiset of rows) and applies the SQL meaning of every op with the query
//! kit's `eval3`: DELETE removes the rows on which the predicate is TRUE; UPDATE maps exactly those rows through the
//! assignments (all right-hand sides read the OLD row); MERGE is the SQL MERGE of the docs of merge_insert.rs (`sql_merge`).
//! After every op: scan (as a multiset) = expected, `count_rows` = its size, Σ physical_rows − `count_deleted_rows` = its size,
//! returned statistics = expected statistics; after a failed op the table is unchanged; a fresh handle sees the same.
//! When merge_insert deviates, the oracle re-computes the expectation with the known deviations switched on (`Dev`) to name
//! the defect class in `key`; an unexplained difference is `merge_mismatch`.

use std::sync::Arc;

use arrow_array::{Int64Array, RecordBatch, RecordBatchIterator};
use arrow_schema::{DataType, Field, Schema as ArrowSchema};
use hcommon::*;
use lance::dataset::{
    DeleteBuilder, MergeInsertBuilder, UpdateBuilder, WhenMatched, WhenNotMatched, WhenNotMatchedBySource,
};
use lance::Dataset;
use lance_index::scalar::ScalarIndexParams;
use lance_index::{DatasetIndexExt, IndexType};

#[path = "../tablekit.rs"]
#[allow(dead_code)]
mod tablekit;
use tablekit::*;

#[path = "../querykit.rs"]
#[allow(dead_code)]
mod querykit;
use querykit::{eval3, Expr};

// ------------------------------------------------------------------------------------------------
// ops
// ------------------------------------------------------------------------------------------------

#[derive(Clone, Debug, PartialEq)]
enum Rhs {
    Lit(Cell),
    Col(usize),
    ColPlus(usize, i64),
}

#[derive(Clone, Debug, PartialEq)]
enum Matched {
    Nothing,
    All,
    Fail,
    If(Expr),
}

#[derive(Clone, Debug, PartialEq)]
enum NotBySource {
    Keep,
    Delete,
    If(Expr),
}

#[derive(Clone, Debug, PartialEq)]
struct MergeCfg {
    on: Vec<usize>,
    m: Matched,
    insert: bool,
    ns: NotBySource,
    use_index: bool,
    cols: Vec<usize>,
}

#[derive(Clone, Debug, PartialEq)]
enum Op {
    Create { f: usize, stable: bool, k: usize, rows: Vec<Row> },
    Append { rows: Vec<Row> },
    Index(usize),
    Delete(Expr),
    Count(Expr),
    Update { assigns: Vec<(usize, Rhs)>, cond: Option<Expr> },
    Merge { cfg: MergeCfg, rows: Vec<Row> },
}

fn show_cols(cs: &[usize]) -> String {
    cs.iter().map(|c| format!("c{c}")).collect::<Vec<_>>().join(",")
}

fn parse_cols(s: &str) -> Option<Vec<usize>> {
    s.split(',').map(querykit::parse_col).collect()
}

fn show_rhs(r: &Rhs) -> String {
    match r {
        Rhs::Lit(c) => show_cell(c),
        Rhs::Col(j) => format!("c{j}"),
        Rhs::ColPlus(j, k) => format!("c{j}+{k}"),
    }
}

fn parse_rhs(s: &str) -> Option<Rhs> {
    if s == "n" {
        return Some(Rhs::Lit(None));
    }
    if s.starts_with('c') {
        return match s.split_once('+') {
            Some((c, k)) => Some(Rhs::ColPlus(querykit::parse_col(c)?, querykit::parse_lit(k)?)),
            None => Some(Rhs::Col(querykit::parse_col(s)?)),
        };
    }
    querykit::parse_lit(s).map(|v| Rhs::Lit(Some(v)))
}

fn show_assigns(a: &[(usize, Rhs)]) -> String {
    a.iter().map(|(c, r)| format!("c{c}:={}", show_rhs(r))).collect::<Vec<_>>().join(",")
}

fn parse_assigns(s: &str) -> Option<Vec<(usize, Rhs)>> {
    let v: Vec<(usize, Rhs)> = s
        .split(',')
        .map(|a| {
            let (c, r) = a.split_once(":=")?;
            Some((querykit::parse_col(c)?, parse_rhs(r)?))
        })
        .collect::<Option<_>>()?;
    // distinct targets
    for i in 0..v.len() {
        if v[..i].iter().any(|x| x.0 == v[i].0) {
            return None;
        }
    }
    Some(v)
}

fn show_op(op: &Op) -> String {
    match op {
        Op::Create { f, stable, k, rows } => format!("create f={f} s={} k={k} {}", *stable as u8, show_rows(rows)),
        Op::Append { rows } => format!("append {}", show_rows(rows)),
        Op::Index(c) => format!("index c{c}"),
        Op::Delete(e) => format!("delete {}", querykit::show(e)),
        Op::Count(e) => format!("count {}", querykit::show(e)),
        Op::Update { assigns, cond } => {
            format!("update {} {}", show_assigns(assigns), cond.as_ref().map(querykit::show).unwrap_or_else(|| "-".into()))
        }
        Op::Merge { cfg, rows } => {
            let mut s = format!(
                "merge on={} m={} nm={} ns={} ix={} cols={} {}",
                show_cols(&cfg.on),
                match &cfg.m {
                    Matched::Nothing => "nothing",
                    Matched::All => "all",
                    Matched::Fail => "fail",
                    Matched::If(_) => "if",
                },
                if cfg.insert { "insert" } else { "nothing" },
                match &cfg.ns {
                    NotBySource::Keep => "keep",
                    NotBySource::Delete => "delete",
                    NotBySource::If(_) => "if",
                },
                cfg.use_index as u8,
                show_cols(&cfg.cols),
                show_rows(rows)
            );
            if let Matched::If(e) = &cfg.m {
                s.push(' ');
                s.push_str(&querykit::show(e));
            }
            if let NotBySource::If(e) = &cfg.ns {
                s.push(' ');
                s.push_str(&querykit::show(e));
            }
            s
        }
    }
}

fn strictly_increasing(v: &[usize]) -> bool {
    v.windows(2).all(|w| w[0] < w[1])
}

fn distinct(v: &[usize]) -> bool {
    (0..v.len()).all(|i| !v[..i].contains(&v[i]))
}

/// syntax only (the same checks as the Lean driver's `parseOp`); semantic checks against the table happen at execution
fn parse_op(line: &str) -> Option<Op> {
    let t: Vec<&str> = line.split(' ').filter(|s| !s.is_empty()).collect();
    match *t.first()? {
        "create" if t.len() == 5 => {
            let f: usize = parse_nat(t[1].strip_prefix("f=")?)?;
            let stable = match t[2].strip_prefix("s=")? {
                "0" => false,
                "1" => true,
                _ => return None,
            };
            let k: usize = parse_nat(t[3].strip_prefix("k=")?)?;
            if !(1..=4).contains(&k) || f == 0 || f > 1000 {
                return None;
            }
            let rows = parse_rows(t[4])?;
            if !rows.iter().all(|r| r.len() == k) {
                return None;
            }
            Some(Op::Create { f, stable, k, rows })
        }
        "append" if t.len() == 2 => Some(Op::Append { rows: parse_rows(t[1])? }),
        "index" if t.len() == 2 => Some(Op::Index(querykit::parse_col(t[1])?)),
        "delete" => Some(Op::Delete(querykit::parse_all(&t[1..])?)),
        "count" => Some(Op::Count(querykit::parse_all(&t[1..])?)),
        "update" if t.len() >= 3 => {
            let assigns = parse_assigns(t[1])?;
            let cond = if t.len() == 3 && t[2] == "-" { None } else { Some(querykit::parse_all(&t[2..])?) };
            Some(Op::Update { assigns, cond })
        }
        "merge" if t.len() >= 8 => {
            let on = parse_cols(t[1].strip_prefix("on=")?)?;
            let m = t[2].strip_prefix("m=")?;
            let nm = t[3].strip_prefix("nm=")?;
            let ns = t[4].strip_prefix("ns=")?;
            let use_index = match t[5].strip_prefix("ix=")? {
                "0" => false,
                "1" => true,
                _ => return None,
            };
            let cols = parse_cols(t[6].strip_prefix("cols=")?)?;
            if !strictly_increasing(&cols) || !distinct(&on) {
                return None;
            }
            let rows = parse_rows(t[7])?;
            if !rows.iter().all(|r| r.len() == cols.len()) {
                return None;
            }
            let mut rest = &t[8..];
            let m = match m {
                "nothing" => Matched::Nothing,
                "all" => Matched::All,
                "fail" => Matched::Fail,
                "if" => {
                    let (e, n) = querykit::parse_prefix(rest)?;
                    rest = &rest[n..];
                    Matched::If(e)
                }
                _ => return None,
            };
            let insert = match nm {
                "insert" => true,
                "nothing" => false,
                _ => return None,
            };
            let ns = match ns {
                "keep" => NotBySource::Keep,
                "delete" => NotBySource::Delete,
                "if" => {
                    let (e, n) = querykit::parse_prefix(rest)?;
                    rest = &rest[n..];
                    NotBySource::If(e)
                }
                _ => return None,
            };
            if !rest.is_empty() {
                return None;
            }
            Some(Op::Merge { cfg: MergeCfg { on, m, insert, ns, use_index, cols }, rows })
        }
        _ => None,
    }
}

fn parse_nat(s: &str) -> Option<usize> {
    if s.is_empty() || s.len() > 9 || !s.bytes().all(|b| b.is_ascii_digit()) {
        return None;
    }
    s.parse().ok()
}

// ------------------------------------------------------------------------------------------------
// SQL reference semantics (oracle side)
// ------------------------------------------------------------------------------------------------

fn wrap_add(a: i64, b: i64) -> i64 {
    a.wrapping_add(b)
}

fn apply_assigns(assigns: &[(usize, Rhs)], old: &Row) -> Row {
    let mut new = old.clone();
    for (c, r) in assigns {
        new[*c] = match r {
            Rhs::Lit(v) => *v,
            Rhs::Col(j) => old[*j],
            Rhs::ColPlus(j, k) => old[*j].map(|x| wrap_add(x, *k)),
        };
    }
    new
}

#[derive(Clone, Copy, Debug, Default, PartialEq, Eq)]
struct Stats {
    ins: u64,
    upd: u64,
    del: u64,
}

/// known deviations of merge_insert from SQL MERGE (all off = the SQL meaning)
#[derive(Clone, Copy, Debug, Default, PartialEq, Eq)]
struct Dev {
    /// an unmatched source row with NULL in a key is dropped instead of inserted (v2 plan: any key NULL; Merger: all keys NULL)
    drop_null_key_source: bool,
    /// an unmatched target row whose keys are all NULL is never deleted by when_not_matched_by_source
    keep_null_key_target: bool,
}

/// which code path the job takes (merge_insert.rs `can_use_create_plan` / `create_joined_stream`)
#[derive(Clone, Copy, Debug, PartialEq, Eq)]
enum Path {
    V2,
    Merger,
}

fn pad(cfg: &MergeCfg, k: usize, s: &Row) -> Row {
    (0..k).map(|i| cfg.cols.iter().position(|c| *c == i).and_then(|p| s[p])).collect()
}

fn key_match(cfg: &MergeCfg, s: &Row, t: &Row) -> bool {
    cfg.on.iter().all(|k| matches!((s[*k], t[*k]), (Some(a), Some(b)) if a == b))
}

/// SQL MERGE of `src` (rows over `cfg.cols`) into `tbl` (rows of width `k`); `Err(())` = the statement fails
fn sql_merge(cfg: &MergeCfg, k: usize, tbl: &[Row], src: &[Row], dev: Dev, path: Path) -> Result<(Vec<Row>, Stats), ()> {
    let src: Vec<Row> = src.iter().map(|s| pad(cfg, k, s)).collect();
    let mut out = vec![];
    let mut st = Stats::default();
    for t in tbl {
        let ms: Vec<&Row> = src.iter().filter(|s| key_match(cfg, s, t)).collect();
        if ms.is_empty() {
            let all_null = cfg.on.iter().all(|c| t[*c].is_none());
            let del = match &cfg.ns {
                NotBySource::Keep => false,
                NotBySource::Delete => true,
                NotBySource::If(e) => eval3(e, t) == Some(true),
            } && !(dev.keep_null_key_target && all_null);
            if del {
                st.del += 1;
            } else {
                out.push(t.clone());
            }
            continue;
        }
        let updating: Vec<&Row> = match &cfg.m {
            Matched::Nothing => vec![],
            Matched::All => ms.clone(),
            Matched::Fail => return Err(()),
            Matched::If(e) => ms
                .iter()
                .copied()
                .filter(|s| {
                    let mut comb: Row = (*s).clone();
                    comb.extend(t.iter().cloned());
                    eval3(e, &comb) == Some(true)
                })
                .collect(),
        };
        match updating.len() {
            0 => out.push(t.clone()),
            1 => {
                let s = updating[0];
                out.push((0..k).map(|i| if cfg.cols.contains(&i) { s[i] } else { t[i] }).collect());
                st.upd += 1;
            }
            _ => return Err(()),
        }
    }
    if cfg.insert {
        for s in &src {
            if tbl.iter().any(|t| key_match(cfg, s, t)) {
                continue;
            }
            let any_null = cfg.on.iter().any(|c| s[*c].is_none());
            let all_null = cfg.on.iter().all(|c| s[*c].is_none());
            let dropped = dev.drop_null_key_source
                && match path {
                    Path::V2 => any_null,
                    Path::Merger => all_null,
                };
            if !dropped {
                out.push(s.clone());
                st.ins += 1;
            }
        }
    }
    out.sort();
    Ok((out, st))
}

// ------------------------------------------------------------------------------------------------
// the property
// ------------------------------------------------------------------------------------------------

struct C12 {
    kit: Kit,
}

struct State {
    ds: Dataset,
    k: usize,
    f: usize,
    /// the harness's own table (sorted)
    rows: Vec<Row>,
    /// columns with a BTree index
    indexed: Vec<usize>,
}

fn cname(i: usize) -> String {
    format!("c{i}")
}

fn int_batch(cols: &[usize], rows: &[Row]) -> (Arc<ArrowSchema>, RecordBatch) {
    let schema = Arc::new(ArrowSchema::new(cols.iter().map(|c| Field::new(cname(*c), DataType::Int64, true)).collect::<Vec<_>>()));
    let arrays: Vec<arrow_array::ArrayRef> = (0..cols.len())
        .map(|j| Arc::new(Int64Array::from(rows.iter().map(|r| r[j]).collect::<Vec<_>>())) as arrow_array::ArrayRef)
        .collect();
    let b = RecordBatch::try_new_with_options(
        schema.clone(),
        arrays,
        &arrow_array::RecordBatchOptions::new().with_row_count(Some(rows.len())),
    )
    .expect("batch");
    (schema, b)
}

impl C12 {
    fn knobs(f: usize, stable: bool) -> Knobs {
        Knobs { max_rows_per_file: Some(f), stable_row_ids: stable, ..Default::default() }
    }

    /// run one op on the real code: Ok((new dataset, stats shown in the output line))
    fn run(&self, st: &State, op: &Op) -> KitResult<(Dataset, Option<Stats>, Option<usize>)> {
        let kit = &self.kit;
        let k = st.k;
        let ds = Arc::new(st.ds.clone());
        match op {
            Op::Create { .. } => unreachable!(),
            Op::Append { rows } => {
                let d = kit.append(&st.ds, &SchemaSpec::ints(k), &[rows.clone()], &Self::knobs(st.f, false))?;
                Ok((d, None, None))
            }
            Op::Index(c) => {
                let mut d = st.ds.clone();
                let name = cname(*c);
                kit.block_on(d.create_index(&[name.as_str()], IndexType::BTree, Some(format!("i{c}")), &ScalarIndexParams::default(), true))?;
                Ok((d, None, None))
            }
            Op::Delete(e) => {
                let sql = querykit::to_sql(e, &querykit::default_namer);
                let d = kit.block_on(DeleteBuilder::new(ds, sql).conflict_retries(0).execute())?;
                Ok((d.as_ref().clone(), None, None))
            }
            Op::Count(e) => {
                let sql = querykit::to_sql(e, &querykit::default_namer);
                let n = kit.count_rows(&st.ds, Some(&sql))?;
                Ok((st.ds.clone(), None, Some(n)))
            }
            Op::Update { assigns, cond } => {
                let r = kit.block_on(async {
                    let mut b = UpdateBuilder::new(ds);
                    if let Some(e) = cond {
                        b = b.update_where(&querykit::to_sql(e, &querykit::default_namer))?;
                    }
                    for (c, rhs) in assigns {
                        let v = match rhs {
                            Rhs::Lit(None) => "NULL".to_string(),
                            Rhs::Lit(Some(v)) => v.to_string(),
                            Rhs::Col(j) => cname(*j),
                            Rhs::ColPlus(j, x) if *x >= 0 => format!("{} + {x}", cname(*j)),
                            Rhs::ColPlus(j, x) => format!("{} - {}", cname(*j), x.unsigned_abs()),
                        };
                        b = b.set(cname(*c), &v)?;
                    }
                    b.conflict_retries(0).build()?.execute().await
                })?;
                Ok((r.new_dataset.as_ref().clone(), Some(Stats { upd: r.rows_updated, ..Default::default() }), None))
            }
            Op::Merge { cfg, rows } => {
                let (schema, b) = int_batch(&cfg.cols, rows);
                let reader = RecordBatchIterator::new(vec![Ok(b)].into_iter(), schema);
                let comb_namer = move |i: usize| if i < k { format!("source.c{i}") } else { format!("target.c{}", i - k) };
                let r = kit.block_on(async {
                    let mut mb = MergeInsertBuilder::try_new(ds.clone(), cfg.on.iter().map(|c| cname(*c)).collect())?;
                    mb.when_matched(match &cfg.m {
                        Matched::Nothing => WhenMatched::DoNothing,
                        Matched::All => WhenMatched::UpdateAll,
                        Matched::Fail => WhenMatched::Fail,
                        Matched::If(e) => WhenMatched::update_if(&ds, &querykit::to_sql(e, &comb_namer))?,
                    });
                    mb.when_not_matched(if cfg.insert { WhenNotMatched::InsertAll } else { WhenNotMatched::DoNothing });
                    mb.when_not_matched_by_source(match &cfg.ns {
                        NotBySource::Keep => WhenNotMatchedBySource::Keep,
                        NotBySource::Delete => WhenNotMatchedBySource::Delete,
                        NotBySource::If(e) => WhenNotMatchedBySource::delete_if(&ds, &querykit::to_sql(e, &querykit::default_namer))?,
                    });
                    mb.use_index(cfg.use_index).conflict_retries(0);
                    mb.try_build()?.execute_reader(Box::new(reader)).await
                })?;
                let s = Stats { ins: r.1.num_inserted_rows, upd: r.1.num_updated_rows, del: r.1.num_deleted_rows };
                Ok((r.0.as_ref().clone(), Some(s), None))
            }
        }
    }

    fn path_of(st: &State, cfg: &MergeCfg) -> Path {
        let full = cfg.cols.len() == st.k;
        let has_index = cfg.on.len() == 1 && st.indexed.contains(&cfg.on[0]);
        if !matches!(cfg.m, Matched::Nothing) && (!cfg.use_index || !has_index) && full && cfg.ns == NotBySource::Keep {
            Path::V2
        } else {
            Path::Merger
        }
    }
}

// ------------------------------------------------------------------------------------------------
// generator
// ------------------------------------------------------------------------------------------------

fn gen_cell(rng: &mut Rng, null_pct: u64) -> Cell {
    if rng.below(100) < null_pct {
        return None;
    }
    Some(match rng.below(24) {
        0 => 1_000_000_000_000,
        1 => -1_000_000_000_000,
        _ => rng.below(9) as i64 - 2,
    })
}

fn gen_rows(rng: &mut Rng, n: usize, k: usize, null_pct: u64) -> Vec<Row> {
    (0..n).map(|_| (0..k).map(|_| gen_cell(rng, null_pct)).collect()).collect()
}

fn gen_assigns(rng: &mut Rng, k: usize) -> Vec<(usize, Rhs)> {
    let n = 1 + rng.usize(k.min(2));
    let mut cols: Vec<usize> = (0..k).collect();
    for i in (1..cols.len()).rev() {
        let j = rng.usize(i + 1);
        cols.swap(i, j);
    }
    cols.truncate(n);
    cols.into_iter()
        .map(|c| {
            let r = match rng.below(10) {
                0 => Rhs::Lit(None),
                1..=3 => Rhs::Lit(Some(rng.below(40) as i64 - 10)),
                4..=6 => Rhs::Col(rng.usize(k)),
                _ => Rhs::ColPlus(rng.usize(k), rng.below(21) as i64 - 10),
            };
            (c, r)
        })
        .collect()
}

fn gen_merge(rng: &mut Rng, k: usize, tbl: &[Row], indexed: &[usize], malformed: bool) -> Op {
    // key columns: mostly one (the indexed one when there is an index), sometimes two
    let mut on: Vec<usize> = if !indexed.is_empty() && rng.chance(3, 4) { vec![indexed[0]] } else { vec![rng.usize(k)] };
    if k >= 2 && rng.chance(1, 4) {
        let other = (on[0] + 1 + rng.usize(k - 1)) % k;
        on.push(other);
    }
    // source columns: full schema mostly; a proper subset containing the keys otherwise
    let mut cols: Vec<usize> = (0..k).collect();
    if k > on.len() && rng.chance(1, 4) {
        cols = (0..k).filter(|c| on.contains(c) || rng.chance(1, 2)).collect();
    }
    if malformed && rng.chance(1, 4) {
        cols.retain(|c| *c != on[0]); // key missing from the source
        if cols.is_empty() {
            cols = vec![(on[0] + 1) % k.max(2)];
        }
    }
    let partial = cols.len() < k;
    let m = match rng.below(10) {
        0 | 1 => Matched::Nothing,
        2..=5 => Matched::All,
        6 => Matched::Fail,
        _ => Matched::If(Expr::True), // filled in below
    };
    let ns = if partial && !malformed {
        NotBySource::Keep
    } else {
        match rng.below(10) {
            0..=5 => NotBySource::Keep,
            6 | 7 => NotBySource::Delete,
            _ => NotBySource::If(Expr::True),
        }
    };
    let insert = rng.chance(2, 3) || (m == Matched::Nothing && ns == NotBySource::Keep && !malformed);
    // source rows: keys drawn from the table's keys (matches), fresh keys, NULL keys, duplicates
    let n = rng.usize(6);
    let mut rows: Vec<Row> = vec![];
    for _ in 0..n {
        let mut full: Row = (0..k).map(|_| gen_cell(rng, 12)).collect();
        match rng.below(10) {
            0..=4 if !tbl.is_empty() => {
                let t = rng.pick(tbl);
                for c in &on {
                    full[*c] = t[*c];
                }
            }
            5 if !rows.is_empty() => {
                // duplicate key of an earlier source row
                let prev = rng.pick(&rows).clone();
                for c in &on {
                    if let Some(p) = cols.iter().position(|x| x == c) {
                        full[*c] = prev[p];
                    }
                }
            }
            6 => {
                for c in &on {
                    if rng.chance(1, 2) {
                        full[*c] = None;
                    }
                }
            }
            _ => {
                for c in &on {
                    full[*c] = Some(rng.below(30) as i64 + 10);
                }
            }
        }
        rows.push(cols.iter().map(|c| full[*c]).collect());
    }
    // conditions
    let m = match m {
        Matched::If(_) => {
            // over the combined row: source columns (only those in the source batch) and the same target columns
            let avoid: Vec<usize> = (0..2 * k).filter(|i| !cols.contains(&(i % k))).collect();
            let comb: Vec<Row> = tbl
                .iter()
                .map(|t| {
                    let mut r = t.clone();
                    r.extend(t.iter().cloned());
                    r
                })
                .collect();
            let opts = querykit::GenOpts { max_depth: 1, avoid_cols: avoid, lo_pct: 20, hi_pct: 90, ..Default::default() };
            Matched::If(querykit::gen_pred(rng, &comb, 2 * k, &opts))
        }
        m => m,
    };
    let ns = match ns {
        NotBySource::If(_) => {
            let opts = querykit::GenOpts { max_depth: 1, ..Default::default() };
            NotBySource::If(querykit::gen_pred(rng, tbl, k, &opts))
        }
        x => x,
    };
    Op::Merge { cfg: MergeCfg { on, m, insert, ns, use_index: rng.chance(3, 4), cols }, rows }
}

/// a predicate for a scanner-evaluated filter (delete / count / update).  With a scalar index on column c the scanner
/// answers `NOT (.. c ..)` / `c != v` from the index with two-valued logic (rows with NULL in c are returned: the
/// C19 finding, recorded for C12 as `indexed_not_null_rows`); the model has no index evaluation, so these shapes are left out.
fn gen_filter(rng: &mut Rng, tbl: &[Row], k: usize, indexed: &[usize]) -> Expr {
    let opts = querykit::GenOpts::default();
    for _ in 0..12 {
        let e = querykit::gen_pred(rng, tbl, k, &opts);
        if !indexed.iter().any(|c| querykit::negates_col(&e, *c)) {
            return e;
        }
    }
    let opts = querykit::GenOpts { avoid_cols: indexed.to_vec(), ..Default::default() };
    querykit::gen_pred(rng, tbl, k, &opts)
}

impl Prop for C12 {
    fn id(&self) -> &'static str {
        "C12"
    }

    fn budget(&self, tier: Tier) -> usize {
        match tier {
            Tier::Quick => 700,
            Tier::Thorough => 12000,
            Tier::Search => 3000,
        }
    }

    fn gen_case(&mut self, rng: &mut Rng, _tier: Tier, _idx: usize) -> Vec<String> {
        let malformed = rng.chance(3, 20);
        let k = 2 + rng.usize(2);
        let n0 = 1 + rng.usize(8);
        let f = match rng.below(4) {
            0 => 100,
            1 => n0.div_ceil(2).max(1),
            _ => n0.div_ceil(3).max(1),
        };
        let null_pct = *rng.pick(&[0u64, 10, 20, 35]);
        let mut tbl = gen_rows(rng, n0, k, null_pct);
        let mut lines = vec![show_op(&Op::Create { f, stable: rng.chance(1, 3), k, rows: tbl.clone() })];
        let mut indexed: Vec<usize> = vec![];
        let pred_opts = querykit::GenOpts::default();
        // short prior history
        for _ in 0..rng.usize(3) {
            if rng.chance(1, 2) && tbl.len() < 10 {
                let n_add = 1 + rng.usize((12usize.saturating_sub(tbl.len())).min(4));
                let rows = gen_rows(rng, n_add, k, null_pct);
                tbl.extend(rows.iter().cloned());
                lines.push(show_op(&Op::Append { rows }));
            } else {
                let e = querykit::gen_pred(rng, &tbl, k, &pred_opts);
                tbl.retain(|r| eval3(&e, r) != Some(true));
                lines.push(show_op(&Op::Delete(e)));
            }
        }
        if rng.chance(1, 2) {
            let c = rng.usize(k);
            indexed.push(c);
            lines.push(show_op(&Op::Index(c)));
            if rng.chance(1, 3) && tbl.len() < 11 {
                // unindexed tail fragment
                let n_tail = 1 + rng.usize(2);
                let rows = gen_rows(rng, n_tail, k, null_pct);
                tbl.extend(rows.iter().cloned());
                lines.push(show_op(&Op::Append { rows }));
            }
        }
        // the ops under test
        let n_ops = 1 + rng.usize(3);
        for _ in 0..n_ops {
            let op = match rng.below(20) {
                0..=3 => Op::Delete(gen_filter(rng, &tbl, k, &indexed)),
                4..=5 => Op::Count(gen_filter(rng, &tbl, k, &indexed)),
                6..=9 => {
                    let cond = if rng.chance(1, 8) { None } else { Some(gen_filter(rng, &tbl, k, &indexed)) };
                    Op::Update { assigns: gen_assigns(rng, k), cond }
                }
                _ => gen_merge(rng, k, &tbl, &indexed, malformed),
            };
            let mut line = show_op(&op);
            if malformed && rng.chance(1, 5) {
                line = match rng.below(4) {
                    0 => line.replacen("c0", "c9", 1),                  // unknown column
                    1 => format!("{line} T"),                           // trailing token
                    2 => line.replacen("m=", "m=x", 1).replacen("lt ", "lt lt ", 1),
                    _ => line.replacen(" k=", " k=7", 1).replacen("on=", "on=,", 1),
                };
            }
            // track the generator's own idea of the table (SQL meaning; good enough to keep later ops meaningful)
            match &op {
                Op::Delete(e) => tbl.retain(|r| eval3(e, r) != Some(true)),
                Op::Update { assigns, cond } => {
                    for r in tbl.iter_mut() {
                        if cond.as_ref().map(|e| eval3(e, r) == Some(true)).unwrap_or(true) {
                            *r = apply_assigns(assigns, r);
                        }
                    }
                }
                Op::Merge { cfg, rows } => {
                    if cfg.cols.iter().all(|c| *c < k) && cfg.on.iter().all(|c| cfg.cols.contains(c)) {
                        if let Ok((t, _)) = sql_merge(cfg, k, &tbl, rows, Dev::default(), Path::V2) {
                            tbl = t;
                        }
                    }
                }
                _ => {}
            }
            lines.push(line);
        }
        if malformed && rng.chance(1, 6) {
            lines.remove(0); // ops without a table
        }
        lines
    }

    fn exec_case(&mut self, lines: &[String]) -> CaseResult {
        self.kit.reset_session();
        let uri = self.kit.fresh_uri();
        let mut res = CaseResult::default();
        let mut st: Option<State> = None;
        let mut interesting = 0usize;
        let debug = std::env::var("C12_DEBUG").is_ok();
        for (ln, line) in lines.iter().enumerate() {
            let Some(op) = parse_op(line) else {
                res.outputs.push("err parse".into());
                res.tags.push("err:parse".into());
                continue;
            };
            let fail = |res: &mut CaseResult, what: String, key: &str| {
                res.failures.push(OracleFailure { what, key: Some(key.into()), line: ln })
            };
            // ---- create
            if let Op::Create { f, stable, k, rows } = &op {
                res.tags.push("op:create".into());
                if st.is_some() {
                    res.outputs.push("err already_exists".into());
                    continue;
                }
                match self.kit.create(&uri, &SchemaSpec::ints(*k), &[rows.clone()], &Self::knobs(*f, *stable)) {
                    Ok(ds) => {
                        let mut sorted = rows.clone();
                        sorted.sort();
                        let s = State { ds, k: *k, f: *f, rows: sorted, indexed: vec![] };
                        res.outputs.push(self.observe(&s, None, None, ln, &mut res.failures));
                        res.tags.push(format!("nfrags:{}", Kit::fragments(&s.ds).len().min(4)));
                        if *stable {
                            res.tags.push("stable_row_ids".into());
                        }
                        st = Some(s);
                    }
                    Err(e) => res.outputs.push(format!("err {}", e.kind.as_str())),
                }
                continue;
            }
            let Some(s) = st.as_mut() else {
                res.outputs.push("err no_table".into());
                res.tags.push("err:no_table".into());
                continue;
            };
            let k = s.k;
            // ---- semantic validation shared with the model (column ranges); the real code is still called
            let tag = match &op {
                Op::Append { .. } => "append",
                Op::Index(_) => "index",
                Op::Delete(_) => "delete",
                Op::Count(_) => "count",
                Op::Update { .. } => "update",
                Op::Merge { .. } => "merge",
                Op::Create { .. } => "create",
            };
            res.tags.push(format!("op:{tag}"));
            if let Op::Append { rows } = &op {
                if !rows.iter().all(|r| r.len() == k) {
                    res.outputs.push("err parse".into());
                    continue;
                }
            }
            // ---- expectation by SQL semantics (None = the op must fail)
            let before = s.rows.clone();
            let mut path = None;
            let expected: Option<(Vec<Row>, Option<Stats>, Option<usize>)> = match &op {
                Op::Create { .. } => unreachable!(),
                Op::Append { rows } => {
                    let mut t = before.clone();
                    t.extend(rows.iter().cloned());
                    Some((t, None, None))
                }
                Op::Index(c) => (*c < k).then(|| (before.clone(), None, None)),
                Op::Delete(e) => querykit::max_col(e).map(|m| m < k).unwrap_or(true).then(|| {
                    (before.iter().filter(|r| eval3(e, r) != Some(true)).cloned().collect(), None, None)
                }),
                Op::Count(e) => querykit::max_col(e).map(|m| m < k).unwrap_or(true).then(|| {
                    (before.clone(), None, Some(before.iter().filter(|r| eval3(e, r) == Some(true)).count()))
                }),
                Op::Update { assigns, cond } => {
                    let cols_ok = cond.as_ref().and_then(querykit::max_col).map(|m| m < k).unwrap_or(true)
                        && assigns.iter().all(|(c, r)| {
                            *c < k
                                && match r {
                                    Rhs::Lit(_) => true,
                                    Rhs::Col(j) | Rhs::ColPlus(j, _) => *j < k,
                                }
                        });
                    cols_ok.then(|| {
                        let mut n = 0u64;
                        let t = before
                            .iter()
                            .map(|r| {
                                if cond.as_ref().map(|e| eval3(e, r) == Some(true)).unwrap_or(true) {
                                    n += 1;
                                    apply_assigns(assigns, r)
                                } else {
                                    r.clone()
                                }
                            })
                            .collect();
                        (t, Some(Stats { upd: n, ..Default::default() }), None)
                    })
                }
                Op::Merge { cfg, rows } => {
                    let cond_ok = match &cfg.m {
                        Matched::If(e) => (0..2 * k).all(|i| !querykit::mentions(e, i) || cfg.cols.contains(&(i % k)))
                            && querykit::max_col(e).map(|m| m < 2 * k).unwrap_or(true),
                        _ => true,
                    } && match &cfg.ns {
                        NotBySource::If(e) => querykit::max_col(e).map(|m| m < k).unwrap_or(true),
                        _ => true,
                    };
                    let shape_ok = !cfg.on.is_empty()
                        && cfg.cols.iter().all(|c| *c < k)
                        && cfg.on.iter().all(|c| cfg.cols.contains(c))
                        && (cfg.insert || cfg.m != Matched::Nothing || cfg.ns != NotBySource::Keep)
                        && (cfg.cols.len() == k || cfg.ns == NotBySource::Keep);
                    let p = Self::path_of(s, cfg);
                    path = Some(p);
                    if cond_ok && shape_ok {
                        sql_merge(cfg, k, &before, rows, Dev::default(), p).ok().map(|(t, st)| (t, Some(st), None))
                    } else {
                        None
                    }
                }
            };
            // ---- the real code
            let r = std::panic::catch_unwind(std::panic::AssertUnwindSafe(|| self.run(s, &op)));
            let r = match r {
                Ok(r) => r,
                Err(_) => {
                    fail(&mut res, format!("{tag} panicked"), "panic");
                    res.outputs.push("err panic".into());
                    continue;
                }
            };
            match r {
                Err(e) => {
                    if debug {
                        eprintln!("line {ln}: {:?}: {}", e.kind, e.msg);
                    }
                    res.outputs.push(format!("err {}", e.kind.as_str()));
                    res.tags.push(format!("err:{tag}:{}", e.kind.as_str()));
                    if expected.is_some() {
                        fail(&mut res, format!("{tag} failed ({}) where SQL semantics gives a result", e.msg), &format!("{tag}_unexpected_error"));
                    }
                    // a failed op leaves the table as it was
                    match self.kit.open(&uri, None).and_then(|d| self.kit.scan(&d, &SchemaSpec::ints(k), &ScanOpts::default())) {
                        Ok(rows) if rows == before => {}
                        other => fail(
                            &mut res,
                            format!("after a failed {tag} the table scans to {:?}, was {}", other.map(|r| show_rows(&r)).map_err(|e| e.msg), show_rows(&before)),
                            "failed_op_changed_table",
                        ),
                    }
                }
                Ok((ds, stats, count)) => {
                    s.ds = ds;
                    if let Op::Index(c) = &op {
                        if !s.indexed.contains(c) {
                            s.indexed.push(*c);
                        }
                        res.outputs.push("ok".into());
                        continue;
                    }
                    if let Op::Count(_) = &op {
                        let n = count.unwrap_or(usize::MAX);
                        match &expected {
                            Some((_, _, Some(want))) if *want == n => {}
                            _ => {
                                let key = match &op {
                                    Op::Count(e) if s.indexed.iter().any(|c| querykit::negates_col(e, *c)) => "indexed_not_null_rows",
                                    _ => "count_filter_mismatch",
                                };
                                fail(&mut res, format!("count_rows(filter) = {n}, SQL semantics gives {:?}", expected.as_ref().and_then(|x| x.2)), key)
                            }
                        }
                        res.outputs.push(format!("ok n={n}"));
                        continue;
                    }
                    // scan the new version
                    let got = self.kit.scan(&s.ds, &SchemaSpec::ints(k), &ScanOpts::default());
                    let got_rows = match &got {
                        Ok(r) => r.clone(),
                        Err(e) => {
                            fail(&mut res, format!("scan after {tag} failed: {}", e.msg), "scan_error");
                            vec![]
                        }
                    };
                    match &expected {
                        None => fail(&mut res, format!("{tag} succeeded where SQL semantics (or the documented API) rejects it"), &format!("{tag}_unexpected_ok")),
                        Some((want, want_stats, _)) => {
                            let mut want = want.clone();
                            want.sort();
                            let stats_ok = match (want_stats, &stats) {
                                (Some(a), Some(b)) => a == b,
                                _ => true,
                            };
                            if got_rows != want || !stats_ok {
                                let mut key = format!("{tag}_mismatch");
                                let filt = match &op {
                                    Op::Delete(e) => Some(e),
                                    Op::Update { cond: Some(e), .. } => Some(e),
                                    _ => None,
                                };
                                if let Some(e) = filt {
                                    if s.indexed.iter().any(|c| querykit::negates_col(e, *c)) {
                                        key = "indexed_not_null_rows".into();
                                    }
                                }
                                if let (Op::Merge { cfg, rows }, Some(p)) = (&op, path) {
                                    // name the defect class: the smallest set of known deviations that explains the result
                                    let devs = [
                                        (Dev { drop_null_key_source: true, keep_null_key_target: false }, "merge_null_key_source_dropped"),
                                        (Dev { drop_null_key_source: false, keep_null_key_target: true }, "merge_null_key_target_kept"),
                                        (Dev { drop_null_key_source: true, keep_null_key_target: true }, "merge_null_key_source_dropped"),
                                    ];
                                    for (d, name) in devs {
                                        if let Ok((t, st2)) = sql_merge(cfg, k, &before, rows, d, p) {
                                            if t == got_rows && Some(st2) == stats {
                                                key = name.into();
                                                break;
                                            }
                                        }
                                    }
                                }
                                fail(
                                    &mut res,
                                    format!(
                                        "{tag}: table {} stats {:?}; SQL semantics gives {} stats {:?} (before: {})",
                                        show_rows(&got_rows),
                                        stats,
                                        show_rows(&want),
                                        want_stats,
                                        show_rows(&before)
                                    ),
                                    &key,
                                );
                            }
                        }
                    }
                    // the harness follows the real table from here on (so one deviation is reported once)
                    s.rows = got_rows;
                    let out = self.observe(s, stats, Some(tag), ln, &mut res.failures);
                    res.outputs.push(out);
                    if let Op::Merge { cfg, rows } = &op {
                        res.tags.push(format!("merge:path:{:?}", path.unwrap()));
                        res.tags.push(format!(
                            "merge:{}:{}:{}",
                            match cfg.m {
                                Matched::Nothing => "nothing",
                                Matched::All => "all",
                                Matched::Fail => "fail",
                                Matched::If(_) => "if",
                            },
                            if cfg.insert { "insert" } else { "noins" },
                            match cfg.ns {
                                NotBySource::Keep => "keep",
                                NotBySource::Delete => "delete",
                                NotBySource::If(_) => "delif",
                            }
                        ));
                        if cfg.cols.len() < k {
                            res.tags.push("merge:partial_schema".into());
                        }
                        if cfg.on.len() > 1 {
                            res.tags.push("merge:multi_key".into());
                        }
                        if cfg.on.len() == 1 && s.indexed.contains(&cfg.on[0]) {
                            res.tags.push(format!("merge:key_indexed:use_index={}", cfg.use_index as u8));
                        }
                        if rows.iter().any(|r| cfg.on.iter().any(|c| cfg.cols.iter().position(|x| x == c).map(|p| r[p].is_none()).unwrap_or(false))) {
                            res.tags.push("merge:null_key_in_source".into());
                        }
                    }
                    if before != s.rows {
                        interesting += 1;
                    }
                }
            }
        }
        // a fresh handle must see the same table
        if let Some(s) = &st {
            match self.kit.open(&uri, None).and_then(|d| self.kit.scan(&d, &SchemaSpec::ints(s.k), &ScanOpts::default())) {
                Ok(rows) if rows == s.rows => {}
                other => res.failures.push(OracleFailure {
                    key: Some("reopen_mismatch".into()),
                    what: format!("a freshly opened handle scans {:?}, the last handle {}", other.map(|r| show_rows(&r)).map_err(|e| e.msg), show_rows(&s.rows)),
                    line: lines.len().saturating_sub(1),
                }),
            }
        }
        res.nontrivial = interesting >= 1;
        res
    }

    fn rule(&self) -> String {
        "random histories on one memory:// table: create (1-8 rows, 2-3 nullable Int64 columns, 0-35% NULL cells, max_rows_per_file \
         chosen to give 1-3 fragments, stable row ids 1/3), 0-2 prior append/delete steps, a BTree index on a random column in half of \
         the cases (a third of those followed by an unindexed append), then 1-3 ops under test: delete 20%, count_rows(filter) 10%, \
         update 20% (1-2 assignments col:=literal|NULL|col|col+k, WHERE from the query kit or none), merge_insert 50% (1-2 key columns, \
         biased to the indexed column; every when_matched x when_not_matched x when_not_matched_by_source combination; use_index 3/4; \
         full or partial source schema; 0-5 source rows with matching keys, fresh keys, NULL keys and duplicates; UpdateIf / DeleteIf \
         conditions from the query kit). Predicates come from querykit::gen_pred (TRUE on 10-60% of the current rows); filters evaluated by the scanner leave out NOT / != over an indexed column (two-valued index answers: C19). 15% malformed \
         (unknown columns, trailing tokens, key missing from the source, no-op configuration, partial schema with delete, ops before \
         create). Non-trivial = some op changed the table."
            .into()
    }
}

impl C12 {
    /// the output line of a table-changing op + the accounting part of the oracle
    fn observe(&self, s: &State, stats: Option<Stats>, tag: Option<&str>, ln: usize, failures: &mut Vec<OracleFailure>) -> String {
        let mut fail = |what: String, key: &str| failures.push(OracleFailure { what, key: Some(key.into()), line: ln });
        let n = match self.kit.count_rows(&s.ds, None) {
            Ok(n) => {
                if n != s.rows.len() {
                    fail(format!("count_rows = {n}, the scan has {} rows", s.rows.len()), "count_mismatch");
                }
                n.to_string()
            }
            Err(e) => {
                fail(format!("count_rows failed: {}", e.msg), "count_error");
                format!("err:{}", e.kind.as_str())
            }
        };
        let frags = Kit::fragments(&s.ds);
        let physical: usize = frags.iter().map(|f| f.1).sum();
        match self.kit.block_on(s.ds.count_deleted_rows()) {
            Ok(d) => {
                if physical < d || physical - d != s.rows.len() || d != frags.iter().map(|f| f.2).sum::<usize>() {
                    fail(
                        format!("count_deleted_rows = {d}, fragments {} but the table has {} rows", show_frags(&frags), s.rows.len()),
                        "count_deleted_mismatch",
                    );
                }
            }
            Err(e) => fail(format!("count_deleted_rows failed: {e}"), "count_error"),
        }
        let st = match (tag, stats) {
            (Some("merge"), Some(x)) => format!(" ins={} upd={} del={}", x.ins, x.upd, x.del),
            (Some("update"), Some(x)) => format!(" upd={}", x.upd),
            _ => String::new(),
        };
        format!("ok{st} n={n} rows={}", show_rows(&s.rows))
    }
}

fn main() {
    run_main(C12 { kit: Kit::new() })
}
