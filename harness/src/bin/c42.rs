//! C42: a copied table root is a complete, identical table.
//!
//! Histories on a LOCAL DIRECTORY (tempdir) through the public lance API; then the whole directory tree is copied
//! (plain recursive file copy, no lance involved) to a new directory, the ORIGINAL DIRECTORY IS REMOVED, and the copy is
//! opened through a fresh `Session` and compared, version by version, with snapshots taken from the original before.
//!
//! Op lines (rows: canonical forms of `tablekit.rs`; the table has Int64 columns `c0, c1, …`; same vocabulary as C01):
//!
//! ```text
//! cfg v2=<0|1> s=<0|1>        v2 manifest names, stable row ids; starts a new table in a fresh directory
//! create f=<n> <rows> | append f=<n> <rows> | overwrite f=<n> <rows> | dappend f=<n> <rows> | delete <x> | update <x> <y>
//! upsert <rows> | compact | index | addcol | dropcol | config <n> | restore <v>          (on the CURRENT root)
//! tag <name> <v> | untag <name>      Tags::create / Tags::delete
//! copy          snapshot the current root; copy the tree to a fresh directory; REMOVE the original; the copy becomes the
//!               current root (the history may go on there)
//! clone <v>     Dataset::shallow_clone(version v) of the current root into a fresh directory C
//! copyclone     copy C to C' (the source stays); observe C'
//! rmsource      remove the source root of the clone; observe C' again (outside the claim: it must now be unreadable
//!               unless the cloned version has no files)
//! ```
//!
//! Output of a table op: `<ok v | ok D | err kind> | L=<latest> V=<versions> | <latest view> | files=…`;
//! of `copy` / `clone` / `copyclone` / `rmsource`: `<tag> | L= V= | <v:K:sorted rows:#indices:cfg>… | D=<detached views> |
//! files=d,x,i,t,m,s | vers=<names in _versions> | tags=<name:v…> | bases=<#base paths>/<#files with a base id> |
//! leak=<#manifests that contain the absolute path of a root>`.  The Lean driver prints the same from the model.
//!
//! Oracle (independent of the Lean model), at every `copy`: the snapshot of the copy (original removed, fresh session)
//! — version list, latest, and per version the ORDERED scan (with `_rowid` under stable row ids), schema (names, types,
//! field ids), index names + uuids + fragment bitmaps, `take` of first/middle/last row, an indexed filter query
//! `c0 >= median`, config, the detached manifests, the tags (list, and checkout BY TAG) — must equal the snapshot of the
//! original (`copy_differs`, `copy_unreadable`); no file of the table (any class) may contain the absolute path of any
//! root the table ever lived at (`abs_path_stored`); no manifest of such a history may carry a base path or a base id
//! (`base_path_introduced`).

#[path = "../tablekit.rs"]
#[allow(dead_code)]
mod tablekit;

use std::collections::BTreeMap;
use std::path::{Path as FsPath, PathBuf};
use std::sync::Arc;

use arrow_array::{RecordBatch, RecordBatchIterator};
use hcommon::*;
use lance::dataset::builder::DatasetBuilder;
use lance::dataset::optimize::{compact_files, CompactionOptions};
use lance::dataset::{
    CommitBuilder, InsertBuilder, MergeInsertBuilder, NewColumnTransform, ProjectionRequest, ReadParams, UpdateBuilder,
    WhenMatched, WhenNotMatched, WriteDestination, WriteMode, WriteParams,
};
use lance::session::Session;
use lance::Dataset;
use lance_index::scalar::ScalarIndexParams;
use lance_index::{DatasetIndexExt, IndexType};
use tablekit::{canon_err, Row, SchemaSpec};

// ------------------------------------------------------------------------------------------------
// configuration and operations (vocabulary of C01, no faults)

#[derive(Clone, Copy, Debug, PartialEq, Eq)]
struct Cfg {
    v2: bool,
    stable: bool,
}
impl Cfg {
    fn show(&self) -> String {
        format!("cfg v2={} s={}", self.v2 as u8, self.stable as u8)
    }
    fn parse(toks: &[&str]) -> Option<Self> {
        if toks.len() != 3 || toks[0] != "cfg" {
            return None;
        }
        let b = |s: &str| match s {
            "0" => Some(false),
            "1" => Some(true),
            _ => None,
        };
        Some(Self { v2: b(toks[1].strip_prefix("v2=")?)?, stable: b(toks[2].strip_prefix("s=")?)? })
    }
}

#[derive(Clone, Debug, PartialEq, Eq)]
enum Op {
    Create { f: usize, rows: Vec<Row> },
    Append { f: usize, rows: Vec<Row> },
    Overwrite { f: usize, rows: Vec<Row> },
    DAppend { f: usize, rows: Vec<Row> },
    Delete(i64),
    Update(i64, i64),
    Upsert { rows: Vec<Row> },
    Compact,
    Index,
    AddCol,
    DropCol,
    Config(u64),
    Restore(u64),
}

fn parse_nat(s: &str) -> Option<u64> {
    if s.is_empty() || s.len() > 18 || !s.bytes().all(|b| b.is_ascii_digit()) {
        return None;
    }
    s.parse().ok()
}
fn parse_int(s: &str) -> Option<i64> {
    tablekit::parse_cell(s)?
}

impl Op {
    fn kind(&self) -> &'static str {
        match self {
            Op::Create { .. } => "create",
            Op::Append { .. } => "append",
            Op::Overwrite { .. } => "overwrite",
            Op::DAppend { .. } => "dappend",
            Op::Delete(_) => "delete",
            Op::Update(..) => "update",
            Op::Upsert { .. } => "upsert",
            Op::Compact => "compact",
            Op::Index => "index",
            Op::AddCol => "addcol",
            Op::DropCol => "dropcol",
            Op::Config(_) => "config",
            Op::Restore(_) => "restore",
        }
    }
    fn parse(toks: &[&str]) -> Option<Self> {
        let rows_f = |toks: &[&str]| -> Option<(usize, Vec<Row>)> {
            if toks.len() != 3 {
                return None;
            }
            let f = parse_nat(toks[1].strip_prefix("f=")?)? as usize;
            if f == 0 || f > 1000 {
                return None;
            }
            let rows = tablekit::parse_rows(toks[2])?;
            Some((f, rows))
        };
        Some(match *toks.first()? {
            "create" => {
                let (f, rows) = rows_f(toks)?;
                Op::Create { f, rows }
            }
            "append" => {
                let (f, rows) = rows_f(toks)?;
                Op::Append { f, rows }
            }
            "overwrite" => {
                let (f, rows) = rows_f(toks)?;
                Op::Overwrite { f, rows }
            }
            "dappend" => {
                let (f, rows) = rows_f(toks)?;
                Op::DAppend { f, rows }
            }
            "delete" if toks.len() == 2 => Op::Delete(parse_int(toks[1])?),
            "update" if toks.len() == 3 => Op::Update(parse_int(toks[1])?, parse_int(toks[2])?),
            "upsert" if toks.len() == 2 => Op::Upsert { rows: tablekit::parse_rows(toks[1])? },
            "compact" if toks.len() == 1 => Op::Compact,
            "index" if toks.len() == 1 => Op::Index,
            "addcol" if toks.len() == 1 => Op::AddCol,
            "dropcol" if toks.len() == 1 => Op::DropCol,
            "config" if toks.len() == 2 => Op::Config(parse_nat(toks[1])?),
            "restore" if toks.len() == 2 => Op::Restore(parse_nat(toks[1])?),
            _ => return None,
        })
    }
}

#[derive(Debug)]
enum OpErr {
    Lance(lance::Error),
    Width,
    MultiBin,
    AlreadyExists,
}
impl From<lance::Error> for OpErr {
    fn from(e: lance::Error) -> Self {
        Self::Lance(e)
    }
}
impl OpErr {
    fn kind(&self) -> String {
        match self {
            OpErr::Lance(e) => canon_err(e).as_str().to_string(),
            OpErr::Width => "width".into(),
            OpErr::MultiBin => "multi_bin".into(),
            OpErr::AlreadyExists => "already_exists".into(),
        }
    }
}

fn spec_k(k: usize) -> SchemaSpec {
    SchemaSpec::ints(k)
}

fn reader(k: usize, rows: &[Row]) -> RecordBatchIterator<std::vec::IntoIter<std::result::Result<RecordBatch, arrow_schema::ArrowError>>> {
    let spec = spec_k(k);
    let bs = if rows.is_empty() { vec![] } else { vec![Ok(spec.batch(rows))] };
    RecordBatchIterator::new(bs.into_iter(), spec.arrow_schema())
}

fn width_ok(k: usize, rows: &[Row]) -> bool {
    k > 0 && rows.iter().all(|r| r.len() == k)
}

/// every open goes through a FRESH session (nothing cached from the original location can answer for the copy)
async fn open(uri: &str, version: Option<u64>) -> lance::Result<Dataset> {
    let mut b = DatasetBuilder::from_uri(uri)
        .with_read_params(ReadParams { session: Some(Arc::new(Session::default())), ..Default::default() });
    if let Some(v) = version {
        b = b.with_version(v);
    }
    b.load().await
}

fn write_params(cfg: &Cfg, mode: WriteMode, f: usize) -> WriteParams {
    WriteParams {
        mode,
        max_rows_per_file: f,
        enable_stable_row_ids: cfg.stable,
        enable_v2_manifest_paths: cfg.v2,
        session: Some(Arc::new(Session::default())),
        auto_cleanup: None,
        skip_auto_cleanup: true,
        ..Default::default()
    }
}

/// the real operation on the table at `uri` (mirrors harness/src/c01_engine.rs `do_op`)
async fn do_op(cfg: Cfg, op: Op, uri: &str) -> Result<u64, OpErr> {
    if let Op::Create { f, rows } = &op {
        let k = rows.first().map(|r| r.len()).unwrap_or(2);
        if !width_ok(k, rows) {
            return match open(uri, None).await {
                Ok(_) => Err(OpErr::AlreadyExists),
                Err(_) => Err(OpErr::Width),
            };
        }
        let p = write_params(&cfg, WriteMode::Create, *f);
        let ds = Dataset::write(reader(k, rows), uri, Some(p)).await?;
        return Ok(ds.manifest().version);
    }
    let mut ds = open(uri, None).await?;
    let k = ds.schema().fields.len();
    match &op {
        Op::Append { rows, .. } | Op::DAppend { rows, .. } | Op::Upsert { rows } => {
            if !width_ok(k, rows) {
                return Err(OpErr::Width);
            }
        }
        Op::Overwrite { rows, .. } => {
            if !width_ok(rows.first().map(|r| r.len()).unwrap_or(k), rows) {
                return Err(OpErr::Width);
            }
        }
        _ => {}
    }
    match op {
        Op::Create { .. } => unreachable!(),
        Op::Append { f, rows } => {
            let p = write_params(&cfg, WriteMode::Append, f);
            let ds = Dataset::write(reader(k, &rows), WriteDestination::Dataset(Arc::new(ds)), Some(p)).await?;
            Ok(ds.manifest().version)
        }
        Op::Overwrite { f, rows } => {
            let k = rows.first().map(|r| r.len()).unwrap_or(k);
            let p = write_params(&cfg, WriteMode::Overwrite, f);
            let ds = Dataset::write(reader(k, &rows), WriteDestination::Dataset(Arc::new(ds)), Some(p)).await?;
            Ok(ds.manifest().version)
        }
        Op::DAppend { f, rows } => {
            let p = write_params(&cfg, WriteMode::Append, f);
            let dsa = Arc::new(ds);
            let spec = spec_k(k);
            let batches = if rows.is_empty() { vec![] } else { vec![spec.batch(&rows)] };
            let txn = InsertBuilder::new(WriteDestination::Dataset(dsa.clone())).with_params(&p).execute_uncommitted(batches).await?;
            let out = CommitBuilder::new(WriteDestination::Dataset(dsa)).with_detached(true).execute(txn).await?;
            Ok(out.manifest().version)
        }
        Op::Delete(x) => {
            ds.delete(&format!("c0 >= {x}")).await?;
            Ok(ds.manifest().version)
        }
        Op::Update(x, y) => {
            let r = UpdateBuilder::new(Arc::new(ds))
                .update_where(&format!("c0 >= {x}"))?
                .set("c1", &y.to_string())?
                .build()?
                .execute()
                .await?;
            Ok(r.new_dataset.manifest().version)
        }
        Op::Upsert { rows } => {
            let mut b = MergeInsertBuilder::try_new(Arc::new(ds), vec!["c0".to_string()])?;
            b.when_matched(WhenMatched::UpdateAll).when_not_matched(WhenNotMatched::InsertAll);
            let job = b.try_build()?;
            let (nd, _stats) = job.execute_reader(Box::new(reader(k, &rows))).await?;
            Ok(nd.manifest().version)
        }
        Op::Compact => {
            let opts = CompactionOptions { target_rows_per_fragment: 1000, ..Default::default() };
            let plan = lance::dataset::optimize::plan_compaction(&ds, &opts).await?;
            if plan.num_tasks() > 1 {
                return Err(OpErr::MultiBin);
            }
            compact_files(&mut ds, opts, None).await?;
            Ok(ds.manifest().version)
        }
        Op::Index => {
            ds.create_index(&["c0"], IndexType::BTree, Some("i0".into()), &ScalarIndexParams::default(), true).await?;
            Ok(ds.manifest().version)
        }
        Op::AddCol => {
            ds.add_columns(NewColumnTransform::SqlExpressions(vec![(format!("c{k}"), "c0 + 1".to_string())]), None, None).await?;
            Ok(ds.manifest().version)
        }
        Op::DropCol => {
            let name = format!("c{}", k - 1);
            ds.drop_columns(&[name.as_str()]).await?;
            Ok(ds.manifest().version)
        }
        Op::Config(n) => {
            ds.update_config([("k".to_string(), n.to_string())]).await?;
            Ok(ds.manifest().version)
        }
        Op::Restore(v) => {
            let mut old = ds.checkout_version(v).await?;
            old.restore().await?;
            Ok(old.manifest().version)
        }
    }
}

// ------------------------------------------------------------------------------------------------
// the directory tree

/// every file below `dir`, as `/`-separated paths relative to it, sorted
fn walk(dir: &FsPath) -> Vec<String> {
    fn rec(base: &FsPath, d: &FsPath, out: &mut Vec<String>) {
        let Ok(rd) = std::fs::read_dir(d) else { return };
        for e in rd.flatten() {
            let p = e.path();
            if p.is_dir() {
                rec(base, &p, out);
            } else {
                out.push(p.strip_prefix(base).unwrap().to_string_lossy().replace('\\', "/"));
            }
        }
    }
    let mut out = vec![];
    rec(dir, dir, &mut out);
    out.sort();
    out
}

/// `cp -r src dst` (dst does not exist): byte-for-byte copies of every file, nothing else
fn copy_tree(src: &FsPath, dst: &FsPath) -> std::io::Result<usize> {
    let mut n = 0;
    for rel in walk(src) {
        let to = dst.join(&rel);
        if let Some(parent) = to.parent() {
            std::fs::create_dir_all(parent)?;
        }
        std::fs::copy(src.join(&rel), &to)?;
        n += 1;
    }
    Ok(n)
}

/// class letter of a relative path: d data, x deletion, i index, t transaction, m final manifest, s staging manifest,
/// r `_refs/…`, o anything else
fn class_of(rel: &str) -> char {
    if rel.starts_with("data/") {
        'd'
    } else if rel.starts_with("_deletions/") {
        'x'
    } else if rel.starts_with("_indices/") {
        'i'
    } else if rel.starts_with("_transactions/") {
        't'
    } else if let Some(name) = rel.strip_prefix("_versions/") {
        if name.ends_with(".manifest") {
            'm'
        } else {
            's'
        }
    } else if rel.starts_with("_refs/") {
        'r'
    } else {
        'o'
    }
}

fn contains_bytes(hay: &[u8], needle: &[u8]) -> bool {
    !needle.is_empty() && hay.windows(needle.len()).any(|w| w == needle)
}

// ------------------------------------------------------------------------------------------------
// what the MODEL is compared on

#[derive(Clone, Debug, PartialEq, Eq)]
struct View {
    version: u64,
    k: usize,
    rows: Vec<Row>,
    n_indices: usize,
    cfg: Option<String>,
}
impl View {
    fn body(&self) -> String {
        format!("{}:{}:{}:{}", self.k, tablekit::show_rows(&self.rows), self.n_indices, self.cfg.clone().unwrap_or_else(|| "n".into()))
    }
    fn show(&self) -> String {
        format!("{}:{}", self.version, self.body())
    }
}

async fn view_of(ds: &Dataset) -> Result<View, String> {
    let k = ds.schema().fields.len();
    let spec = spec_k(k);
    let mut sc = ds.scan();
    sc.scan_in_order(true);
    let batch = sc.try_into_batch().await.map_err(|e| format!("scan: {e}"))?;
    let mut rows = spec.decode(&batch, &[]).map_err(|e| format!("decode: {}", e.0))?;
    rows.sort();
    let n = ds.count_rows(None).await.map_err(|e| format!("count_rows: {e}"))?;
    if n != rows.len() {
        return Err(format!("count_rows {n} != scanned {}", rows.len()));
    }
    let idx = ds.load_indices().await.map_err(|e| format!("load_indices: {e}"))?;
    // an index is only "there" if it can be USED from here
    if !idx.is_empty() && n > 0 {
        let mut sc = ds.scan();
        sc.filter("c0 >= 0").map_err(|e| format!("filter: {e}"))?;
        sc.try_into_batch().await.map_err(|e| format!("indexed scan: {e}"))?;
    }
    // … and OPENED from here, whatever the number of rows
    for i in idx.iter() {
        ds.index_statistics(&i.name).await.map_err(|e| format!("index_statistics {}: {e}", i.name))?;
    }
    // the transaction file of the version (named relative to the root)
    ds.read_transaction().await.map_err(|e| format!("read_transaction: {e}"))?;
    let cfg = ds.manifest().config.get("k").cloned();
    Ok(View { version: ds.manifest().version, k, rows, n_indices: idx.len(), cfg })
}

#[derive(Clone, Debug, Default)]
struct Obs {
    latest: Option<u64>,
    versions: Vec<u64>,
    /// `Err` = listed but unreadable
    views: Vec<(u64, Result<View, String>)>,
    detached: Vec<String>,
    files: Vec<(char, usize)>,
    names: Vec<String>,
    tags: Vec<(String, u64)>,
    bases: usize,
    based: usize,
    /// manifests containing the absolute path of a root
    leak: usize,
    /// files of any class containing the absolute path of a root
    leak_any: Vec<String>,
    problems: Vec<String>,
}

impl Obs {
    fn show_files(&self) -> String {
        self.files.iter().filter(|(c, _)| "dxitms".contains(*c)).map(|(c, n)| format!("{c}{n}")).collect::<Vec<_>>().join(",")
    }
    fn show_head(&self) -> String {
        format!(
            "L={} V={}",
            self.latest.map(|v| v.to_string()).unwrap_or_else(|| "none".into()),
            show_nat_list(self.versions.iter().copied())
        )
    }
    fn show_view(v: &(u64, Result<View, String>)) -> String {
        match &v.1 {
            Ok(view) => view.show(),
            Err(_) => format!("{}:UNREADABLE", v.0),
        }
    }
    /// the short form printed after a table op: only the latest view
    fn show_short(&self) -> String {
        let last = self.views.last().map(Self::show_view).unwrap_or_else(|| "-".into());
        format!("{} | {} | files={}", self.show_head(), last, self.show_files())
    }
    fn show_full(&self) -> String {
        let views = if self.views.is_empty() { "-".to_string() } else { self.views.iter().map(Self::show_view).collect::<Vec<_>>().join(" ") };
        format!(
            "{} | {} | D={} | files={} | vers={} | tags={} | bases={}/{} | leak={}",
            self.show_head(),
            views,
            if self.detached.is_empty() { "-".to_string() } else { self.detached.join(" ") },
            self.show_files(),
            if self.names.is_empty() { "-".to_string() } else { self.names.join(",") },
            if self.tags.is_empty() { "-".to_string() } else { self.tags.iter().map(|(n, v)| format!("{n}:{v}")).collect::<Vec<_>>().join(",") },
            self.bases,
            self.based,
            self.leak
        )
    }
}

fn count_based(ds: &Dataset, idx: &[lance_table::format::IndexMetadata]) -> usize {
    let mut n = 0;
    for f in ds.manifest().fragments.iter() {
        n += f.files.iter().filter(|d| d.base_id.is_some()).count();
        if let Some(d) = &f.deletion_file {
            if d.base_id.is_some() {
                n += 1;
            }
        }
    }
    n + idx.iter().filter(|i| i.base_id.is_some()).count()
}

/// re-open the table at `dir` through fresh sessions and read what a reader can see; `all` = every version, else only
/// the latest one; `roots` = absolute paths to look for inside the stored bytes
async fn observe(dir: &FsPath, all: bool, roots: &[String]) -> Obs {
    let mut o = Obs::default();
    let uri = dir.to_string_lossy().to_string();
    let mut counts: Vec<(char, usize)> = "dxitmsro".chars().map(|c| (c, 0)).collect();
    let mut detached_versions: Vec<u64> = vec![];
    for rel in walk(dir) {
        let c = class_of(&rel);
        counts.iter_mut().find(|(k, _)| *k == c).unwrap().1 += 1;
        if c == 'o' {
            o.problems.push(format!("unexpected object {rel}"));
        }
        if c == 'm' || c == 's' {
            let name = rel.strip_prefix("_versions/").unwrap().to_string();
            if let Some(v) = name.strip_prefix('d').and_then(|n| n.strip_suffix(".manifest")).and_then(|n| n.parse::<u64>().ok()) {
                detached_versions.push(v);
            }
            // a detached manifest is named after a random number
            o.names.push(if name.starts_with('d') && name.ends_with(".manifest") { "dN.manifest".to_string() } else { name });
        }
        if let Ok(bytes) = std::fs::read(dir.join(&rel)) {
            // (an object-store path has no leading slash)
            if roots.iter().any(|r| contains_bytes(&bytes, r.trim_start_matches('/').as_bytes())) {
                if c == 'm' {
                    o.leak += 1;
                }
                o.leak_any.push(rel.clone());
            }
        }
    }
    o.names.sort();
    o.files = counts;
    let ds = match open(&uri, None).await {
        Ok(ds) => ds,
        Err(e) => {
            if !matches!(canon_err(&e), tablekit::ErrKind::NotFound) {
                o.problems.push(format!("open: {e}"));
            }
            return o;
        }
    };
    let latest = ds.manifest().version;
    o.latest = Some(latest);
    match ds.latest_version_id().await {
        Ok(v) if v == latest => {}
        other => o.problems.push(format!("latest_version_id {other:?} != opened version {latest}")),
    }
    o.versions = match ds.versions().await {
        Ok(vs) => vs.iter().map(|v| v.version).collect(),
        Err(e) => {
            o.problems.push(format!("versions(): {e}"));
            vec![]
        }
    };
    o.bases = ds.manifest().base_paths.len();
    o.based = match ds.load_indices().await {
        Ok(idx) => count_based(&ds, &idx),
        Err(_) => count_based(&ds, &[]),
    };
    let todo: Vec<u64> = if all { o.versions.clone() } else { o.versions.last().copied().into_iter().collect() };
    for v in todo {
        let r = match open(&uri, Some(v)).await {
            Ok(d) => match view_of(&d).await {
                Ok(view) if view.version == v => Ok(view),
                Ok(view) => Err(format!("version {v} opened as {}", view.version)),
                Err(e) => Err(e),
            },
            Err(e) => Err(format!("open version {v}: {e}")),
        };
        o.views.push((v, r));
    }
    if all {
        for v in detached_versions {
            match open(&uri, Some(v)).await {
                Ok(d) => match view_of(&d).await {
                    Ok(view) => o.detached.push(view.body()),
                    Err(_) => o.detached.push("UNREADABLE".into()),
                },
                Err(_) => o.detached.push("UNREADABLE".into()),
            }
        }
        o.detached.sort();
        match ds.tags().list().await {
            Ok(t) => {
                let mut tv: Vec<(String, u64)> = t.into_iter().map(|(n, c)| (n, c.version)).collect();
                tv.sort();
                o.tags = tv;
            }
            Err(e) => o.problems.push(format!("tags().list(): {e}")),
        }
    }
    o
}

// ------------------------------------------------------------------------------------------------
// the ORACLE's snapshot: everything the property talks about, as canonical strings

#[derive(Clone, Debug, PartialEq, Eq, Default)]
struct Snap {
    latest: u64,
    versions: Vec<u64>,
    /// per version (attached and detached): canonical description
    per_version: BTreeMap<u64, String>,
    tags: BTreeMap<String, String>,
    rel_paths: Vec<String>,
}

async fn describe_version(ds: &Dataset, stable: bool) -> Result<String, String> {
    let k = ds.schema().fields.len();
    let spec = spec_k(k);
    let schema: Vec<String> =
        ds.schema().fields.iter().map(|f| format!("{}#{}:{:?}:{}", f.name, f.id, f.data_type(), f.nullable)).collect();
    // ordered scan, with the stable row id when there is one
    let mut sc = ds.scan();
    sc.scan_in_order(true);
    let meta: Vec<&str> = if stable {
        sc.with_row_id();
        vec!["_rowid"]
    } else {
        vec![]
    };
    let batch = sc.try_into_batch().await.map_err(|e| format!("scan: {e}"))?;
    let rows = spec.decode(&batch, &meta).map_err(|e| format!("decode: {}", e.0))?;
    let n = rows.len();
    // random access
    let take = if n > 0 {
        let idx: Vec<u64> = vec![0, (n / 2) as u64, (n - 1) as u64];
        let b = ds
            .take(&idx, ProjectionRequest::from_schema(ds.schema().clone()))
            .await
            .map_err(|e| format!("take: {e}"))?;
        tablekit::show_rows(&spec.decode(&b, &[]).map_err(|e| format!("decode take: {}", e.0))?)
    } else {
        "-".into()
    };
    // a filter the index (if any) answers
    let mut keys: Vec<i64> = rows.iter().filter_map(|r| r[0]).collect();
    keys.sort();
    let med = keys.get(keys.len() / 2).copied().unwrap_or(0);
    let mut sc = ds.scan();
    sc.filter(&format!("c0 >= {med}")).map_err(|e| format!("filter: {e}"))?;
    let fb = sc.try_into_batch().await.map_err(|e| format!("filtered scan: {e}"))?;
    let mut frows = spec.decode(&fb, &[]).map_err(|e| format!("decode filter: {}", e.0))?;
    frows.sort();
    let idx = ds.load_indices().await.map_err(|e| format!("load_indices: {e}"))?;
    let mut idx_s: Vec<String> = idx
        .iter()
        .map(|i| {
            format!(
                "{}@{}:{:?}:{:?}:v{}",
                i.name,
                i.uuid,
                i.fields,
                i.fragment_bitmap.as_ref().map(|b| b.iter().collect::<Vec<u32>>()),
                i.dataset_version
            )
        })
        .collect();
    idx_s.sort();
    let mut cfg: Vec<String> = ds.manifest().config.iter().map(|(k, v)| format!("{k}={v}")).collect();
    cfg.sort();
    let frags = tablekit::show_frags(&tablekit::Kit::fragments(ds));
    let files: Vec<String> = ds
        .manifest()
        .fragments
        .iter()
        .flat_map(|f| f.files.iter().map(|d| d.path.clone()).collect::<Vec<_>>())
        .collect();
    let tx = ds.read_transaction().await.map_err(|e| format!("read_transaction: {e}"))?;
    Ok(format!(
        "schema=[{}] rows={} take={} filt(c0>={med})={} idx=[{}] cfg=[{}] frags={} files=[{}] txfile={:?} tx={}",
        schema.join(","),
        tablekit::show_rows(&rows),
        take,
        tablekit::show_rows(&frows),
        idx_s.join(";"),
        cfg.join(","),
        frags,
        files.join(","),
        ds.manifest().transaction_file,
        tx.map(|t| format!("{}@{}", t.operation, t.read_version)).unwrap_or_else(|| "none".into())
    ))
}

async fn snapshot(dir: &FsPath, stable: bool) -> Result<Snap, String> {
    let uri = dir.to_string_lossy().to_string();
    let ds = open(&uri, None).await.map_err(|e| format!("open: {e}"))?;
    let mut s = Snap { latest: ds.manifest().version, ..Default::default() };
    s.versions = ds.versions().await.map_err(|e| format!("versions: {e}"))?.iter().map(|v| v.version).collect();
    s.rel_paths = walk(dir);
    let mut all = s.versions.clone();
    for rel in &s.rel_paths {
        if let Some(v) = rel
            .strip_prefix("_versions/d")
            .and_then(|n| n.strip_suffix(".manifest"))
            .and_then(|n| n.parse::<u64>().ok())
        {
            all.push(v);
        }
    }
    for v in all {
        let d = open(&uri, Some(v)).await.map_err(|e| format!("open version {v}: {e}"))?;
        if d.manifest().version != v {
            return Err(format!("version {v} opened as {}", d.manifest().version));
        }
        s.per_version.insert(v, describe_version(&d, stable).await.map_err(|e| format!("version {v}: {e}"))?);
    }
    let tags = ds.tags().list().await.map_err(|e| format!("tags: {e}"))?;
    for (name, c) in tags {
        // checkout BY TAG
        let d = ds.checkout_version(name.as_str()).await.map_err(|e| format!("checkout tag {name}: {e}"))?;
        let rows = view_of(&d).await.map_err(|e| format!("tag {name}: {e}"))?;
        s.tags.insert(name, format!("{:?}@{} size={} -> {}", c.branch, c.version, c.manifest_size, rows.show()));
    }
    Ok(s)
}

// ------------------------------------------------------------------------------------------------

struct C42 {
    rt: tokio::runtime::Runtime,
}

struct CaseSt {
    cfg: Cfg,
    tmp: Vec<tempfile::TempDir>,
    root: PathBuf,
    /// absolute paths of every root this case used
    roots: Vec<String>,
    clone: Option<PathBuf>,
    clone_copy: Option<PathBuf>,
    exists: bool,
}

impl CaseSt {
    fn fresh_dir(&mut self, name: &str) -> PathBuf {
        let d = tempfile::Builder::new().prefix("c42-").tempdir().expect("tempdir");
        let p = d.path().join(name);
        self.tmp.push(d);
        self.roots.push(p.to_string_lossy().to_string());
        p
    }
}

fn valid_tag(s: &str) -> bool {
    !s.is_empty() && s.len() <= 12 && s.bytes().all(|b| b.is_ascii_alphanumeric()) && s.as_bytes()[0].is_ascii_alphabetic()
}

impl C42 {
    fn exec_line(&mut self, st: &mut Option<CaseSt>, line: &str, li: usize, res: &mut CaseResult) -> String {
        let toks: Vec<&str> = line.split(' ').filter(|t| !t.is_empty()).collect();
        let fail = |res: &mut CaseResult, key: &str, what: String| {
            res.failures.push(OracleFailure { what: format!("{line}: {what}"), key: Some(key.into()), line: li });
        };
        if toks.first() == Some(&"cfg") {
            return match Cfg::parse(&toks) {
                Some(cfg) => {
                    let mut c = CaseSt { cfg, tmp: vec![], root: PathBuf::new(), roots: vec![], clone: None, clone_copy: None, exists: false };
                    c.root = c.fresh_dir("orig.lance");
                    *st = Some(c);
                    res.tags.push(format!("cfg:v2={}:s={}", cfg.v2 as u8, cfg.stable as u8));
                    "cfg ok".into()
                }
                None => "err parse".into(),
            };
        }
        // parse before looking at the state (same order as the Lean driver)
        enum L {
            Table(Op),
            Tag(String, u64),
            Untag(String),
            Copy,
            Clone(u64),
            CopyClone,
            RmSource,
        }
        let parsed = match toks.as_slice() {
            ["tag", n, v] if valid_tag(n) => parse_nat(v).map(|v| L::Tag(n.to_string(), v)),
            ["untag", n] if valid_tag(n) => Some(L::Untag(n.to_string())),
            ["copy"] => Some(L::Copy),
            ["clone", v] => parse_nat(v).map(L::Clone),
            ["copyclone"] => Some(L::CopyClone),
            ["rmsource"] => Some(L::RmSource),
            _ => Op::parse(&toks).map(L::Table),
        };
        let Some(parsed) = parsed else {
            res.tags.push("err:parse".into());
            return "err parse".into();
        };
        let Some(c) = st.as_mut() else { return "err no_cfg".into() };
        // after a clone only copyclone / rmsource make sense; after rmsource nothing
        let cloned = c.clone.is_some();
        match (&parsed, cloned) {
            (L::CopyClone | L::RmSource, false) => return "err no_clone".into(),
            (L::CopyClone | L::RmSource, true) => {}
            (_, true) => return "err cloned".into(),
            _ => {}
        }
        let uri = c.root.to_string_lossy().to_string();
        let cfg = c.cfg;
        match parsed {
            L::Table(op) => {
                res.tags.push(format!("op:{}", op.kind()));
                let r = self.rt.block_on(do_op(cfg, op, &uri));
                let o = self.rt.block_on(observe(&c.root, false, &c.roots));
                c.exists = o.latest.is_some();
                for p in &o.problems {
                    fail(res, "unreadable", p.clone());
                }
                if let Some((v, Err(e))) = o.views.last() {
                    fail(res, "unreadable", format!("version {v}: {e}"));
                }
                let shown = match r {
                    Ok(v) if lance_table::format::is_detached_version(v) => "ok D".to_string(),
                    Ok(v) => format!("ok {v}"),
                    Err(e) => {
                        res.tags.push(format!("err:{}", e.kind()));
                        format!("err {}", e.kind())
                    }
                };
                format!("{shown} | {}", o.show_short())
            }
            L::Tag(name, v) => {
                res.tags.push("op:tag".into());
                let r = self.rt.block_on(async {
                    let ds = open(&uri, None).await?;
                    ds.tags().create(&name, v).await
                });
                match r {
                    Ok(()) => "ok".into(),
                    Err(e) => format!("err {}", canon_err(&e).as_str()),
                }
            }
            L::Untag(name) => {
                res.tags.push("op:untag".into());
                let r = self.rt.block_on(async {
                    let ds = open(&uri, None).await?;
                    ds.tags().delete(&name).await
                });
                match r {
                    Ok(()) => "ok".into(),
                    Err(e) => format!("err {}", canon_err(&e).as_str()),
                }
            }
            L::Copy => {
                res.tags.push("op:copy".into());
                if !c.root.exists() {
                    return "err not_found".into();
                }
                // 1. snapshot of the original
                let before = if c.exists { Some(self.rt.block_on(snapshot(&c.root, cfg.stable))) } else { None };
                if let Some(Err(e)) = &before {
                    fail(res, "unreadable", format!("the original cannot be read: {e}"));
                }
                // 2. copy the tree, 3. REMOVE the original
                let old = c.root.clone();
                let new = c.fresh_dir("copy.lance");
                let n = copy_tree(&old, &new).expect("copy_tree");
                std::fs::remove_dir_all(&old).expect("remove original");
                c.root = new.clone();
                // 4. read the copy (fresh sessions)
                let o = self.rt.block_on(observe(&new, true, &c.roots));
                if let Some(Ok(b)) = &before {
                    res.nontrivial = true;
                    match self.rt.block_on(snapshot(&new, cfg.stable)) {
                        Ok(a) => {
                            if a != *b {
                                let mut diff = vec![];
                                if a.latest != b.latest || a.versions != b.versions {
                                    diff.push(format!("versions {:?}/{} -> {:?}/{}", b.versions, b.latest, a.versions, a.latest));
                                }
                                for (v, d) in &b.per_version {
                                    if a.per_version.get(v) != Some(d) {
                                        diff.push(format!("version {v}: original {d} | copy {:?}", a.per_version.get(v)));
                                    }
                                }
                                if a.tags != b.tags {
                                    diff.push(format!("tags {:?} -> {:?}", b.tags, a.tags));
                                }
                                if a.rel_paths != b.rel_paths {
                                    diff.push("relative paths differ".into());
                                }
                                fail(res, "copy_differs", diff.join(" ; "));
                            }
                        }
                        Err(e) => fail(res, "copy_unreadable", e),
                    }
                    res.tags.push(format!("copied_versions:{}", b.versions.len().min(9)));
                    if !b.tags.is_empty() {
                        res.tags.push("copied_with_tags".into());
                    }
                    if b.per_version.values().any(|d| !d.contains("idx=[]")) {
                        res.tags.push("copied_with_index".into());
                    }
                    if b.rel_paths.iter().any(|p| p.starts_with("_deletions/")) {
                        res.tags.push("copied_with_deletions".into());
                    }
                }
                for p in &o.problems {
                    fail(res, "copy_unreadable", p.clone());
                }
                for (v, r) in &o.views {
                    if let Err(e) = r {
                        fail(res, "copy_unreadable", format!("version {v}: {e}"));
                    }
                }
                if !o.leak_any.is_empty() {
                    fail(res, "abs_path_stored", format!("files storing the absolute path of a root: {:?}", o.leak_any));
                }
                if o.bases != 0 || o.based != 0 {
                    fail(res, "base_path_introduced", format!("base_paths={} files with base id={}", o.bases, o.based));
                }
                format!("copied n={n} | {}", o.show_full())
            }
            L::Clone(v) => {
                res.tags.push("op:clone".into());
                let target = c.fresh_dir("clone.lance");
                let r = self.rt.block_on(async {
                    let mut ds = open(&uri, None).await?;
                    ds.shallow_clone(&target.to_string_lossy(), v, None).await
                });
                match r {
                    Ok(_) => {
                        c.clone = Some(target.clone());
                        let o = self.rt.block_on(observe(&target, true, &c.roots));
                        format!("cloned | {}", o.show_full())
                    }
                    Err(e) => format!("err {}", canon_err(&e).as_str()),
                }
            }
            L::CopyClone => {
                res.tags.push("op:copyclone".into());
                if c.clone_copy.is_some() {
                    return "err cloned".into();
                }
                let src = c.clone.clone().unwrap();
                let new = c.fresh_dir("clonecopy.lance");
                let n = copy_tree(&src, &new).expect("copy_tree");
                c.clone_copy = Some(new.clone());
                let o = self.rt.block_on(observe(&new, true, &c.roots));
                format!("copied n={n} | {}", o.show_full())
            }
            L::RmSource => {
                res.tags.push("op:rmsource".into());
                let Some(cc) = c.clone_copy.clone() else { return "err no_clone".into() };
                if c.root.exists() {
                    std::fs::remove_dir_all(&c.root).expect("remove source");
                }
                res.nontrivial = true;
                let o = self.rt.block_on(observe(&cc, true, &c.roots));
                format!("removed | {}", o.show_full())
            }
        }
    }

    fn random_case(rng: &mut Rng) -> Vec<String> {
        let malformed = rng.chance(3, 20);
        let cfg = Cfg { v2: rng.chance(1, 2), stable: rng.chance(1, 2) };
        let mut lines = vec![cfg.show()];
        let mut exists = false;
        // k of every version (index = version - 1)
        let mut ks: Vec<usize> = vec![];
        let mut k = 2usize;
        let mut next_key = 1i64;
        let mut has_index = false;
        let mut uniform = true;
        let mut tags: Vec<String> = vec![];
        let mut copies = 0;
        let len = 4 + rng.usize(6);
        let rows = |rng: &mut Rng, k: usize, n: usize, next_key: &mut i64| -> String {
            let rs: Vec<Row> = (0..n)
                .map(|_| {
                    let key = *next_key;
                    *next_key += 1;
                    (0..k).map(|c| if c == 0 { Some(key) } else if rng.chance(1, 8) { None } else { Some(key * 10 + c as i64) }).collect()
                })
                .collect();
            tablekit::show_rows(&rs)
        };
        let mut i = 0;
        while i < len {
            i += 1;
            let line = if !exists {
                if malformed && rng.chance(1, 3) {
                    rng.pick(&["append f=2 1,10", "delete 1", "copy", "tag t1 1", "restore 1", "clone 1"]).to_string()
                } else {
                    k = if rng.chance(1, 5) { 1 + rng.usize(3) } else { 2 };
                    let n = 1 + rng.usize(5);
                    exists = true;
                    ks.push(k);
                    format!("create f={} {}", 1 + rng.usize(3), rows(rng, k, n, &mut next_key))
                }
            } else {
                let nver = ks.len() as u64;
                match rng.below(22) {
                    0 | 1 | 2 => {
                        uniform = !has_index;
                        let n = 1 + rng.usize(3);
                        ks.push(k);
                        format!("append f={} {}", 1 + rng.usize(3), rows(rng, k, n, &mut next_key))
                    }
                    3 => {
                        has_index = false;
                        uniform = true;
                        if rng.chance(1, 4) {
                            k = 1 + rng.usize(3);
                        }
                        let n = rng.usize(5);
                        ks.push(k);
                        format!("overwrite f={} {}", 1 + rng.usize(3), rows(rng, k, n, &mut next_key))
                    }
                    4 | 5 | 6 => {
                        ks.push(k);
                        format!("delete {}", rng.range(0, next_key as u64 + 1))
                    }
                    7 | 8 if k >= 2 => {
                        uniform = !has_index;
                        ks.push(k);
                        format!("update {} {}", rng.range(0, next_key as u64), rng.below(100))
                    }
                    9 => {
                        uniform = !has_index;
                        let old = rng.range(1, next_key as u64) as i64;
                        let fresh = next_key;
                        next_key += 1;
                        let mk = |key: i64| -> Row { (0..k).map(|c| if c == 0 { Some(key) } else { Some(key * 100 + c as i64) }).collect() };
                        ks.push(k);
                        format!("upsert {}", tablekit::show_rows(&[mk(old), mk(fresh)]))
                    }
                    10 | 11 if uniform => {
                        // two commits (or none: then the generator's version count runs ahead, which only makes later
                        // `restore` / `tag` lines miss)
                        ks.push(k);
                        ks.push(k);
                        "compact".to_string()
                    }
                    12 | 13 => {
                        has_index = true;
                        uniform = true;
                        ks.push(k);
                        "index".to_string()
                    }
                    14 if k < 3 => {
                        k += 1;
                        ks.push(k);
                        "addcol".to_string()
                    }
                    15 if k >= 2 || malformed => {
                        if k >= 2 {
                            k -= 1;
                        }
                        ks.push(k);
                        "dropcol".to_string()
                    }
                    16 => {
                        ks.push(k);
                        format!("config {}", rng.below(50))
                    }
                    17 if nver >= 2 => {
                        uniform = false;
                        let v = if malformed && rng.chance(1, 3) { nver + 5 } else { rng.range(1, nver) };
                        if let Some(kk) = ks.get(v as usize - 1).copied() {
                            k = kk;
                            ks.push(kk);
                        }
                        has_index = false;
                        format!("restore {v}")
                    }
                    18 if rng.chance(1, 2) => {
                        let n = 1 + rng.usize(2);
                        format!("dappend f=2 {}", rows(rng, k, n, &mut next_key))
                    }
                    19 | 20 => {
                        if !tags.is_empty() && rng.chance(1, 4) {
                            let t = tags.remove(rng.usize(tags.len()));
                            format!("untag {t}")
                        } else {
                            let name = format!("t{}", 1 + rng.usize(4));
                            let v = if malformed && rng.chance(1, 3) { nver + 3 } else { rng.range(1, nver) };
                            if !tags.contains(&name) {
                                tags.push(name.clone());
                            }
                            format!("tag {name} {v}")
                        }
                    }
                    21 if copies < 2 && i > 2 => {
                        copies += 1;
                        "copy".to_string()
                    }
                    _ => {
                        ks.push(k);
                        format!("config {}", rng.below(50))
                    }
                }
            };
            let line = if malformed && rng.chance(1, 10) {
                match rng.below(5) {
                    0 => line.replacen("f=", "f=x", 1),
                    1 => format!("{line} 7"),
                    2 => "create f=2 1,10;2,20".to_string(),
                    3 => "tag bad/name 1".to_string(),
                    _ => "append f=2 1,2,3,4".to_string(),
                }
            } else {
                line
            };
            lines.push(line);
        }
        // every case ends with a copy (and sometimes goes on at the new place, then copies again), or with the
        // shallow-clone scenario
        if rng.chance(1, 6) {
            let nver = ks.len().max(1) as u64;
            lines.push(format!("clone {}", rng.range(1, nver)));
            lines.push("copyclone".into());
            lines.push("rmsource".into());
        } else {
            lines.push("copy".into());
            if rng.chance(1, 3) {
                let n = 1 + rng.usize(2);
                lines.push(format!("append f=2 {}", rows(rng, k, n, &mut next_key)));
                lines.push(format!("delete {}", rng.range(1, next_key as u64)));
                lines.push("copy".into());
            }
        }
        lines
    }
}

impl Prop for C42 {
    fn id(&self) -> &'static str {
        "C42"
    }

    fn budget(&self, tier: Tier) -> usize {
        match tier {
            Tier::Quick => 70,
            Tier::Thorough => 1500,
            Tier::Search => 500,
        }
    }

    fn gen_case(&mut self, rng: &mut Rng, _tier: Tier, _idx: usize) -> Vec<String> {
        Self::random_case(rng)
    }

    fn exec_case(&mut self, lines: &[String]) -> CaseResult {
        let mut res = CaseResult::default();
        let mut st: Option<CaseSt> = None;
        for (li, line) in lines.iter().enumerate() {
            let out = self.exec_line(&mut st, line, li, &mut res);
            res.outputs.push(out);
        }
        res
    }

    fn rule(&self) -> String {
        "seeded random histories of 4-9 operations (create, append, overwrite, delete, update, merge_insert, compaction, create_index(BTree), add/drop column, update_config, restore, detached append, tag create/delete) on a table in a fresh local directory, with stable row ids on/off and v1/v2 manifest names; then `copy` (recursive file copy to a new directory, the original directory REMOVED, fresh session), in a third of the cases followed by more writes at the new place and a second copy; one case in six ends with shallow_clone + copy of the clone + removal of the source instead (outside the claim). 15 % of the cases malformed (syntax errors, operations before create, width mismatches, missing versions, invalid tag names). A case is non-trivial if a copy of an existing table was compared with its snapshot (or the clone scenario ran to the end).".into()
    }
}

fn main() {
    let rt = tokio::runtime::Builder::new_current_thread().enable_all().build().unwrap();
    run_main(C42 { rt })
}
