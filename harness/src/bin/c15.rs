//! C15: random access (`take`, `take_rows`, take by address, `RowIdIndex::get`, `OffsetMapper`) agrees with
//! the ordered scan.  Interpreter of the C15 line protocol against the real lance code, a seeded
//! generator of cases, and the property oracle (take results vs the rows the ordered scan shows).
//!
//! Line protocol (see lean/LanceModel/C15/Driver.lean):
//!   hist create <stable> <n> <max_rows_per_file> | hist append <n> | hist delete <ks> | hist update <ks> <v>
//!   | hist compact <target_rows> <materialize>        history ops, executed here only            -> ok
//!   ds <stable> <nfrags>                              the layout the history produced            -> ok <stable> <nfrags>
//!   frag <id> <nphys> <dv> <ks> <xs> <rowids>         i-th fragment (manifest order)             -> same + live=<count_rows>
//!   synth <nfrags> / sfrag <id> <nphys> <dv> <rowids> <seglens>   synthetic row-id layout (RowIdIndex only)
//!   count | scan | take <cols> <offs> | takerows <cols> <ids> | takeaddr <cols> <addrs> | idx <ids>
//!   map <S|B> <dv> <offs>                             OffsetMapper on a Set / Bitmap deletion vector

use std::collections::{BTreeMap, HashMap, HashSet};
use std::panic::{catch_unwind, AssertUnwindSafe};
use std::sync::Arc;

use arrow_array::{Array, Int32Array, RecordBatch, RecordBatchIterator, UInt64Array};
use arrow_schema::{DataType, Field, Schema};
use hcommon::*;
use lance::dataset::optimize::{compact_files, CompactionOptions};
use lance::dataset::{ProjectionRequest, TakeBuilder, UpdateBuilder, WriteMode, WriteParams};
use lance::Dataset;
use lance_core::utils::deletion::{DeletionVector, OffsetMapper};
use lance_table::format::RowIdMeta;
use lance_table::rowids::{read_row_ids, FragmentRowIdIndex, RowIdIndex, RowIdSequence};
use roaring::RoaringBitmap;

const DELETED_VAL: u64 = 999_999; // placeholder for the data of a deleted physical row (never observable)

/// compact list notation (shadows the plain parser of hcommon; a superset): `-` | items separated by commas, an item is
/// `n`, `a..b` (a, a+1, …, b) or `v*n` (n copies of v)
fn parse_nat_list(s: &str) -> Option<Vec<u64>> {
    if s == "-" {
        return Some(vec![]);
    }
    let mut out = vec![];
    for t in s.split(',') {
        if let Some((a, b)) = t.split_once("..") {
            let (a, b): (u64, u64) = (a.parse().ok()?, b.parse().ok()?);
            if a > b || b - a > 100_000 {
                return None;
            }
            out.extend(a..=b);
        } else if let Some((v, n)) = t.split_once('*') {
            let (v, n): (u64, u64) = (v.parse().ok()?, n.parse().ok()?);
            if n > 100_000 {
                return None;
            }
            out.extend(std::iter::repeat(v).take(n as usize));
        } else {
            out.push(t.parse().ok()?);
        }
    }
    Some(out)
}

/// canonical compact form: ascending runs of >= 3 as `a..b`, constant runs of >= 3 as `v*n`
fn show_compact(v: &[u64]) -> String {
    if v.is_empty() {
        return "-".into();
    }
    let mut items: Vec<String> = vec![];
    let mut i = 0;
    while i < v.len() {
        let mut j = i;
        while j + 1 < v.len() && v[j + 1] == v[j] + 1 {
            j += 1;
        }
        if j - i >= 2 {
            items.push(format!("{}..{}", v[i], v[j]));
            i = j + 1;
            continue;
        }
        let mut j = i;
        while j + 1 < v.len() && v[j + 1] == v[i] {
            j += 1;
        }
        if j - i >= 2 {
            items.push(format!("{}*{}", v[i], j - i + 1));
            i = j + 1;
            continue;
        }
        items.push(v[i].to_string());
        i += 1;
    }
    items.join(",")
}

fn derived_xs(ks: &[u64]) -> Vec<u64> {
    ks.iter().map(|k| if *k == DELETED_VAL { DELETED_VAL } else { (k * 7 + 3) % 50 }).collect()
}

#[derive(Clone, Debug, PartialEq)]
struct FragInfo {
    id: u64,
    nphys: u64,
    dv: Vec<u64>,
    ks: Vec<u64>,
    xs: Vec<u64>,
    rowids: Vec<u64>,
    live: u64,
}

impl FragInfo {
    /// compact form used by the large-fragment family
    fn line_compact(&self) -> String {
        format!(
            "frag {} {} {} {} {} {}",
            self.id,
            self.nphys,
            show_compact(&self.dv),
            show_compact(&self.ks),
            if self.xs == derived_xs(&self.ks) { "=".to_string() } else { show_compact(&self.xs) },
            show_compact(&self.rowids)
        )
    }

    /// does an op line `frag …` describe exactly this fragment (in whatever notation)?
    fn matches(&self, toks: &[&str]) -> bool {
        if toks.len() != 7 {
            return false;
        }
        let ks = parse_nat_list(toks[4]);
        let xs = if toks[5] == "=" { ks.as_ref().map(|k| derived_xs(k)) } else { parse_nat_list(toks[5]) };
        toks[1].parse::<u64>().ok() == Some(self.id)
            && toks[2].parse::<u64>().ok() == Some(self.nphys)
            && parse_nat_list(toks[3]).as_ref() == Some(&self.dv)
            && ks.as_ref() == Some(&self.ks)
            && xs.as_ref() == Some(&self.xs)
            && parse_nat_list(toks[6]).as_ref() == Some(&self.rowids)
    }

    fn line(&self) -> String {
        format!(
            "frag {} {} {} {} {} {}",
            self.id,
            self.nphys,
            show_nat_list(self.dv.iter().copied()),
            show_nat_list(self.ks.iter().copied()),
            show_nat_list(self.xs.iter().copied()),
            show_nat_list(self.rowids.iter().copied())
        )
    }
}

#[derive(Clone, Debug, PartialEq)]
struct SRow {
    k: u64,
    x: u64,
    addr: u64,
    rowid: u64,
}

struct SynthFrag {
    id: u32,
    dv: Vec<u32>,
    rowids: Vec<u64>,
    seglens: Vec<usize>,
}

struct C15 {
    rt: tokio::runtime::Runtime,
    ds: Option<Dataset>,
    stable: bool,
    next_k: i32,
    layout: Option<Vec<FragInfo>>,
    scan: Option<Vec<SRow>>,
    frag_idx: usize,
    synth: Option<Vec<SynthFrag>>,
    /// a real call did not return: stop calling the real code (its thread is still spinning)
    poisoned: bool,
    /// worker thread (own runtime) that executes the random-access calls, so that the main thread can time out
    worker: Option<(std::sync::mpsc::Sender<(Dataset, String, Req)>, std::sync::mpsc::Receiver<Outcome>)>,
    map_worker: Option<MapWorker>,
}

fn schema() -> Arc<Schema> {
    Arc::new(Schema::new(vec![
        Field::new("k", DataType::Int32, false),
        Field::new("x", DataType::Int32, false),
    ]))
}

fn x_of(k: i32) -> i32 {
    (k * 7 + 3) % 50
}

fn panic_msg(e: Box<dyn std::any::Any + Send>) -> String {
    e.downcast_ref::<String>()
        .cloned()
        .or_else(|| e.downcast_ref::<&str>().map(|s| s.to_string()))
        .unwrap_or_else(|| "panic".into())
}

fn err_kind(e: &lance::Error) -> &'static str {
    match e {
        lance::Error::InvalidInput { .. } => "invalid_input",
        lance::Error::NotFound { .. } | lance::Error::DatasetNotFound { .. } => "not_found",
        lance::Error::NotSupported { .. } => "not_supported",
        _ => "other",
    }
}

fn col_name(c: char) -> Option<&'static str> {
    match c {
        'k' => Some("k"),
        'x' => Some("x"),
        'a' => Some("_rowaddr"),
        'i' => Some("_rowid"),
        _ => None,
    }
}

fn valid_cols(cols: &str) -> bool {
    !cols.is_empty() && cols.chars().all(|c| col_name(c).is_some())
}

/// rows of a batch as, per row, the requested columns' values (None = column missing / wrong type)
fn batch_rows(b: &RecordBatch, cols: &str) -> Option<Vec<Vec<u64>>> {
    let mut colv: Vec<Vec<u64>> = vec![];
    for c in cols.chars() {
        let arr = b.column_by_name(col_name(c)?)?;
        if let Some(a) = arr.as_any().downcast_ref::<Int32Array>() {
            if a.null_count() > 0 {
                return None;
            }
            colv.push(a.values().iter().map(|v| *v as u64).collect());
        } else if let Some(a) = arr.as_any().downcast_ref::<UInt64Array>() {
            if a.null_count() > 0 {
                return None;
            }
            colv.push(a.values().to_vec());
        } else {
            return None;
        }
    }
    Some((0..b.num_rows()).map(|i| colv.iter().map(|c| c[i]).collect()).collect())
}

fn show_rows(rows: &[Vec<u64>]) -> String {
    let body = if rows.is_empty() {
        "-".to_string()
    } else {
        rows.iter()
            .map(|r| r.iter().map(|v| v.to_string()).collect::<Vec<_>>().join(":"))
            .collect::<Vec<_>>()
            .join(" ")
    };
    format!("ok {} {}", rows.len(), body)
}

fn project(r: &SRow, cols: &str) -> Vec<u64> {
    cols.chars()
        .map(|c| match c {
            'k' => r.k,
            'x' => r.x,
            'a' => r.addr,
            _ => r.rowid,
        })
        .collect()
}

enum Outcome {
    Rows(Vec<Vec<u64>>),
    Err(&'static str),
    Panic(String),
    Garbled,
    /// the call did not return within the watchdog time (a spinning loop); the harness stops calling the real code
    NoReturn,
    Skipped,
}

/// one random-access request; executed on its own thread and runtime so that a call that never returns can be reported
enum Req {
    Take(Vec<u64>),
    Rows(Vec<u64>),
    Addr(Vec<u64>),
    Scan(Vec<(u64, u64)>),
}

const WATCHDOG_S: u64 = 12;

fn exec_scan(rt: &tokio::runtime::Runtime, ds: Dataset, cols: String, ranges: Vec<(u64, u64)>) -> Outcome {
    use futures::TryStreamExt;
    let r = catch_unwind(AssertUnwindSafe(|| {
        let names: Vec<&str> = cols.chars().map(|c| col_name(c).unwrap()).collect();
        rt.block_on(async {
            let schema = Arc::new(ds.schema().project(&names)?);
            let stream = futures::stream::iter(ranges.into_iter().map(|(s, e)| Ok(s..e)));
            let st = ds.take_scan(Box::pin(stream), schema, 2);
            let batches: Vec<RecordBatch> = st.try_collect().await?;
            lance::Result::Ok(batches)
        })
    }));
    match r {
        Err(e) => Outcome::Panic(panic_msg(e)),
        // the error passes through DataFusionError::External: only "an error" is compared
        Ok(Err(_)) => Outcome::Err("invalid_input"),
        Ok(Ok(bs)) => {
            let mut rows = vec![];
            for b in &bs {
                match batch_rows(b, &cols) {
                    Some(r) => rows.extend(r),
                    None => return Outcome::Garbled,
                }
            }
            Outcome::Rows(rows)
        }
    }
}

fn exec_req(rt: &tokio::runtime::Runtime, ds: Dataset, cols: String, req: Req) -> Outcome {
    let req = match req {
        Req::Scan(ranges) => return exec_scan(rt, ds, cols, ranges),
        r => r,
    };
    let r = catch_unwind(AssertUnwindSafe(|| {
        let names: Vec<&str> = cols.chars().map(|c| col_name(c).unwrap()).collect();
        let pr = ProjectionRequest::from_columns(names, ds.schema());
        rt.block_on(async {
            match req {
                Req::Take(offs) => ds.take(&offs, pr).await,
                Req::Rows(ids) => ds.take_rows(&ids, pr).await,
                Req::Addr(addrs) => {
                    let plan = Arc::new(pr.into_projection_plan(Arc::new(ds.clone()))?);
                    TakeBuilder::try_new_from_addresses(Arc::new(ds.clone()), addrs, plan)?.execute().await
                }
                Req::Scan(_) => unreachable!(),
            }
        })
    }));
    match r {
        Err(e) => Outcome::Panic(panic_msg(e)),
        Ok(Err(e)) => Outcome::Err(err_kind(&e)),
        Ok(Ok(b)) => match batch_rows(&b, &cols) {
            Some(r) => Outcome::Rows(r),
            None => Outcome::Garbled,
        },
    }
}

impl Outcome {
    fn show(&self) -> String {
        match self {
            Outcome::Rows(r) => show_rows(r),
            Outcome::Err(k) => format!("err {k}"),
            Outcome::Panic(_) => "panic".into(),
            Outcome::Garbled => "garbled".into(),
            Outcome::NoReturn => "noreturn".into(),
            Outcome::Skipped => "skipped".into(),
        }
    }
}

impl C15 {
    fn new() -> Self {
        let rt = tokio::runtime::Builder::new_current_thread().enable_all().build().unwrap();
        C15 { rt, ds: None, stable: false, next_k: 0, layout: None, scan: None, frag_idx: 0, synth: None, poisoned: false, worker: None, map_worker: None }
    }

    fn reset(&mut self) {
        self.ds = None;
        self.stable = false;
        self.next_k = 0;
        self.layout = None;
        self.scan = None;
        self.frag_idx = 0;
        self.synth = None;
    }

    fn batch(&mut self, n: usize) -> RecordBatchIterator<std::vec::IntoIter<Result<RecordBatch, arrow_schema::ArrowError>>> {
        let ks: Vec<i32> = (0..n as i32).map(|i| self.next_k + i).collect();
        self.next_k += n as i32;
        let xs: Vec<i32> = ks.iter().map(|k| x_of(*k)).collect();
        let b = RecordBatch::try_new(schema(), vec![Arc::new(Int32Array::from(ks)), Arc::new(Int32Array::from(xs))]).unwrap();
        RecordBatchIterator::new(vec![Ok(b)].into_iter(), schema())
    }

    /// execute one `hist` line on the real code; a panic inside lance is reported as `Err("panic …")`
    fn hist(&mut self, t: &[&str]) -> Result<(), String> {
        match catch_unwind(AssertUnwindSafe(|| self.hist_inner(t))) {
            Ok(r) => r,
            Err(e) => Err(format!("panic {}", panic_msg(e))),
        }
    }

    fn hist_inner(&mut self, t: &[&str]) -> Result<(), String> {
        self.layout = None;
        self.scan = None;
        match t {
            ["create", stable, n, maxrows] => {
                let stable = *stable == "1";
                let n: usize = n.parse().map_err(|_| "parse")?;
                let maxrows: usize = maxrows.parse().map_err(|_| "parse")?;
                if n == 0 || n > 4096 || maxrows == 0 {
                    return Err("range".into());
                }
                self.next_k = 0;
                let wp = WriteParams { enable_stable_row_ids: stable, max_rows_per_file: maxrows, ..Default::default() };
                let rd = self.batch(n);
                let ds = self.rt.block_on(Dataset::write(rd, "memory://", Some(wp))).map_err(|e| e.to_string())?;
                self.ds = Some(ds);
                self.stable = stable;
                Ok(())
            }
            ["append", n, maxrows] => {
                let n: usize = n.parse().map_err(|_| "parse")?;
                let maxrows: usize = maxrows.parse().map_err(|_| "parse")?;
                if n == 0 || n > 64 || maxrows == 0 || self.ds.is_none() {
                    return Err("range".into());
                }
                let wp = WriteParams {
                    enable_stable_row_ids: self.stable,
                    max_rows_per_file: maxrows,
                    mode: WriteMode::Append,
                    ..Default::default()
                };
                let rd = self.batch(n);
                let ds = self.ds.as_mut().unwrap();
                self.rt.block_on(ds.append(rd, Some(wp))).map_err(|e| e.to_string())
            }
            ["delete", ks] => {
                let ks = parse_nat_list(ks).ok_or("parse")?;
                let ds = self.ds.as_mut().ok_or("nods")?;
                if ks.is_empty() {
                    return Err("range".into());
                }
                let pred = format!("k in ({})", ks.iter().map(|k| k.to_string()).collect::<Vec<_>>().join(","));
                self.rt.block_on(ds.delete(&pred)).map_err(|e| e.to_string())
            }
            ["update", ks, v] => {
                let ks = parse_nat_list(ks).ok_or("parse")?;
                let v: i32 = v.parse().map_err(|_| "parse")?;
                let ds = self.ds.clone().ok_or("nods")?;
                if ks.is_empty() {
                    return Err("range".into());
                }
                let pred = format!("k in ({})", ks.iter().map(|k| k.to_string()).collect::<Vec<_>>().join(","));
                let res = self
                    .rt
                    .block_on(async {
                        UpdateBuilder::new(Arc::new(ds)).update_where(&pred)?.set("x", &v.to_string())?.build()?.execute().await
                    })
                    .map_err(|e| e.to_string())?;
                self.ds = Some(res.new_dataset.as_ref().clone());
                Ok(())
            }
            ["compact", target, mat] => {
                let target: usize = target.parse().map_err(|_| "parse")?;
                if target == 0 {
                    return Err("range".into());
                }
                let ds = self.ds.as_mut().ok_or("nods")?;
                let opts = CompactionOptions {
                    target_rows_per_fragment: target,
                    materialize_deletions: *mat == "1",
                    materialize_deletions_threshold: 0.0,
                    ..Default::default()
                };
                self.rt.block_on(compact_files(ds, opts, None)).map(|_| ()).map_err(|e| e.to_string())
            }
            _ => Err("bad".into()),
        }
    }

    /// ordered scan with `_rowid` and `_rowaddr`
    fn real_scan(&mut self) -> Result<Vec<SRow>, String> {
        if let Some(s) = &self.scan {
            return Ok(s.clone());
        }
        let ds = self.ds.as_ref().ok_or("nods")?;
        if ds.get_fragments().is_empty() {
            self.scan = Some(vec![]);
            return Ok(vec![]);
        }
        let mut s = ds.scan();
        s.scan_in_order(true);
        s.with_row_id();
        s.with_row_address();
        let b = self.rt.block_on(s.try_into_batch()).map_err(|e| e.to_string())?;
        let rows = batch_rows(&b, "kxai").ok_or("scan columns")?;
        let out: Vec<SRow> = rows.iter().map(|r| SRow { k: r[0], x: r[1], addr: r[2], rowid: r[3] }).collect();
        self.scan = Some(out.clone());
        Ok(out)
    }

    /// the physical layout as the manifest, the deletion files and the row id sequences say
    fn real_layout(&mut self) -> Result<Vec<FragInfo>, String> {
        if let Some(l) = &self.layout {
            return Ok(l.clone());
        }
        let scan = self.real_scan()?;
        let by_addr: HashMap<u64, &SRow> = scan.iter().map(|r| (r.addr, r)).collect();
        let ds = self.ds.as_ref().ok_or("nods")?;
        let mut out = vec![];
        for f in ds.get_fragments() {
            let id = f.id() as u64;
            let nphys = f.metadata().physical_rows.ok_or("no physical_rows")? as u64;
            let dv = self.rt.block_on(f.get_deletion_vector()).map_err(|e| e.to_string())?;
            let mut dvv: Vec<u64> = dv.map(|d| d.iter().map(|x| x as u64).collect()).unwrap_or_default();
            dvv.sort();
            let live = self.rt.block_on(f.count_rows(None)).map_err(|e| e.to_string())? as u64;
            let rowids: Vec<u64> = if self.stable {
                match &f.metadata().row_id_meta {
                    Some(RowIdMeta::Inline(data)) => read_row_ids(data).map_err(|e| e.to_string())?.iter().collect(),
                    _ => return Err("row id sequence not inline".into()),
                }
            } else {
                vec![]
            };
            let mut ks = vec![];
            let mut xs = vec![];
            for o in 0..nphys {
                match by_addr.get(&((id << 32) | o)) {
                    Some(r) => {
                        ks.push(r.k);
                        xs.push(r.x);
                    }
                    None => {
                        ks.push(DELETED_VAL);
                        xs.push(DELETED_VAL);
                    }
                }
            }
            out.push(FragInfo { id, nphys, dv: dvv, ks, xs, rowids, live });
        }
        self.layout = Some(out.clone());
        Ok(out)
    }

    fn run_req(&mut self, cols: &str, req: Req) -> Outcome {
        if self.poisoned {
            return Outcome::Skipped;
        }
        let ds = self.ds.clone().unwrap();
        if self.worker.is_none() {
            let (tx_req, rx_req) = std::sync::mpsc::channel::<(Dataset, String, Req)>();
            let (tx_res, rx_res) = std::sync::mpsc::channel::<Outcome>();
            std::thread::spawn(move || {
                let rt = tokio::runtime::Builder::new_current_thread().enable_all().build().unwrap();
                while let Ok((ds, cols, req)) = rx_req.recv() {
                    if tx_res.send(exec_req(&rt, ds, cols, req)).is_err() {
                        break;
                    }
                }
            });
            self.worker = Some((tx_req, rx_res));
        }
        let (tx, rx) = self.worker.as_ref().unwrap();
        if tx.send((ds, cols.to_string(), req)).is_err() {
            self.poisoned = true;
            return Outcome::NoReturn;
        }
        match rx.recv_timeout(std::time::Duration::from_secs(WATCHDOG_S)) {
            Ok(o) => o,
            Err(_) => {
                self.poisoned = true;
                Outcome::NoReturn
            }
        }
    }

    /// property oracle for one random-access call: `keys[i]` resolves to `want[i]` (None = not a live row)
    #[allow(clippy::too_many_arguments)]
    fn judge(&self, what: &str, cols: &str, want: &[Option<SRow>], got: &Outcome, line: usize, fails: &mut Vec<OracleFailure>, tags: &mut Vec<String>) {
        let all_valid = want.iter().all(|w| w.is_some());
        let expect: Vec<Vec<u64>> = want.iter().flatten().map(|r| project(r, cols)).collect();
        match got {
            Outcome::Rows(rows) => {
                if *rows != expect {
                    fails.push(OracleFailure {
                        what: format!("{what}: rows differ from the scan: got {} want {}", show_rows(rows), show_rows(&expect)),
                        key: Some(format!("{what}_mismatch")),
                        line,
                    });
                }
                tags.push(format!("{what}:{}", if all_valid { "ok" } else { "ok_dropped_invalid_keys" }));
            }
            Outcome::Err(k) => {
                if all_valid {
                    fails.push(OracleFailure {
                        what: format!("{what}: error {k} although every key is a live row"),
                        key: Some(format!("{what}_error")),
                        line,
                    });
                }
                tags.push(format!("{what}:err_{k}"));
            }
            Outcome::Panic(m) => {
                let key = if all_valid {
                    format!("{what}_panic")
                } else if m.contains("overflow") {
                    "take_tombstone_overflow_panic".to_string()
                } else if m.contains("Option::unwrap()") {
                    "take_no_batches_panic".to_string()
                } else {
                    format!("{what}_panic")
                };
                fails.push(OracleFailure { what: format!("{what}: panic: {m}"), key: Some(key.clone()), line });
                tags.push(format!("{what}:panic"));
            }
            Outcome::Garbled => {
                fails.push(OracleFailure { what: format!("{what}: result misses a requested column"), key: Some(format!("{what}_columns")), line });
            }
            Outcome::NoReturn => {
                fails.push(OracleFailure {
                    what: format!("{what}: the call did not return within {WATCHDOG_S} s"),
                    key: Some(format!("{what}_noreturn")),
                    line,
                });
                tags.push(format!("{what}:noreturn"));
            }
            Outcome::Skipped => {}
        }
    }

    fn real_index(&mut self) -> Result<RowIdIndex, String> {
        let frags: Vec<FragmentRowIdIndex> = if let Some(s) = &self.synth {
            s.iter()
                .map(|f| {
                    let mut seq = RowIdSequence::new();
                    let mut pos = 0usize;
                    for l in &f.seglens {
                        let end = (pos + l).min(f.rowids.len());
                        if end > pos {
                            seq.extend(RowIdSequence::from(&f.rowids[pos..end]));
                        }
                        pos = end;
                    }
                    if pos < f.rowids.len() {
                        seq.extend(RowIdSequence::from(&f.rowids[pos..]));
                    }
                    let dv = if f.dv.is_empty() {
                        DeletionVector::NoDeletions
                    } else {
                        DeletionVector::Set(f.dv.iter().copied().collect::<HashSet<u32>>())
                    };
                    FragmentRowIdIndex { fragment_id: f.id, row_id_sequence: Arc::new(seq), deletion_vector: Arc::new(dv) }
                })
                .collect()
        } else {
            if !self.stable {
                return Err("not stable".into());
            }
            let ds = self.ds.as_ref().ok_or("nods")?;
            let mut v = vec![];
            for f in ds.get_fragments() {
                let seq = match &f.metadata().row_id_meta {
                    Some(RowIdMeta::Inline(data)) => read_row_ids(data).map_err(|e| e.to_string())?,
                    _ => return Err("row id sequence not inline".into()),
                };
                let dv = self.rt.block_on(f.get_deletion_vector()).map_err(|e| e.to_string())?;
                v.push(FragmentRowIdIndex {
                    fragment_id: f.id() as u32,
                    row_id_sequence: Arc::new(seq),
                    deletion_vector: dv.unwrap_or_else(|| Arc::new(DeletionVector::NoDeletions)),
                });
            }
            v
        };
        RowIdIndex::new(&frags).map_err(|e| e.to_string())
    }
}

type MapJob = (bool, Vec<u32>, Vec<u32>);

/// persistent worker for the pure OffsetMapper calls (so that a spinning `map_offset` can be timed out)
struct MapWorker {
    tx: std::sync::mpsc::Sender<MapJob>,
    rx: std::sync::mpsc::Receiver<Result<Vec<u64>, String>>,
}

impl MapWorker {
    fn new() -> Self {
        let (tx, rx_job) = std::sync::mpsc::channel::<MapJob>();
        let (tx_res, rx) = std::sync::mpsc::channel();
        std::thread::spawn(move || {
            while let Ok((set, dv, offs)) = rx_job.recv() {
                let r = catch_unwind(AssertUnwindSafe(|| {
                    let dvv = if set {
                        DeletionVector::Set(dv.iter().copied().collect::<HashSet<u32>>())
                    } else {
                        DeletionVector::Bitmap(dv.iter().copied().collect::<RoaringBitmap>())
                    };
                    let mut m = OffsetMapper::new(Arc::new(dvv));
                    offs.iter().map(|o| m.map_offset(*o) as u64).collect::<Vec<u64>>()
                }));
                if tx_res.send(r.map_err(panic_msg)).is_err() {
                    break;
                }
            }
        });
        MapWorker { tx, rx }
    }

    fn run(&self, kind: &str, dv: &[u64], offs: &[u64]) -> Result<Vec<u64>, String> {
        let job = (kind == "S", dv.iter().map(|x| *x as u32).collect(), offs.iter().map(|x| *x as u32).collect());
        if self.tx.send(job).is_err() {
            return Err("noreturn".into());
        }
        match self.rx.recv_timeout(std::time::Duration::from_secs(5)) {
            Ok(Ok(v)) => Ok(v),
            Ok(Err(m)) => Err(format!("panic {m}")),
            Err(_) => Err("noreturn".into()),
        }
    }
}

/// reference: position of the `k`-th natural number that is not in `dv`
fn nth_live(dv: &HashSet<u64>, k: u64) -> u64 {
    let mut seen = 0;
    let mut p = 0;
    loop {
        if !dv.contains(&p) {
            if seen == k {
                return p;
            }
            seen += 1;
        }
        p += 1;
    }
}

impl Prop for C15 {
    fn id(&self) -> &'static str {
        "C15"
    }

    fn budget(&self, tier: Tier) -> usize {
        match tier {
            Tier::Quick => 2400,
            Tier::Thorough => 30_000,
            Tier::Search => 6000,
        }
    }

    fn rule(&self) -> String {
        "every 32nd case is a large-fragment history with stable row ids (1-2 fragments of 64-200 rows; 2-5 sparse deletions per step - adjacent pairs, far pairs, runs of three, scattered - \
         so that the index stores addresses as ranges with holes; in a quarter each after a compaction (ids != addresses) or after an update that moves rows to a new fragment), followed by take_rows of every live id, take of every offset, \
         RowIdIndex::get of every live and deleted id, and take_rows / take / take-by-address of the rows right behind each deleted row; every 8th case is an end-to-end history on a memory:// dataset (create 1-14 rows over 1-4 fragments, then 0-5 of append / \
         delete ~35% of the keys / update / compact, stable row ids on in half of them); its layout (fragment ids, physical rows, deletion \
         vectors, row id sequences, data per physical row) is read back from the manifest and given to the model, followed by count, scan, \
         6-10 take / take_rows / take-by-address / RowIdIndex::get calls under random projections of k, x, _rowaddr, _rowid with key lists \
         that are ascending, contiguous, reversed, shuffled, with duplicates, at fragment boundaries, in deleted regions (~15% of the lists contain \
         out-of-range offsets, unknown ids, addresses of deleted rows, beyond the physical rows or of non-existent fragments); every \
         other 8th case builds synthetic row-id layouts (unsorted, sparse, interleaved id chunks over 1-4 fragments with deletions) for RowIdIndex::new/get; \
         the rest are OffsetMapper cases: Set and Bitmap deletion vectors (dense prefixes, clusters, sparse, positions up to 140000) with 1-3 \
         non-decreasing offset lists incl. duplicates. Non-trivial = at least one deletion and one multi-key list; distinct = distinct op-line text."
            .into()
    }

    fn gen_case(&mut self, r: &mut Rng, _tier: Tier, idx: usize) -> Vec<String> {
        match idx % 8 {
            0 if idx % 32 == 16 => self.gen_big(r),
            0 => self.gen_e2e(r),
            4 => gen_synth(r),
            _ => gen_map(r),
        }
    }

    fn exec_case(&mut self, lines: &[String]) -> CaseResult {
        self.reset();
        let mut res = CaseResult::default();
        if self.poisoned {
            // an earlier real call never returned and is still spinning: do not run anything else
            res.outputs = lines.iter().map(|_| "skipped".to_string()).collect();
            res.tags.push("skipped_after_noreturn".into());
            return res;
        }
        let mut any_deletion = false;
        let mut any_multi = false;
        for (ln, line) in lines.iter().enumerate() {
            let toks: Vec<&str> = line.split(' ').filter(|s| !s.is_empty()).collect();
            let out: String = match toks.as_slice() {
                ["hist", rest @ ..] => {
                    res.tags.push(format!("hist:{}", rest.first().copied().unwrap_or("?")));
                    match self.hist(rest) {
                        Ok(()) => "ok".into(),
                        Err(e) => {
                            if e.starts_with("panic") {
                                res.failures.push(OracleFailure {
                                    what: format!("history op `{line}`: {}", e.chars().take(200).collect::<String>()),
                                    key: Some("history_op_panic".into()),
                                    line: ln,
                                });
                            }
                            format!("err {}", e.chars().take(80).collect::<String>().replace('\n', " "))
                        }
                    }
                }
                ["ds", _stable, _n] => {
                    self.frag_idx = 0;
                    self.synth = None;
                    match self.real_layout() {
                        Ok(l) => format!("ok {} {}", if self.stable { 1 } else { 0 }, l.len()),
                        Err(e) => format!("err {e}"),
                    }
                }
                ["frag", ..] => match self.real_layout() {
                    Ok(l) => {
                        let i = self.frag_idx;
                        self.frag_idx += 1;
                        match l.get(i) {
                            Some(f) => {
                                if !f.dv.is_empty() {
                                    any_deletion = true;
                                }
                                if f.matches(&toks) {
                                    format!("{} live={}", toks.join(" "), f.live)
                                } else {
                                    format!("{} live={}", f.line_compact(), f.live)
                                }
                            }
                            None => "missing".into(),
                        }
                    }
                    Err(e) => format!("err {e}"),
                },
                ["synth", n] => {
                    self.synth = Some(vec![]);
                    self.ds = None;
                    res.tags.push("synth".into());
                    format!("ok 1 {n}")
                }
                ["sfrag", id, nphys, dv, rowids, seglens] => {
                    match (id.parse::<u32>(), nphys.parse::<u64>(), parse_nat_list(dv), parse_nat_list(rowids), parse_nat_list(seglens)) {
                        (Ok(id), Ok(nphys), Some(dv), Some(rowids), Some(seglens)) if self.synth.is_some() && rowids.len() as u64 == nphys => {
                            let dvs: HashSet<u64> = dv.iter().copied().collect();
                            if !dvs.is_empty() {
                                any_deletion = true;
                            }
                            let live = nphys - dvs.len() as u64;
                            self.synth.as_mut().unwrap().push(SynthFrag {
                                id,
                                dv: dvs.iter().map(|x| *x as u32).collect(),
                                rowids,
                                seglens: seglens.iter().map(|x| *x as usize).collect(),
                            });
                            format!("sfrag {id} live={live}")
                        }
                        _ => "bad".into(),
                    }
                }
                ["count"] => match self.ds.as_ref() {
                    Some(ds) => match self.rt.block_on(ds.count_rows(None)) {
                        Ok(n) => n.to_string(),
                        Err(e) => format!("err {}", err_kind(&e)),
                    },
                    None => "bad".into(),
                },
                ["scan"] => match self.real_scan() {
                    Ok(rows) => {
                        // the ids and addresses the scan reports resolve back to the same rows
                        if !rows.is_empty() {
                            let ids: Vec<u64> = rows.iter().map(|r| r.rowid).collect();
                            let addrs: Vec<u64> = rows.iter().map(|r| r.addr).collect();
                            let want: Vec<Option<SRow>> = rows.iter().cloned().map(Some).collect();
                            let got = self.run_req("kxai", Req::Rows(ids));
                            self.judge("scan_ids_resolve", "kxai", &want, &got, ln, &mut res.failures, &mut res.tags);
                            let got = self.run_req("kxai", Req::Addr(addrs));
                            self.judge("scan_addrs_resolve", "kxai", &want, &got, ln, &mut res.failures, &mut res.tags);
                        }
                        show_rows(&rows.iter().map(|r| project(r, "kxai")).collect::<Vec<_>>())
                    }
                    Err(e) => format!("err {e}"),
                },
                ["take", cols, offs] => match (valid_cols(cols), parse_nat_list(offs), self.ds.is_some()) {
                    (true, Some(offs), true) => {
                        if offs.len() > 1 {
                            any_multi = true;
                        }
                        let scan = self.real_scan().unwrap_or_default();
                        let want: Vec<Option<SRow>> = offs.iter().map(|o| scan.get(*o as usize).cloned()).collect();
                        let got = self.run_req(cols, Req::Take(offs));
                        self.judge("take", cols, &want, &got, ln, &mut res.failures, &mut res.tags);
                        got.show()
                    }
                    _ => "bad".into(),
                },
                ["takerows", cols, ids] => match (valid_cols(cols), parse_nat_list(ids), self.ds.is_some()) {
                    (true, Some(ids), true) => {
                        if ids.len() > 1 {
                            any_multi = true;
                        }
                        let scan = self.real_scan().unwrap_or_default();
                        let by_id: BTreeMap<u64, &SRow> = scan.iter().map(|r| (r.rowid, r)).collect();
                        let want: Vec<Option<SRow>> = ids.iter().map(|i| by_id.get(i).map(|r| (*r).clone())).collect();
                        let got = self.run_req(cols, Req::Rows(ids));
                        self.judge("take_rows", cols, &want, &got, ln, &mut res.failures, &mut res.tags);
                        got.show()
                    }
                    _ => "bad".into(),
                },
                ["takeaddr", cols, addrs] => match (valid_cols(cols), parse_nat_list(addrs), self.ds.is_some()) {
                    (true, Some(addrs), true) => {
                        if addrs.len() > 1 {
                            any_multi = true;
                        }
                        let scan = self.real_scan().unwrap_or_default();
                        let by_addr: BTreeMap<u64, &SRow> = scan.iter().map(|r| (r.addr, r)).collect();
                        let want: Vec<Option<SRow>> = addrs.iter().map(|i| by_addr.get(i).map(|r| (*r).clone())).collect();
                        let got = self.run_req(cols, Req::Addr(addrs));
                        self.judge("take_addr", cols, &want, &got, ln, &mut res.failures, &mut res.tags);
                        got.show()
                    }
                    _ => "bad".into(),
                },
                ["takescan", cols, starts, ends] => {
                    let data_cols = !cols.is_empty() && cols.chars().all(|c| c == 'k' || c == 'x');
                    match (data_cols, parse_nat_list(starts), parse_nat_list(ends), self.ds.is_some()) {
                        (true, Some(starts), Some(ends), true) if starts.len() == ends.len() => {
                            any_multi = true;
                            let scan = self.real_scan().unwrap_or_default();
                            let mut want: Vec<Option<SRow>> = vec![];
                            for (s, e) in starts.iter().zip(ends.iter()) {
                                for o in *s..*e {
                                    want.push(scan.get(o as usize).cloned());
                                }
                            }
                            let ranges: Vec<(u64, u64)> = starts.iter().copied().zip(ends.iter().copied()).collect();
                            let got = self.run_req(cols, Req::Scan(ranges));
                            self.judge("take_scan", cols, &want, &got, ln, &mut res.failures, &mut res.tags);
                            got.show()
                        }
                        _ => "bad".into(),
                    }
                }
                ["idx", ids] => match parse_nat_list(ids) {
                    Some(ids) => {
                        let r = catch_unwind(AssertUnwindSafe(|| self.real_index()));
                        match r {
                            Err(e) => {
                                res.failures.push(OracleFailure {
                                    what: format!("RowIdIndex::new panicked: {}", panic_msg(e)),
                                    key: Some("rowid_index_panic".into()),
                                    line: ln,
                                });
                                "panic".into()
                            }
                            Ok(Err(e)) => format!("err {e}"),
                            Ok(Ok(index)) => {
                                // oracle: ids of live rows map to their address, everything else to None
                                let mut truth: HashMap<u64, u64> = HashMap::new();
                                if let Some(s) = &self.synth {
                                    for f in s {
                                        let dv: HashSet<u32> = f.dv.iter().copied().collect();
                                        for (o, id) in f.rowids.iter().enumerate() {
                                            if !dv.contains(&(o as u32)) {
                                                truth.insert(*id, ((f.id as u64) << 32) | o as u64);
                                            }
                                        }
                                    }
                                } else if let Ok(scan) = self.real_scan() {
                                    for r in scan {
                                        truth.insert(r.rowid, r.addr);
                                    }
                                }
                                let got: Vec<Option<u64>> = ids.iter().map(|i| index.get(*i).map(u64::from)).collect();
                                for (i, g) in ids.iter().zip(got.iter()) {
                                    if truth.get(i).copied() != *g {
                                        res.failures.push(OracleFailure {
                                            what: format!("RowIdIndex::get({i}) = {g:?}, the live row with that id is at {:?}", truth.get(i)),
                                            key: Some("rowid_index_mismatch".into()),
                                            line: ln,
                                        });
                                        break;
                                    }
                                }
                                res.tags.push("idx".into());
                                got.iter()
                                    .map(|g| g.map(|a| a.to_string()).unwrap_or_else(|| "none".into()))
                                    .collect::<Vec<_>>()
                                    .join(" ")
                            }
                        }
                    }
                    None => "bad".into(),
                },
                ["map", kind, dv, offs] => match (*kind == "S" || *kind == "B", parse_nat_list(dv), parse_nat_list(offs)) {
                    (true, Some(dv), Some(offs)) => {
                        if !dv.is_empty() {
                            any_deletion = true;
                        }
                        if offs.len() > 1 {
                            any_multi = true;
                        }
                        res.tags.push(format!("map:{kind}"));
                        let mapped = if self.poisoned {
                            Err("skipped".to_string())
                        } else {
                            self.map_worker.get_or_insert_with(MapWorker::new).run(kind, &dv, &offs)
                        };
                        match mapped {
                            Ok(v) => {
                                let dvs: HashSet<u64> = dv.iter().copied().collect();
                                let want: Vec<u64> = offs.iter().map(|o| nth_live(&dvs, *o)).collect();
                                if v != want {
                                    res.failures.push(OracleFailure {
                                        what: format!("map_offset: got {v:?}, the offset-th live positions are {want:?}"),
                                        key: Some("map_offset_mismatch".into()),
                                        line: ln,
                                    });
                                }
                                show_nat_list(v)
                            }
                            Err(e) if e == "skipped" => "skipped".into(),
                            Err(e) => {
                                res.failures.push(OracleFailure {
                                    what: format!("map_offset on a non-decreasing offset list: {e}"),
                                    key: Some("map_offset_noreturn".into()),
                                    line: ln,
                                });
                                if e == "noreturn" {
                                    self.poisoned = true;
                                    "noreturn".into()
                                } else {
                                    "panic".into()
                                }
                            }
                        }
                    }
                    _ => "bad".into(),
                },
                _ => {
                    res.tags.push("malformed".into());
                    "bad".into()
                }
            };
            res.outputs.push(out);
        }
        res.nontrivial = any_deletion && any_multi;
        res
    }
}

// ---------------------------------------------------------------- generators

fn shuffle<T>(r: &mut Rng, v: &mut [T]) {
    for i in (1..v.len()).rev() {
        let j = r.usize(i + 1);
        v.swap(i, j);
    }
}

fn gen_cols(r: &mut Rng) -> String {
    match r.below(10) {
        0 => "k".into(),
        1 => "x".into(),
        2 => "kx".into(),
        3 => "xk".into(),
        4 => "ka".into(),
        5 => "ki".into(),
        6 => "kai".into(),
        7 => "kxai".into(),
        8 => "ak".into(),
        _ => "kxia".into(),
    }
}

/// a key list drawn from `valid` (in scan order) with the shapes the take paths distinguish
fn gen_keys(r: &mut Rng, valid: &[u64], invalid: &[u64]) -> Vec<u64> {
    if valid.is_empty() {
        let n = r.range(1, 3) as usize;
        return (0..n).filter_map(|_| if invalid.is_empty() { None } else { Some(*r.pick(invalid)) }).collect();
    }
    let n = valid.len();
    let mut keys: Vec<u64> = match r.below(8) {
        0 => {
            // contiguous ascending run
            let s = r.usize(n);
            let l = r.range(1, 6) as usize;
            valid[s..(s + l).min(n)].to_vec()
        }
        1 => {
            // ascending subset
            valid.iter().copied().filter(|_| r.chance(1, 2)).collect()
        }
        2 => {
            // everything reversed
            valid.iter().rev().copied().collect()
        }
        3 => {
            // single key
            vec![*r.pick(valid)]
        }
        4 => {
            // duplicates
            let a = *r.pick(valid);
            let b = *r.pick(valid);
            vec![a, b, a, a, b]
        }
        5 => valid.to_vec(),
        _ => {
            let l = r.range(1, 8) as usize;
            (0..l).map(|_| *r.pick(valid)).collect()
        }
    };
    if keys.is_empty() {
        keys.push(*r.pick(valid));
    }
    if !invalid.is_empty() && r.chance(15, 100) {
        let cnt = r.range(1, 2);
        for _ in 0..cnt {
            let pos = r.usize(keys.len() + 1);
            keys.insert(pos, *r.pick(invalid));
        }
        if r.chance(1, 4) {
            let a = *r.pick(invalid);
            keys = vec![a; r.range(1, 2) as usize];
        }
    }
    if r.chance(1, 12) {
        shuffle(r, &mut keys);
    }
    keys
}

impl C15 {
    fn gen_e2e(&mut self, r: &mut Rng) -> Vec<String> {
        self.reset();
        let mut lines = vec![];
        let stable = r.chance(1, 2);
        let n = r.range(1, 14);
        let maxrows = r.range(2, 7);
        let mut live_ks: Vec<u64> = (0..n).collect();
        let mut next = n;
        let mut push = |s: &mut C15, l: String, lines: &mut Vec<String>| {
            let t: Vec<&str> = l.split(' ').collect();
            let _ = s.hist(&t[1..]);
            lines.push(l);
        };
        push(self, format!("hist create {} {n} {maxrows}", stable as u8), &mut lines);
        let steps = r.below(6);
        for _ in 0..steps {
            match r.below(10) {
                0..=1 => {
                    let m = r.range(1, 6);
                    push(self, format!("hist append {m} {}", r.range(2, 7)), &mut lines);
                    live_ks.extend(next..next + m);
                    next += m;
                }
                2..=5 => {
                    let del: Vec<u64> = live_ks.iter().copied().filter(|_| r.chance(35, 100)).collect();
                    if !del.is_empty() {
                        live_ks.retain(|k| !del.contains(k));
                        push(self, format!("hist delete {}", show_nat_list(del)), &mut lines);
                    }
                }
                6..=7 => {
                    let upd: Vec<u64> = live_ks.iter().copied().filter(|_| r.chance(30, 100)).collect();
                    if !upd.is_empty() {
                        push(self, format!("hist update {} {}", show_nat_list(upd), 100 + r.below(50)), &mut lines);
                    }
                }
                _ => {
                    push(self, format!("hist compact {} {}", r.range(2, 10), r.below(2)), &mut lines);
                }
            }
        }
        let layout = catch_unwind(AssertUnwindSafe(|| self.real_layout())).unwrap_or(Err("panic".into())).unwrap_or_default();
        let scan = catch_unwind(AssertUnwindSafe(|| self.real_scan())).unwrap_or(Err("panic".into())).unwrap_or_default();
        lines.push(format!("ds {} {}", stable as u8, layout.len()));
        for f in &layout {
            lines.push(f.line());
        }
        lines.push("count".into());
        lines.push("scan".into());
        let total = scan.len() as u64;
        let offs_valid: Vec<u64> = (0..total).collect();
        let offs_invalid: Vec<u64> = vec![total, total + 1, total + 7, 1 << 33];
        let addr_valid: Vec<u64> = scan.iter().map(|r| r.addr).collect();
        let mut addr_invalid: Vec<u64> = vec![];
        let mut id_invalid: Vec<u64> = vec![next + 50, 1 << 40];
        for f in &layout {
            for d in &f.dv {
                addr_invalid.push((f.id << 32) | d);
                if let Some(i) = f.rowids.get(*d as usize) {
                    id_invalid.push(*i);
                }
            }
            if r.chance(1, 3) {
                addr_invalid.push((f.id << 32) | (f.nphys + r.below(3)));
            }
        }
        let max_id = layout.iter().map(|f| f.id).max().unwrap_or(0);
        addr_invalid.push(((max_id + 1 + r.below(3)) << 32) | r.below(3));
        if r.chance(1, 4) {
            addr_invalid.push(u64::MAX);
        }
        let id_valid: Vec<u64> = scan.iter().map(|r| r.rowid).collect();
        // fragment boundaries in offset space
        let mut bounds = vec![];
        let mut acc = 0;
        for f in &layout {
            acc += f.live;
            if acc > 0 && acc < total {
                bounds.push(acc - 1);
                bounds.push(acc);
            }
        }
        let q = r.range(6, 10);
        for _ in 0..q {
            let cols = gen_cols(r);
            match r.below(10) {
                0..=3 => {
                    let mut keys = gen_keys(r, &offs_valid, &offs_invalid);
                    if !bounds.is_empty() && r.chance(1, 3) {
                        keys = bounds.clone();
                        if r.chance(1, 2) {
                            keys.reverse();
                        }
                    }
                    lines.push(format!("take {cols} {}", show_nat_list(keys)));
                }
                4..=6 => {
                    let keys = if stable { gen_keys(r, &id_valid, &id_invalid) } else { gen_keys(r, &addr_valid, &addr_invalid) };
                    lines.push(format!("takerows {cols} {}", show_nat_list(keys)));
                }
                7 => {
                    let keys = gen_keys(r, &addr_valid, &addr_invalid);
                    lines.push(format!("takeaddr {cols} {}", show_nat_list(keys)));
                }
                8 => {
                    // take_scan over 1-3 ranges (overlapping, unordered, empty; ~10% reach one row beyond the end)
                    let nr = r.range(1, 3);
                    let mut starts = vec![];
                    let mut ends = vec![];
                    for _ in 0..nr {
                        let s = r.below(total + 1);
                        let e = (s + r.below(5)).min(total + if r.chance(1, 10) { 1 } else { 0 });
                        starts.push(s.min(e));
                        ends.push(e);
                    }
                    let c = *r.pick(&["k", "x", "kx", "xk"]);
                    lines.push(format!("takescan {c} {} {}", show_nat_list(starts), show_nat_list(ends)));
                }
                _ => {
                    if stable {
                        let keys = gen_keys(r, &id_valid, &id_invalid);
                        lines.push(format!("idx {}", show_nat_list(keys)));
                    } else {
                        lines.push(format!("take {cols} -"));
                    }
                }
            }
        }
        if r.chance(5, 100) {
            lines.push("takerows k,x 1".into()); // malformed
        }
        self.reset();
        lines
    }
}

impl C15 {
    /// large fragments with a few sparse deletions (the address segments of the row id index become ranges with holes),
    /// stable row ids on; optionally after a compaction (ids != addresses) or an update (rows moved to a new fragment).
    /// Every live id, every offset, and in particular the rows right behind each deleted row are taken.
    fn gen_big(&mut self, r: &mut Rng) -> Vec<String> {
        self.reset();
        let mut lines = vec![];
        let nfr = r.range(1, 2);
        let per = r.range(64, 200);
        let n = per * nfr - if nfr > 1 { r.below(per / 2) } else { 0 };
        let mut live_ks: Vec<u64> = (0..n).collect();
        let mut push = |s: &mut C15, l: String, lines: &mut Vec<String>| {
            let t: Vec<&str> = l.split(' ').collect();
            let _ = s.hist(&t[1..]);
            lines.push(l);
        };
        push(self, format!("hist create 1 {n} {per}"), &mut lines);
        // 2-5 sparse keys out of `ks` (in order): adjacent pairs, far pairs, a run of three, scattered
        let sparse = |r: &mut Rng, ks: &[u64]| -> Vec<u64> {
            let m = ks.len();
            if m < 8 {
                return vec![];
            }
            let mut pos: Vec<usize> = match r.below(5) {
                0 => {
                    let a = r.usize(m - 1);
                    vec![a, a + 1]
                }
                1 => {
                    let a = r.usize(m / 2);
                    vec![a, a + m / 3]
                }
                2 => {
                    let a = r.usize(m - 2);
                    vec![a, a + 1, a + 2]
                }
                3 => {
                    let a = r.usize(m / 2);
                    vec![a, a + 1, a + m / 3, (a + m / 3 + 1).min(m - 1)]
                }
                _ => (0..r.range(2, 5)).map(|_| r.usize(m)).collect(),
            };
            pos.sort();
            pos.dedup();
            pos.into_iter().map(|p| ks[p]).collect()
        };
        let variant = r.below(4);
        if variant == 2 {
            // compaction first: afterwards the row ids of a fragment no longer equal its offsets
            let d = sparse(r, &live_ks);
            if !d.is_empty() {
                live_ks.retain(|k| !d.contains(k));
                push(self, format!("hist delete {}", show_compact(&d)), &mut lines);
            }
            push(self, format!("hist compact {} 1", 2 * n), &mut lines);
        }
        if variant == 3 {
            let u = sparse(r, &live_ks);
            if !u.is_empty() {
                push(self, format!("hist update {} {}", show_compact(&u), 100 + r.below(50)), &mut lines);
            }
        }
        for _ in 0..r.range(1, 2) {
            let d = sparse(r, &live_ks);
            if !d.is_empty() {
                live_ks.retain(|k| !d.contains(k));
                push(self, format!("hist delete {}", show_compact(&d)), &mut lines);
            }
        }
        let layout = catch_unwind(AssertUnwindSafe(|| self.real_layout())).unwrap_or(Err("panic".into())).unwrap_or_default();
        let scan = catch_unwind(AssertUnwindSafe(|| self.real_scan())).unwrap_or(Err("panic".into())).unwrap_or_default();
        lines.push(format!("ds 1 {}", layout.len()));
        for f in &layout {
            lines.push(f.line_compact());
        }
        lines.push("count".into());
        lines.push("scan".into());
        let total = scan.len() as u64;
        let ids: Vec<u64> = scan.iter().map(|x| x.rowid).collect();
        // rows right behind a deleted row: their ids, offsets and addresses; and the ids of the deleted rows
        let by_addr: HashMap<u64, usize> = scan.iter().enumerate().map(|(i, x)| (x.addr, i)).collect();
        let mut behind: Vec<usize> = vec![];
        let mut deleted_ids: Vec<u64> = vec![];
        for f in &layout {
            for d in &f.dv {
                if let Some(i) = f.rowids.get(*d as usize) {
                    deleted_ids.push(*i);
                }
                let mut o = d + 1;
                while o < f.nphys && f.dv.contains(&o) {
                    o += 1;
                }
                if let Some(i) = by_addr.get(&((f.id << 32) | o)) {
                    behind.push(*i);
                }
            }
        }
        behind.sort();
        behind.dedup();
        let b_ids: Vec<u64> = behind.iter().map(|i| scan[*i].rowid).collect();
        let b_offs: Vec<u64> = behind.iter().map(|i| *i as u64).collect();
        let b_addrs: Vec<u64> = behind.iter().map(|i| scan[*i].addr).collect();
        if total > 0 {
            lines.push(format!("takerows ia {}", show_compact(&ids)));
            lines.push(format!("take ka {}", show_compact(&(0..total).collect::<Vec<_>>())));
            let mut all: Vec<u64> = ids.clone();
            all.extend(deleted_ids.iter().copied());
            lines.push(format!("idx {}", show_compact(&all)));
        }
        if !behind.is_empty() {
            lines.push(format!("takerows ki {}", show_compact(&b_ids)));
            let mut rev = b_ids.clone();
            rev.reverse();
            lines.push(format!("takerows ia {}", show_compact(&rev)));
            lines.push(format!("takerows k {}", b_ids[r.usize(b_ids.len())]));
            lines.push(format!("take ki {}", show_compact(&b_offs)));
            lines.push(format!("takeaddr ki {}", show_compact(&b_addrs)));
            let mut mixed = b_ids.clone();
            mixed.extend(deleted_ids.iter().copied());
            shuffle(r, &mut mixed);
            lines.push(format!("takerows ki {}", show_compact(&mixed)));
        }
        self.reset();
        lines
    }
}

fn gen_dv(r: &mut Rng) -> Vec<u64> {
    let mut s: HashSet<u64> = HashSet::new();
    match r.below(7) {
        0 => {}
        1 => {
            // dense prefix
            for i in 0..r.range(1, 12) {
                s.insert(i);
            }
        }
        2 => {
            // clusters
            for _ in 0..r.range(1, 4) {
                let b = r.below(60);
                for i in 0..r.range(1, 8) {
                    s.insert(b + i);
                }
            }
        }
        3 => {
            // sparse
            for _ in 0..r.range(1, 10) {
                s.insert(r.below(80));
            }
        }
        4 => {
            // every other
            let p = r.range(2, 4);
            for i in 0..r.range(4, 30) {
                if i % p != 0 {
                    s.insert(i);
                }
            }
        }
        5 => {
            // around a roaring container boundary
            for _ in 0..r.range(2, 12) {
                s.insert(65530 + r.below(12));
            }
            if r.chance(1, 2) {
                s.insert(131071 + r.below(3));
            }
        }
        _ => {
            for _ in 0..r.range(10, 40) {
                s.insert(r.below(50));
            }
        }
    }
    let mut v: Vec<u64> = s.into_iter().collect();
    v.sort();
    v
}

fn gen_map(r: &mut Rng) -> Vec<String> {
    let dv = gen_dv(r);
    let maxd = dv.iter().copied().max().unwrap_or(0);
    let mut lines = vec![];
    for _ in 0..r.range(1, 3) {
        let kind = if maxd > 1000 {
            if r.chance(1, 8) { "S" } else { "B" }
        } else if r.chance(1, 2) {
            "S"
        } else {
            "B"
        };
        let n = if maxd > 1000 && kind == "S" { r.range(1, 3) } else { r.range(1, 10) };
        let hi = if maxd > 1000 && r.chance(2, 3) { maxd + 10 } else { 100.min(maxd + 12) };
        let mut offs: Vec<u64> = (0..n).map(|_| r.below(hi + 1)).collect();
        if maxd > 1000 {
            // keep the Set variant's O(n) range counting cheap but still cross the boundary
            for o in offs.iter_mut() {
                if r.chance(1, 2) {
                    *o = (maxd - (maxd % 65536).min(20)).saturating_sub(dv.len() as u64) + r.below(30);
                }
            }
        }
        offs.sort();
        if r.chance(1, 4) && offs.len() > 1 {
            let j = r.usize(offs.len() - 1);
            offs[j + 1] = offs[j]; // duplicate
            offs.sort();
        }
        if r.chance(1, 10) {
            offs = (0..n).collect(); // every offset from 0
        }
        lines.push(format!("map {kind} {} {}", show_nat_list(dv.iter().copied()), show_nat_list(offs)));
    }
    if r.chance(3, 100) {
        lines.push("map X 1 1".into()); // malformed
    }
    lines
}

fn gen_synth(r: &mut Rng) -> Vec<String> {
    // unique ids, dealt to 1-4 fragments in chunks so that chunk ranges interleave / overlap
    let nfrags = r.range(1, 4);
    let total = r.range(1, 24);
    let mut ids: Vec<u64> = vec![];
    let mut cur = r.below(5);
    for _ in 0..total {
        ids.push(cur);
        cur += if r.chance(2, 3) { 1 } else { r.range(2, 9) };
    }
    match r.below(4) {
        0 => {}
        1 => shuffle(r, &mut ids),
        2 => {
            // a few sorted runs dealt round-robin (what compaction / updates produce)
            let k = r.range(2, 4) as usize;
            let mut runs: Vec<Vec<u64>> = vec![vec![]; k];
            for id in &ids {
                runs[r.usize(k)].push(*id);
            }
            ids = runs.concat();
        }
        _ => ids.reverse(),
    }
    let mut lines = vec![format!("synth {nfrags}")];
    let mut all: Vec<(u64, bool)> = vec![];
    let mut pos = 0usize;
    let mut fid = r.below(3);
    for fi in 0..nfrags {
        let remaining = ids.len() - pos;
        let n = if fi + 1 == nfrags { remaining } else { r.usize(remaining + 1) };
        let rowids = &ids[pos..pos + n];
        pos += n;
        let dv: Vec<u64> = (0..n as u64).filter(|_| r.chance(1, 4)).collect();
        let mut seglens = vec![];
        let mut left = n;
        while left > 0 {
            let l = r.range(1, left as u64) as usize;
            seglens.push(l as u64);
            left -= l;
        }
        for (o, id) in rowids.iter().enumerate() {
            all.push((*id, !dv.contains(&(o as u64))));
        }
        lines.push(format!(
            "sfrag {fid} {n} {} {} {}",
            show_nat_list(dv),
            show_nat_list(rowids.iter().copied()),
            show_nat_list(seglens)
        ));
        fid += r.range(1, 3);
    }
    for _ in 0..r.range(1, 3) {
        let mut q: Vec<u64> = all.iter().filter(|_| r.chance(2, 3)).map(|(i, _)| *i).collect();
        q.push(cur + r.below(5));
        if let Some((i, _)) = all.first() {
            q.push(i.saturating_sub(1));
            q.push(i + 1);
        }
        shuffle(r, &mut q);
        lines.push(format!("idx {}", show_nat_list(q)));
    }
    lines
}

fn main() {
    run_main(C15::new());
}
