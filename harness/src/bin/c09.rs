//! C09: branches, tags and shallow clones are isolated references.
//!
//! Interpreter of the C09 op lines against the REAL lance code, a seeded generator and the property oracle.
//!
//! Two families of op lines (a case uses one family):
//!
//! pure (names are tokens over the alphabet {a,b,1,/,.,-,_,é,\,@}; `~` is the empty string; `-` the empty list):
//! ```text
//! vb <name>                  refs::check_valid_branch            -> ok | err <rule>
//! vt <name>                  refs::check_valid_tag               -> ok | err <rule>
//! cp <name> <n1,n2,…|->      Branches::get_cleanup_path (hook)   -> none | some <path below the table root> | err | panic
//! fb <cur|-> <target|->      BranchLocation::find_branch         -> ok <path> <uri> | err
//! bc <name>                  refs::branch_contents_path          -> file name below _refs/branches
//! ```
//! histories on a real table in a temporary directory (one Int64 column; `<br>` is a branch name or `-` for main):
//! ```text
//! create <rows>                     Dataset::write(Create)
//! branch <name> <src> <ver>         handle of <src>.create_branch(name, (src, ver))       (the documented way)
//! branchm <name> <src> <ver>        handle of MAIN.create_branch(name, (src, ver))
//! append <br> <rows> | overwrite <br> <rows>
//! tag <t> <br> <ver> | retag <t> <br> <ver> | untag <t> | gettag <t> | tags
//! delbranch <name> | fdelbranch <name>
//! read <br> <ver|l> | readtag <t> | branches | ls | cleanup <br>
//! clone <br> <ver> | cappend <rows> | cread        one shallow clone per case, in a second directory
//! ```
//! Oracle (never looks at the Lean model): the harness keeps, from what it wrote itself, the rows of every
//! (branch, version) it created and the (branch, version) of every tag; after every mutating op it re-reads all of
//! them (except versions of the branch the op was allowed to remove) and compares; after a branch deletion it also
//! checks `tree/`: every other branch keeps its directory and the deleted branch's directory is gone unless another
//! branch is nested below it.

use std::collections::{BTreeMap, BTreeSet};

use hcommon::*;
use lance::dataset::refs::{
    branch_contents_path, check_valid_branch, check_valid_tag, verif_branch_location, verif_get_cleanup_path,
};
use lance::Dataset;
use object_store::path::Path as OPath;

#[path = "../tablekit.rs"]
#[allow(dead_code)]
mod tablekit;
use tablekit::*;

const ALPHA: [char; 7] = ['a', 'b', '1', '/', '.', '-', '_'];
const ALPHA_X: [char; 10] = ['a', 'b', '1', '/', '.', '-', '_', 'é', '\\', '@'];
const RESERVED: [&str; 5] = ["_versions", "data", "_transactions", "_deletions", "_indices"];

fn tok(name: &str) -> String {
    if name.is_empty() {
        "~".into()
    } else {
        name.into()
    }
}
fn untok(t: &str) -> String {
    if t == "~" {
        String::new()
    } else {
        t.into()
    }
}
fn br_tok(b: &Option<String>) -> String {
    b.clone().unwrap_or_else(|| "-".into())
}
fn br_untok(t: &str) -> Option<String> {
    if t == "-" {
        None
    } else {
        Some(t.into())
    }
}

fn branch_rule(msg: &str) -> &'static str {
    if msg.contains("cannot be empty") {
        "empty"
    } else if msg.contains("start or end with") {
        "edge_slash"
    } else if msg.contains("consecutive '/'") {
        "double_slash"
    } else if msg.contains("'..' or") {
        "dotdot_backslash"
    } else if msg.contains("empty segments") {
        "empty_segment"
    } else if msg.contains("invalid characters") {
        "bad_char"
    } else if msg.contains(".lock") {
        "lock"
    } else if msg.contains("cannot be 'main'") {
        "main"
    } else {
        "other"
    }
}

fn tag_rule(msg: &str) -> &'static str {
    if msg.contains("cannot be empty") {
        "empty"
    } else if msg.contains("must be either alphanumeric") {
        "bad_char"
    } else if msg.contains("begin with a dot") {
        "lead_dot"
    } else if msg.contains("end with a dot") {
        "trail_dot"
    } else if msg.contains(".lock") {
        "lock"
    } else if msg.contains("two consecutive dots") {
        "dotdot"
    } else {
        "other"
    }
}

fn ref_err(e: &lance::Error) -> &'static str {
    use lance::Error as E;
    match e {
        E::InvalidRef { .. } => "invalid_ref",
        E::RefConflict { .. } => "ref_conflict",
        E::RefNotFound { .. } => "ref_not_found",
        E::VersionNotFound { .. } => "version_not_found",
        E::DatasetNotFound { .. } | E::NotFound { .. } => "not_found",
        E::DatasetAlreadyExists { .. } => "already_exists",
        E::InvalidInput { .. } => "invalid_input",
        E::Cleanup { .. } => "cleanup",
        _ => "other",
    }
}

// ------------------------------------------------------------------------------------------------
// the reference grammar used by the oracle (written from docs/src/format/table/branch_tag.md, not from refs.rs)
// ------------------------------------------------------------------------------------------------

fn doc_char(c: char) -> bool {
    c.is_alphanumeric() || c == '.' || c == '-' || c == '_'
}

fn doc_branch_ok(s: &str) -> bool {
    !s.is_empty()
        && !s.starts_with('/')
        && !s.ends_with('/')
        && !s.contains("//")
        && !s.contains("..")
        && !s.contains('\\')
        && s.split('/').all(|seg| seg.chars().all(doc_char))
        && !s.ends_with(".lock")
        && s != "main"
}

fn doc_tag_ok(s: &str) -> bool {
    !s.is_empty()
        && s.chars().all(doc_char)
        && !s.starts_with('.')
        && !s.ends_with('.')
        && !s.ends_with(".lock")
        && !s.contains("..")
}

fn is_dir_prefix(p: &[&str], q: &[&str]) -> bool {
    p.len() <= q.len() && p.iter().zip(q.iter()).all(|(a, b)| a == b)
}

// ------------------------------------------------------------------------------------------------

struct Hist {
    uri: String,
    clone_uri: String,
    spec: SchemaSpec,
    /// rows of every (branch, version) the harness created ("" = main)
    snap: BTreeMap<(String, u64), Vec<Row>>,
    /// latest version per live branch
    latest: BTreeMap<String, u64>,
    /// parent of each branch as created (for classification only)
    parent: BTreeMap<String, String>,
    tags: BTreeMap<String, (Option<String>, u64)>,
    /// shallow clone: expected rows (latest)
    clone_rows: Option<Vec<Row>>,
    /// the branch the clone was taken from ("" = main)
    clone_src: String,
    cloned: bool,
    /// versions already reported as no longer readable (no further expectations built on them)
    broken: BTreeSet<(String, u64)>,
}

struct C09 {
    kit: Kit,
}

enum Mut<'a> {
    /// a write / tag op that may remove nothing
    Additive,
    /// deletion of this branch
    Delete(&'a str),
    /// cleanup on this branch ("" = main)
    Cleanup(&'a str),
}

impl C09 {
    fn handle(&self, h: &Hist, br: &Option<String>) -> Result<Dataset, lance::Error> {
        let main = self.kit.block_on(
            lance::dataset::builder::DatasetBuilder::from_uri(&h.uri)
                .with_read_params(lance::dataset::ReadParams {
                    session: Some(self.kit.session.clone()),
                    ..Default::default()
                })
                .load(),
        )?;
        match br {
            None => Ok(main),
            Some(b) => self.kit.block_on(main.checkout_branch(b)),
        }
    }

    fn read(&self, h: &Hist, br: &Option<String>, ver: Option<u64>) -> Result<(u64, Vec<Row>), (String, String)> {
        let main = self.handle(h, &None).map_err(|e| (ref_err(&e).to_string(), e.to_string()))?;
        let ds = self
            .kit
            .block_on(main.checkout_version((br.clone(), ver)))
            .map_err(|e| (ref_err(&e).to_string(), e.to_string()))?;
        let rows = self
            .kit
            .scan(&ds, &h.spec, &ScanOpts::ordered())
            .map_err(|e| (format!("scan_{}", e.kind.as_str()), e.msg))?;
        Ok((ds.version().version, rows))
    }

    /// dataset directories below `tree/` (directories holding a `_versions` directory), relative, sorted
    fn ls(&self, h: &Hist) -> Vec<String> {
        fn walk(dir: &std::path::Path, rel: &str, out: &mut Vec<String>) {
            let Ok(rd) = std::fs::read_dir(dir) else { return };
            for e in rd.flatten() {
                let p = e.path();
                if !p.is_dir() {
                    continue;
                }
                let name = e.file_name().to_string_lossy().to_string();
                if name == "_versions" {
                    // a dataset root only if it holds at least one manifest file
                    let has = std::fs::read_dir(&p)
                        .map(|r| r.flatten().any(|f| f.path().is_file()))
                        .unwrap_or(false);
                    if has {
                        out.push(rel.to_string());
                    }
                }
                let sub = if rel.is_empty() { name.clone() } else { format!("{rel}/{name}") };
                walk(&p, &sub, out);
            }
        }
        let mut out = vec![];
        walk(&std::path::Path::new(&h.uri).join("tree"), "", &mut out);
        out.sort();
        out.dedup();
        out
    }

    /// re-read everything the op was not allowed to change
    fn recheck(&self, h: &mut Hist, m: Mut, line: usize, fails: &mut Vec<OracleFailure>) {
        let mut broken: Vec<(String, u64)> = vec![];
        for ((b, v), rows) in &h.snap {
            if !h.latest.contains_key(b) {
                continue; // deleted by the harness itself
            }
            let is_latest = h.latest.get(b) == Some(v);
            let tagged = h.tags.values().any(|(tb, tv)| tb.clone().unwrap_or_default() == *b && tv == v);
            if let Mut::Cleanup(cb) = &m {
                if cb == b && !is_latest && !tagged {
                    continue; // cleanup may remove old untagged versions of its own branch
                }
            }
            let br = if b.is_empty() { None } else { Some(b.clone()) };
            let got = self.read(h, &br, Some(*v));
            let ok = matches!(&got, Ok((gv, gr)) if gv == v && gr == rows);
            if !ok {
                let key = match &m {
                    Mut::Cleanup(cb) if cb != b && self.depends_on(h, b, cb) => "cleanup_main_breaks_branch",
                    Mut::Cleanup(_) => "cleanup_breaks_other",
                    Mut::Delete(x) if self.depends_on(h, b, x) => "delete_parent_breaks_child",
                    Mut::Delete(x) if Self::reserved_collision(x, b) => "nested_branch_reserved_dir",
                    Mut::Delete(_) => "delete_breaks_other_branch",
                    Mut::Additive => "write_changes_other_ref",
                };
                broken.push((b.clone(), *v));
                fails.push(OracleFailure {
                    what: format!(
                        "after the op, ({},{v}) reads {:?}, expected {} rows {}",
                        if b.is_empty() { "main" } else { b },
                        got.as_ref().map(|(gv, r)| format!("v{gv} {}", show_rows(r))).map_err(|e| e.clone()),
                        rows.len(),
                        show_rows(rows)
                    ),
                    key: Some(key.into()),
                    line,
                });
            }
        }
        // the shallow clone
        {
            let src = h.clone_src.as_str();
            let key = match &m {
                Mut::Cleanup(cb) if *cb == src || self.depends_on(h, src, cb) => "cleanup_main_breaks_branch",
                Mut::Cleanup(_) => "cleanup_breaks_other",
                Mut::Delete(x) if *x == src || self.depends_on(h, src, x) => "delete_parent_breaks_child",
                Mut::Delete(_) => "delete_breaks_other_branch",
                Mut::Additive => "clone_changed",
            };
            if self.check_clone(h, key, line, fails) {
                h.clone_rows = None; // reported once
            }
        }
        for k in broken {
            h.snap.remove(&k); // reported once
            h.broken.insert(k);
        }
        // tags resolve to what they were given
        if let Ok(main) = self.handle(h, &None) {
            for (t, (tb, tv)) in &h.tags {
                match self.kit.block_on(main.tags().get(t)) {
                    Ok(c) if c.branch == *tb && c.version == *tv => {}
                    other => fails.push(OracleFailure {
                        what: format!("tag {t} should resolve to ({tb:?},{tv}) but gives {:?}", other.map(|c| (c.branch, c.version)).map_err(|e| e.to_string())),
                        key: Some("tag_does_not_resolve".into()),
                        line,
                    }),
                }
            }
        } else {
            fails.push(OracleFailure { what: "main can no longer be opened".into(), key: Some("main_unreadable".into()), line });
        }
    }

    /// does branch `b` (or "" = main) read files written in the directory of `anc`?  (ancestry chain of creation)
    fn depends_on(&self, h: &Hist, b: &str, anc: &str) -> bool {
        let mut cur = b.to_string();
        let mut fuel = 64;
        while let Some(p) = h.parent.get(&cur) {
            if p == anc {
                return true;
            }
            cur = p.clone();
            fuel -= 1;
            if fuel == 0 {
                break;
            }
        }
        false
    }

    /// deleted branch `x` = `<b>/<reserved directory name>[/…]`
    fn reserved_collision(x: &str, b: &str) -> bool {
        if b.is_empty() {
            return false;
        }
        match x.strip_prefix(b).and_then(|r| r.strip_prefix('/')) {
            Some(rest) => RESERVED.contains(&rest.split('/').next().unwrap_or("")),
            None => false,
        }
    }

    fn exec_pure(&self, t: &[&str], line: usize, res: &mut CaseResult) -> String {
        match t {
            ["vb", n] => {
                let n = untok(n);
                let r = check_valid_branch(&n);
                if r.is_ok() != doc_branch_ok(&n) {
                    res.failures.push(OracleFailure {
                        what: format!("check_valid_branch({n:?}) = {:?} but the documented grammar says {}", r.is_ok(), doc_branch_ok(&n)),
                        key: Some("branch_grammar".into()),
                        line,
                    });
                }
                res.tags.push(if r.is_ok() { "vb:ok".into() } else { "vb:err".into() });
                match r {
                    Ok(()) => "ok".into(),
                    Err(e) => format!("err {}", branch_rule(&e.to_string())),
                }
            }
            ["vt", n] => {
                let n = untok(n);
                let r = check_valid_tag(&n);
                if r.is_ok() != doc_tag_ok(&n) {
                    res.failures.push(OracleFailure {
                        what: format!("check_valid_tag({n:?}) = {:?} but the documented grammar says {}", r.is_ok(), doc_tag_ok(&n)),
                        key: Some("tag_grammar".into()),
                        line,
                    });
                }
                res.tags.push(if r.is_ok() { "vt:ok".into() } else { "vt:err".into() });
                match r {
                    Ok(()) => "ok".into(),
                    Err(e) => format!("err {}", tag_rule(&e.to_string())),
                }
            }
            ["cp", n, rem] => {
                let n = untok(n);
                let rem: Vec<String> = if *rem == "-" { vec![] } else { rem.split(',').map(untok).collect() };
                let rem_refs: Vec<&str> = rem.iter().map(|s| s.as_str()).collect();
                let base = verif_branch_location("r", "r", None).unwrap();
                let r = std::panic::catch_unwind(std::panic::AssertUnwindSafe(|| verif_get_cleanup_path(&n, &rem_refs, &base)));
                let all_valid = doc_branch_ok(&n) && rem.iter().all(|r| doc_branch_ok(r)) && !rem.contains(&n);
                let out = match &r {
                    Err(_) => "panic".to_string(),
                    Ok(Err(_)) => "err".to_string(),
                    Ok(Ok(None)) => "none".to_string(),
                    Ok(Ok(Some(p))) => format!("some {}", p.as_ref().strip_prefix("r/").unwrap_or(p.as_ref())),
                };
                res.tags.push(format!("cp:{}{}", out.split(' ').next().unwrap(), if all_valid { "" } else { ":invalid" }));
                if all_valid {
                    // the property, evaluated on the real output
                    let xs: Vec<&str> = n.split('/').collect();
                    let mut full_x = vec!["tree"];
                    full_x.extend(xs.iter());
                    match &r {
                        Err(_) => res.failures.push(OracleFailure { what: format!("get_cleanup_path({n:?},{rem:?}) panicked"), key: Some("cleanup_path_panic".into()), line }),
                        Ok(Err(e)) => {
                            // a valid name with a segment `.` cannot be a path (object_store rejects it); anything else is a failure
                            if !xs.contains(&".") {
                                res.failures.push(OracleFailure { what: format!("get_cleanup_path({n:?},{rem:?}) = Err({e})"), key: Some("cleanup_path_error".into()), line });
                            }
                        }
                        Ok(Ok(None)) => {
                            let nested = rem.iter().any(|y| is_dir_prefix(&xs, &y.split('/').collect::<Vec<_>>()));
                            if !nested {
                                res.failures.push(OracleFailure { what: format!("get_cleanup_path({n:?},{rem:?}) = None although no remaining branch lives below tree/{n}: its storage is left behind"), key: Some("branch_storage_left_behind".into()), line });
                            }
                        }
                        Ok(Ok(Some(p))) => {
                            let ps: Vec<&str> = p.as_ref().split('/').skip(1).collect();
                            if !(ps.len() >= 2 && is_dir_prefix(&ps, &full_x)) {
                                res.failures.push(OracleFailure { what: format!("get_cleanup_path({n:?},{rem:?}) = {p}: not a directory prefix of tree/{n} (the branch's own storage is not removed)"), key: Some("cleanup_path_not_own".into()), line });
                            }
                            for y in &rem {
                                let mut full_y = vec!["tree"];
                                full_y.extend(y.split('/'));
                                if is_dir_prefix(&ps, &full_y) {
                                    res.failures.push(OracleFailure { what: format!("get_cleanup_path({n:?},{rem:?}) = {p} contains the directory of the remaining branch {y}"), key: Some("cleanup_path_hits_other".into()), line });
                                }
                                // storage directories of y below the removed path
                                if is_dir_prefix(&full_y, &ps) && ps.len() > full_y.len() && RESERVED.contains(&ps[full_y.len()]) {
                                    res.failures.push(OracleFailure { what: format!("get_cleanup_path({n:?},{rem:?}) = {p} lies inside the storage directory {} of the remaining branch {y}", ps[full_y.len()]), key: Some("nested_branch_reserved_dir".into()), line });
                                }
                            }
                        }
                    }
                }
                out
            }
            ["fb", cur, target] => {
                let cur = br_untok(cur);
                let target = br_untok(target).map(|t| untok(&t));
                let (p, u) = match &cur {
                    None => ("r".to_string(), "r".to_string()),
                    Some(c) => (format!("r/tree/{c}"), format!("r/tree/{c}")),
                };
                let out = match verif_branch_location(&p, &u, cur.clone()) {
                    Err(_) => "err".to_string(),
                    Ok(loc) => match loc.find_branch(target.clone()) {
                        Ok(l) => {
                            // round trip: the main location of the result is the root
                            if let Ok(m) = l.find_main() {
                                if m.path.as_ref() != "r" {
                                    res.failures.push(OracleFailure { what: format!("find_main(find_branch({cur:?} -> {target:?})) = {}", m.path), key: Some("find_main_roundtrip".into()), line });
                                }
                            }
                            format!("ok {} {}", l.path, l.uri)
                        }
                        Err(_) => "err".to_string(),
                    },
                };
                res.tags.push(format!("fb:{}", out.split(' ').next().unwrap()));
                out
            }
            ["bc", n] => {
                let n = untok(n);
                let p = branch_contents_path(&OPath::from("r"), &n);
                res.tags.push("bc".into());
                p.as_ref().strip_prefix("r/_refs/branches/").unwrap_or(p.as_ref()).to_string()
            }
            _ => "err parse".into(),
        }
    }

    #[allow(clippy::too_many_lines)]
    fn exec_hist(&mut self, h: &mut Option<Hist>, t: &[&str], line: usize, res: &mut CaseResult) -> String {
        let knobs = Knobs::default();
        if let ["create", rows] = t {
            if h.is_some() {
                return "err parse".into();
            }
            let Some(rows) = parse_rows(rows) else { return "err parse".into() };
            let uri = self.kit.tempdir_uri();
            let clone_uri = self.kit.tempdir_uri();
            let spec = SchemaSpec::ints(1);
            if !spec.check_rows(&rows) {
                return "err parse".into();
            }
            return match self.kit.create(&uri, &spec, &[rows.clone()], &knobs) {
                Ok(ds) => {
                    let v = ds.version().version;
                    let mut hh = Hist { uri, clone_uri, spec, snap: BTreeMap::new(), latest: BTreeMap::new(), parent: BTreeMap::new(), tags: BTreeMap::new(), clone_rows: None, clone_src: String::new(), cloned: false, broken: BTreeSet::new() };
                    hh.snap.insert((String::new(), v), rows);
                    hh.latest.insert(String::new(), v);
                    *h = Some(hh);
                    res.tags.push("create".into());
                    format!("ok v={v}")
                }
                Err(e) => format!("err {}", e.kind.as_str()),
            };
        }
        let Some(h) = h.as_mut() else { return "err parse".into() };
        res.tags.push(t[0].to_string());
        match t {
            ["branch" | "branchm", name, src, ver] => {
                let from_main = t[0] == "branchm";
                let name = untok(name);
                let src = br_untok(src);
                let Ok(ver) = ver.parse::<u64>() else { return "err parse".into() };
                let handle = if from_main { self.handle(h, &None) } else { self.handle(h, &src) };
                let mut ds = match handle {
                    Ok(d) => d,
                    Err(e) => return format!("err {}", ref_err(&e)),
                };
                // does a dataset (live branch or zombie) already live at the target directory?
                let target_exists = ds
                    .find_branch_location(&name)
                    .ok()
                    .map(|l| {
                        let p = std::path::Path::new("/").join(l.path.as_ref()).join("_versions");
                        std::fs::read_dir(&p).map(|r| r.flatten().any(|f| f.path().is_file())).unwrap_or(false)
                    })
                    .unwrap_or(false);
                match self.kit.block_on(ds.create_branch(&name, (src.clone(), Some(ver)), None)) {
                    Ok(nd) => {
                        let v = nd.version().version;
                        let skey = src.clone().unwrap_or_default();
                        // expectation: the new branch reads what (src, ver) read
                        match h.snap.get(&(skey.clone(), ver)).cloned() {
                            Some(rows) => {
                                h.snap.insert((name.clone(), v), rows);
                            }
                            None if h.broken.contains(&(skey.clone(), ver)) || !h.latest.contains_key(&skey) => {} // source already reported broken, or a zombie
                            None => res.failures.push(OracleFailure { what: format!("create_branch from ({skey},{ver}) succeeded although the harness never created that version"), key: Some("branch_from_unknown_version".into()), line }),
                        }
                        h.latest.insert(name.clone(), v);
                        h.parent.insert(name.clone(), skey.clone());
                        // the new branch reads what (src, ver) reads
                        if let Some(exp) = h.snap.get(&(name.clone(), v)).cloned() {
                            let got = self.read(h, &Some(name.clone()), Some(v));
                            if !matches!(&got, Ok((_, r)) if *r == exp) {
                                let other_handle = from_main && src.is_some();
                                res.failures.push(OracleFailure {
                                    what: format!("branch {name} created from ({skey},{ver}) reads {:?}, expected {}", got.as_ref().map(|(_, r)| show_rows(r)).map_err(|e| e.0.clone()), show_rows(&exp)),
                                    key: Some(if other_handle { "branch_cloned_from_handle" } else { "branch_reads_wrong_rows" }.into()),
                                    line,
                                });
                                // re-baseline so that later isolation checks stay meaningful
                                match got {
                                    Ok((_, r)) => {
                                        h.snap.insert((name.clone(), v), r);
                                    }
                                    Err(_) => {
                                        h.snap.remove(&(name.clone(), v));
                                    }
                                }
                                if other_handle {
                                    // the clone points at the handle's dataset
                                    h.parent.insert(name.clone(), String::new());
                                }
                            }
                        }
                        self.recheck(h, Mut::Additive, line, &mut res.failures);
                        res.nontrivial = true;
                        format!("ok v={v}")
                    }
                    Err(e) => {
                        self.recheck(h, Mut::Additive, line, &mut res.failures);
                        // with a dataset already at the target the error kind depends on lance internals
                        // (NotFound / Internal / …): one canonical class
                        let kind = if target_exists { "target_exists" } else { ref_err(&e) };
                        res.tags.push(format!("branch:err:{kind}"));
                        format!("err {kind}")
                    }
                }
            }
            ["append" | "overwrite", br, rows] => {
                let br = br_untok(br);
                let Some(rows) = parse_rows(rows) else { return "err parse".into() };
                if !h.spec.check_rows(&rows) {
                    return "err parse".into();
                }
                let ds = match self.handle(h, &br) {
                    Ok(d) => d,
                    Err(e) => return format!("err {}", ref_err(&e)),
                };
                let over = t[0] == "overwrite";
                let r = if over { self.kit.overwrite(&ds, &h.spec, &[rows.clone()], &knobs) } else { self.kit.append(&ds, &h.spec, &[rows.clone()], &knobs) };
                match r {
                    Ok(nd) => {
                        let v = nd.version().version;
                        let key = br.clone().unwrap_or_default();
                        // (no expectation for a version built on one that was already reported broken)
                        if h.latest.contains_key(&key) {
                            let base = if over { Some(vec![]) } else { h.latest.get(&key).and_then(|lv| h.snap.get(&(key.clone(), *lv))).cloned() };
                            if let Some(mut all) = base {
                                all.extend(rows);
                                h.snap.insert((key.clone(), v), all);
                            }
                            h.latest.insert(key, v);
                        } // else: a zombie directory of a branch the harness deleted — nothing is expected of it
                        self.recheck(h, Mut::Additive, line, &mut res.failures);
                        format!("ok v={v}")
                    }
                    Err(e) => format!("err {}", e.kind.as_str()),
                }
            }
            ["tag" | "retag", tname, br, ver] => {
                let tname = untok(tname);
                let br = br_untok(br);
                let Ok(ver) = ver.parse::<u64>() else { return "err parse".into() };
                let main = match self.handle(h, &None) {
                    Ok(d) => d,
                    Err(e) => return format!("err {}", ref_err(&e)),
                };
                let r = if t[0] == "tag" {
                    self.kit.block_on(main.tags().create_on_branch(&tname, ver, br.as_deref()))
                } else {
                    self.kit.block_on(main.tags().update_on_branch(&tname, ver, br.as_deref()))
                };
                match r {
                    Ok(()) => {
                        h.tags.insert(tname, (br, ver));
                        self.recheck(h, Mut::Additive, line, &mut res.failures);
                        "ok".into()
                    }
                    Err(e) => {
                        self.recheck(h, Mut::Additive, line, &mut res.failures);
                        format!("err {}", ref_err(&e))
                    }
                }
            }
            ["untag", tname] => {
                let tname = untok(tname);
                let main = match self.handle(h, &None) {
                    Ok(d) => d,
                    Err(e) => return format!("err {}", ref_err(&e)),
                };
                match self.kit.block_on(main.tags().delete(&tname)) {
                    Ok(()) => {
                        h.tags.remove(&tname);
                        self.recheck(h, Mut::Additive, line, &mut res.failures);
                        "ok".into()
                    }
                    Err(e) => format!("err {}", ref_err(&e)),
                }
            }
            ["gettag", tname] => {
                let tname = untok(tname);
                let main = match self.handle(h, &None) {
                    Ok(d) => d,
                    Err(e) => return format!("err {}", ref_err(&e)),
                };
                match self.kit.block_on(main.tags().get(&tname)) {
                    Ok(c) => format!("ok {} {}", br_tok(&c.branch), c.version),
                    Err(e) => format!("err {}", ref_err(&e)),
                }
            }
            ["tags"] => {
                let main = match self.handle(h, &None) {
                    Ok(d) => d,
                    Err(e) => return format!("err {}", ref_err(&e)),
                };
                match self.kit.block_on(main.tags().list()) {
                    Ok(m) => {
                        let mut v: Vec<String> = m.iter().map(|(k, c)| format!("{k}:{}:{}", br_tok(&c.branch), c.version)).collect();
                        v.sort();
                        if v.is_empty() { "-".into() } else { v.join(",") }
                    }
                    Err(e) => format!("err {}", ref_err(&e)),
                }
            }
            ["delbranch" | "fdelbranch", name] => {
                let name = untok(name);
                let mut main = match self.handle(h, &None) {
                    Ok(d) => d,
                    Err(e) => return format!("err {}", ref_err(&e)),
                };
                let r = if t[0] == "delbranch" { self.kit.block_on(main.delete_branch(&name)) } else { self.kit.block_on(main.force_delete_branch(&name)) };
                match r {
                    Ok(()) => {
                        h.latest.remove(&name);
                        h.snap.retain(|(b, _), _| *b != name);
                        h.broken.retain(|(b, _)| *b != name);
                        self.recheck(h, Mut::Delete(&name), line, &mut res.failures);
                        let ls = self.ls(h);
                        // every live branch keeps its directory; the deleted one is gone unless a live branch is nested below
                        let xs: Vec<&str> = name.split('/').collect();
                        for b in h.latest.keys().filter(|b| !b.is_empty()) {
                            if !ls.contains(b) {
                                res.failures.push(OracleFailure { what: format!("delete_branch({name}) removed the directory of branch {b}"), key: Some(if Self::reserved_collision(&name, b) { "nested_branch_reserved_dir" } else { "delete_removed_other_dir" }.into()), line });
                            }
                        }
                        let nested = h.latest.keys().any(|b| !b.is_empty() && is_dir_prefix(&xs, &b.split('/').collect::<Vec<_>>()));
                        if ls.contains(&name) && !nested {
                            res.failures.push(OracleFailure { what: format!("delete_branch({name}) left tree/{name} behind"), key: Some("branch_storage_left_behind".into()), line });
                        }
                        res.nontrivial = true;
                        format!("ok ls={}", if ls.is_empty() { "-".into() } else { ls.join(",") })
                    }
                    Err(e) => {
                        self.recheck(h, Mut::Additive, line, &mut res.failures);
                        res.tags.push(format!("delbranch:err:{}", ref_err(&e)));
                        format!("err {}", ref_err(&e))
                    }
                }
            }
            ["read", br, ver] => {
                let br = br_untok(br);
                let ver = if *ver == "l" { None } else { match ver.parse::<u64>() { Ok(v) => Some(v), Err(_) => return "err parse".into() } };
                match self.read(h, &br, ver) {
                    Ok((v, rows)) => format!("ok v={v} rows={}", show_rows(&rows)),
                    Err((k, _)) => format!("err {k}"),
                }
            }
            ["readtag", tname] => {
                let tname = untok(tname);
                let main = match self.handle(h, &None) {
                    Ok(d) => d,
                    Err(e) => return format!("err {}", ref_err(&e)),
                };
                match self.kit.block_on(main.checkout_version(tname.as_str())) {
                    Ok(ds) => match self.kit.scan(&ds, &h.spec, &ScanOpts::ordered()) {
                        Ok(rows) => {
                            if let Some((tb, tv)) = h.tags.get(&tname) {
                                if h.latest.contains_key(&tb.clone().unwrap_or_default()) {
                                    if let Some(exp) = h.snap.get(&(tb.clone().unwrap_or_default(), *tv)) {
                                        if *exp != rows {
                                            res.failures.push(OracleFailure { what: format!("tag {tname} reads {} expected {}", show_rows(&rows), show_rows(exp)), key: Some("tag_reads_wrong_rows".into()), line });
                                        }
                                    }
                                }
                            }
                            format!("ok v={} rows={}", ds.version().version, show_rows(&rows))
                        }
                        Err(e) => format!("err scan_{}", e.kind.as_str()),
                    },
                    Err(e) => format!("err {}", ref_err(&e)),
                }
            }
            ["branches"] => {
                let main = match self.handle(h, &None) {
                    Ok(d) => d,
                    Err(e) => return format!("err {}", ref_err(&e)),
                };
                match self.kit.block_on(main.list_branches()) {
                    Ok(m) => {
                        let mut v: Vec<String> = m.iter().map(|(k, c)| format!("{k}:{}:{}", br_tok(&c.parent_branch), c.parent_version)).collect();
                        v.sort();
                        let live: BTreeSet<&String> = h.latest.keys().filter(|b| !b.is_empty()).collect();
                        let listed: BTreeSet<&String> = m.keys().collect();
                        if live != listed {
                            res.failures.push(OracleFailure { what: format!("list_branches = {listed:?}, the harness created and kept {live:?}"), key: Some("branch_list_mismatch".into()), line });
                        }
                        if v.is_empty() { "-".into() } else { v.join(",") }
                    }
                    Err(e) => format!("err {}", ref_err(&e)),
                }
            }
            ["ls"] => {
                let ls = self.ls(h);
                if ls.is_empty() { "-".into() } else { ls.join(",") }
            }
            ["cleanup", br] => {
                let br = br_untok(br);
                let ds = match self.handle(h, &br) {
                    Ok(d) => d,
                    Err(e) => return format!("err {}", ref_err(&e)),
                };
                match self.kit.block_on(ds.cleanup_old_versions(chrono::Duration::zero(), Some(true), Some(false))) {
                    Ok(st) => {
                        let key = br.clone().unwrap_or_default();
                        self.recheck(h, Mut::Cleanup(&key), line, &mut res.failures);
                        // the versions cleanup was allowed to remove are no longer expected
                        let latest = h.latest.get(&key).copied();
                        let tags = h.tags.clone();
                        h.snap.retain(|(b, v), _| {
                            *b != key || Some(*v) == latest || tags.values().any(|(tb, tv)| tb.clone().unwrap_or_default() == *b && tv == v)
                        });
                        res.nontrivial = true;
                        format!("ok old={}", st.old_versions)
                    }
                    Err(e) => format!("err {}", ref_err(&e)),
                }
            }
            ["clone", br, ver] => {
                let br = br_untok(br);
                let Ok(ver) = ver.parse::<u64>() else { return "err parse".into() };
                if h.cloned {
                    return "err parse".into();
                }
                let mut ds = match self.handle(h, &br) {
                    Ok(d) => d,
                    Err(e) => return format!("err {}", ref_err(&e)),
                };
                let target = h.clone_uri.clone();
                match self.kit.block_on(ds.shallow_clone(&target, (br.clone(), Some(ver)), None)) {
                    Ok(nd) => {
                        let exp = h.snap.get(&(br.clone().unwrap_or_default(), ver)).cloned();
                        h.clone_rows = exp;
                        h.cloned = true;
                        h.clone_src = br.clone().unwrap_or_default();
                        self.recheck(h, Mut::Additive, line, &mut res.failures);
                        format!("ok v={}", nd.version().version)
                    }
                    Err(e) => format!("err {}", ref_err(&e)),
                }
            }
            ["cappend", rows] => {
                let Some(rows) = parse_rows(rows) else { return "err parse".into() };
                if !h.spec.check_rows(&rows) || !h.cloned {
                    return "err parse".into();
                }
                let ds = match self.kit.open(&h.clone_uri, None) {
                    Ok(d) => d,
                    Err(e) => return format!("err {}", e.kind.as_str()),
                };
                match self.kit.append(&ds, &h.spec, &[rows.clone()], &knobs) {
                    Ok(nd) => {
                        if let Some(cr) = h.clone_rows.as_mut() {
                            cr.extend(rows);
                        }
                        self.recheck(h, Mut::Additive, line, &mut res.failures);
                        format!("ok v={}", nd.version().version)
                    }
                    Err(e) => format!("err {}", e.kind.as_str()),
                }
            }
            ["cread"] => {
                if !h.cloned {
                    return "err parse".into();
                }
                match self.kit.open(&h.clone_uri, None).and_then(|ds| self.kit.scan(&ds, &h.spec, &ScanOpts::ordered()).map(|r| (ds.version().version, r))) {
                    Ok((v, rows)) => format!("ok v={v} rows={}", show_rows(&rows)),
                    Err(e) => format!("err {}", e.kind.as_str()),
                }
            }
            _ => "err parse".into(),
        }
    }

    /// true = the clone no longer reads what it should (reported)
    fn check_clone(&self, h: &Hist, key: &str, line: usize, fails: &mut Vec<OracleFailure>) -> bool {
        if let Some(exp) = &h.clone_rows {
            let got = self.kit.open(&h.clone_uri, None).and_then(|ds| self.kit.scan(&ds, &h.spec, &ScanOpts::ordered()));
            if !matches!(&got, Ok(r) if r == exp) {
                fails.push(OracleFailure { what: format!("the shallow clone reads {:?}, expected {}", got.map(|r| show_rows(&r)).map_err(|e| e.msg), show_rows(exp)), key: Some(key.into()), line });
                return true;
            }
        }
        false
    }
}

// ------------------------------------------------------------------------------------------------
// generators
// ------------------------------------------------------------------------------------------------

fn nth_string(alpha: &[char], mut idx: usize) -> String {
    // enumeration of all strings by length then lexicographic index: "", a, b, …
    let k = alpha.len();
    let mut len = 0;
    let mut block = 1;
    while idx >= block {
        idx -= block;
        block *= k;
        len += 1;
    }
    let mut cs = vec![];
    for _ in 0..len {
        cs.push(alpha[idx % k]);
        idx /= k;
    }
    cs.iter().rev().collect()
}

fn rand_name(rng: &mut Rng, alpha: &[char], max_len: usize) -> String {
    let n = rng.usize(max_len + 1);
    (0..n).map(|_| *rng.pick(alpha)).collect()
}

/// a mostly valid branch name
fn valid_branch(rng: &mut Rng) -> String {
    let segs = ["a", "b", "ab", "a1", "b.1", "a-b", "_a", "1", "ba", "abc", "é", "aé"];
    let n = 1 + rng.usize(3);
    (0..n).map(|_| *rng.pick(&segs)).collect::<Vec<_>>().join("/")
}

const SPECIAL: [&str; 14] = ["main", "a.lock", ".lock", "a/main", "main/a", "a/.lock", "a.lock/b", "..", "a..b", ".", "a/.", "./a", "mainx", "a.locka"];

fn gen_rows(rng: &mut Rng, ctr: &mut i64) -> String {
    let n = 1 + rng.usize(2);
    let rows: Vec<Row> = (0..n)
        .map(|_| {
            *ctr += 1;
            vec![Some(*ctr)]
        })
        .collect();
    show_rows(&rows)
}

impl C09 {
    fn gen_pure(&self, rng: &mut Rng, idx: usize, tier: Tier) -> Vec<String> {
        let per = 40;
        let mut out = vec![];
        // exhaustive part: strings over ALPHA by enumeration index
        let exhaustive_cases = match tier {
            Tier::Quick | Tier::Search => 500,
            Tier::Thorough => 2500,
        };
        if idx < exhaustive_cases {
            // all strings up to length 5 over 7 letters = 19608; spread over the cases
            let total = 19608;
            let chunk = total / exhaustive_cases + 1;
            for i in 0..chunk {
                let k = idx * chunk + i;
                if k >= total {
                    break;
                }
                let s = nth_string(&ALPHA, k);
                out.push(format!("vb {}", tok(&s)));
                out.push(format!("vt {}", tok(&s)));
                // remaining sets of size <= 3 drawn around the name
                for _ in 0..2 {
                    let m = rng.usize(4);
                    let rem: Vec<String> = (0..m).map(|_| tok(&self.near(rng, &s))).collect();
                    out.push(format!("cp {} {}", tok(&s), if rem.is_empty() { "-".into() } else { rem.join(",") }));
                }
            }
            return out;
        }
        for _ in 0..per {
            match rng.usize(10) {
                0 | 1 => {
                    let s = if rng.chance(1, 4) { rng.pick(&SPECIAL).to_string() } else { rand_name(rng, &ALPHA_X, 7) };
                    out.push(format!("vb {}", tok(&s)));
                    out.push(format!("vt {}", tok(&s)));
                }
                2 => {
                    let s = valid_branch(rng);
                    out.push(format!("vb {}", tok(&s)));
                    out.push(format!("bc {}", tok(&s)));
                }
                3 => {
                    let cur = if rng.chance(1, 2) { "-".to_string() } else { valid_branch(rng) };
                    let target = if rng.chance(1, 6) { "-".to_string() } else if rng.chance(1, 8) { tok(&rand_name(rng, &ALPHA, 5)) } else { valid_branch(rng) };
                    out.push(format!("fb {cur} {target}"));
                }
                _ => {
                    // cleanup path on valid names with shared prefixes
                    let s = if rng.chance(1, 10) { rand_name(rng, &ALPHA_X, 6) } else { valid_branch(rng) };
                    let m = rng.usize(4);
                    let rem: Vec<String> = (0..m).map(|_| tok(&self.near(rng, &s))).collect();
                    out.push(format!("cp {} {}", tok(&s), if rem.is_empty() { "-".into() } else { rem.join(",") }));
                }
            }
        }
        out
    }

    /// a name related to `s`: shares a character prefix, a segment prefix, extends it, or is unrelated
    fn near(&self, rng: &mut Rng, s: &str) -> String {
        let cs: Vec<char> = s.chars().collect();
        match rng.usize(6) {
            0 => valid_branch(rng),
            1 => {
                let k = rng.usize(cs.len() + 1);
                let mut t: String = cs[..k].iter().collect();
                t.push_str(&rand_name(rng, &ALPHA, 2));
                t
            }
            2 => format!("{s}/{}", *rng.pick(&["a", "b", "data", "_versions"])),
            3 => {
                let segs: Vec<&str> = s.split('/').collect();
                let k = rng.usize(segs.len() + 1);
                let mut v: Vec<String> = segs[..k].iter().map(|x| x.to_string()).collect();
                v.push(rng.pick(&["a", "b", "ab", "1"]).to_string());
                v.join("/")
            }
            4 => {
                let k = rng.usize(cs.len() + 1);
                cs[..k].iter().collect()
            }
            _ => rand_name(rng, &ALPHA, 4),
        }
    }

    fn gen_hist(&self, rng: &mut Rng) -> Vec<String> {
        let mut ctr = 0i64;
        let mut out = vec![format!("create {}", gen_rows(rng, &mut ctr))];
        // generator-side bookkeeping (mostly valid ops): live branches with their versions
        let mut live: Vec<(String, Vec<u64>)> = vec![("-".into(), vec![1])];
        let mut tags: Vec<String> = vec![];
        let pool_sets: [&[&str]; 5] = [
            &["ab", "ac", "a/b", "a", "abc"],
            &["a/b", "a/c", "a/b/c", "b", "a"],
            &["x", "xy", "x/y", "xy/z", "x.y"],
            &["f/a1", "f/a2", "f/a", "g/a", "f"],
            &["é", "éa", "é/a", "a/é", "aé"],
        ];
        let npools = if rng.chance(1, 6) { 5 } else { 4 };
        let pool = pool_sets[rng.usize(npools)];
        let tag_pool = ["t1", "t2", "v.1"];
        if rng.chance(1, 3) {
            out.push("tag t1 - 1".into());
            tags.push("t1".into());
        }
        let n = 4 + rng.usize(8);
        let mut cloned = false;
        for _ in 0..n {
            let (b, vers) = live[rng.usize(live.len())].clone();
            match rng.usize(16) {
                0..=3 => {
                    let name = rng.pick(pool).to_string();
                    let ver = if rng.chance(1, 10) { vers.last().unwrap() + 1 + rng.below(2) } else { *rng.pick(&vers) };
                    let op = if rng.chance(1, 8) { "branchm" } else { "branch" };
                    out.push(format!("{op} {name} {b} {ver}"));
                    if !live.iter().any(|(l, _)| *l == name) && vers.contains(&ver) && (op == "branch" || b == "-") {
                        live.push((name, vec![ver]));
                    }
                }
                4..=6 => {
                    out.push(format!("append {b} {}", gen_rows(rng, &mut ctr)));
                    let i = live.iter().position(|(l, _)| *l == b).unwrap();
                    let nv = live[i].1.last().unwrap() + 1;
                    live[i].1.push(nv);
                }
                7 => {
                    out.push(format!("overwrite {b} {}", gen_rows(rng, &mut ctr)));
                    let i = live.iter().position(|(l, _)| *l == b).unwrap();
                    let nv = live[i].1.last().unwrap() + 1;
                    live[i].1.push(nv);
                }
                8 | 9 => {
                    // tag ops: mostly create / move an existing tag (to any live branch and version), sometimes
                    // delete / look up / read through it
                    let t = if !tags.is_empty() && rng.chance(3, 5) { rng.pick(&tags).clone() } else { rng.pick(&tag_pool).to_string() };
                    match rng.usize(8) {
                        0 => {
                            out.push(format!("untag {t}"));
                            tags.retain(|x| *x != t);
                        }
                        1 => out.push(format!("gettag {t}")),
                        2 => out.push(format!("readtag {t}")),
                        _ => {
                            let op = if tags.contains(&t) != rng.chance(1, 12) { "retag" } else { "tag" };
                            // prefer a branch other than main as the target
                            let (b, vers) = if live.len() > 1 && rng.chance(2, 3) { live[1 + rng.usize(live.len() - 1)].clone() } else { (b.clone(), vers.clone()) };
                            let ver = if rng.chance(1, 10) { vers.last().unwrap() + 1 } else { *rng.pick(&vers) };
                            out.push(format!("{op} {t} {b} {ver}"));
                            if op == "tag" && vers.contains(&ver) && !tags.contains(&t) {
                                tags.push(t);
                            }
                        }
                    }
                }
                10..=12 => {
                    // delete a branch (mostly a live one)
                    let name = if rng.chance(1, 8) || live.len() == 1 { rng.pick(pool).to_string() } else { live[1 + rng.usize(live.len() - 1)].0.clone() };
                    out.push(format!("{} {name}", if rng.chance(1, 10) { "fdelbranch" } else { "delbranch" }));
                    live.retain(|(l, _)| *l != name);
                }
                13 => {
                    out.push(format!("read {b} {}", if rng.chance(1, 2) { "l".to_string() } else { rng.pick(&vers).to_string() }));
                }
                14 => {
                    if !cloned {
                        out.push(format!("clone {b} {}", rng.pick(&vers)));
                        cloned = true;
                    } else if rng.chance(1, 2) {
                        out.push(format!("cappend {}", gen_rows(rng, &mut ctr)));
                    } else {
                        out.push("cread".into());
                    }
                }
                _ => {
                    if rng.chance(1, 2) {
                        out.push(format!("cleanup {b}"));
                        let i = live.iter().position(|(l, _)| *l == b).unwrap();
                        let last = *live[i].1.last().unwrap();
                        live[i].1 = vec![last];
                    } else {
                        out.push("branches".into());
                    }
                }
            }
        }
        out.push("branches".into());
        out.push("tags".into());
        out.push("ls".into());
        for (b, _) in &live {
            out.push(format!("read {b} l"));
        }
        out
    }
}

impl Prop for C09 {
    fn id(&self) -> &'static str {
        "C09"
    }
    fn budget(&self, tier: Tier) -> usize {
        match tier {
            Tier::Quick => 900,
            Tier::Thorough => 6500,
            Tier::Search => 2200,
        }
    }
    fn gen_case(&mut self, rng: &mut Rng, tier: Tier, idx: usize) -> Vec<String> {
        let (exh, pure_rand) = match tier {
            Tier::Quick | Tier::Search => (500, 200),
            Tier::Thorough => (2500, 1500),
        };
        if idx < exh + pure_rand {
            self.gen_pure(rng, idx, tier)
        } else {
            self.gen_hist(rng)
        }
    }
    fn exec_case(&mut self, lines: &[String]) -> CaseResult {
        let mut res = CaseResult::default();
        let mut h: Option<Hist> = None;
        for (i, l) in lines.iter().enumerate() {
            let t: Vec<&str> = l.split(' ').filter(|s| !s.is_empty()).collect();
            let out = match t.first().copied() {
                Some("vb" | "vt" | "cp" | "fb" | "bc") => {
                    res.nontrivial = true;
                    self.exec_pure(&t, i, &mut res)
                }
                Some(_) => {
                    let r = std::panic::catch_unwind(std::panic::AssertUnwindSafe(|| self.exec_hist(&mut h, &t, i, &mut res)));
                    match r {
                        Ok(o) => o,
                        Err(e) => {
                            let msg = e.downcast_ref::<String>().cloned().or_else(|| e.downcast_ref::<&str>().map(|s| s.to_string())).unwrap_or_default();
                            res.failures.push(OracleFailure { what: format!("panic in `{l}`: {msg}"), key: Some("panic".into()), line: i });
                            "panic".into()
                        }
                    }
                }
                None => "err parse".into(),
            };
            res.outputs.push(out);
        }
        self.kit.reset_session();
        res
    }
    fn rule(&self) -> String {
        "pure cases: every string over {a,b,1,/,.,-,_} up to length 5 through check_valid_branch / check_valid_tag and through get_cleanup_path against 2 remaining-branch sets (size <= 3) built around it, plus random strings over {a,b,1,/,.,-,_,é,\\,@}, reserved names, find_branch and the contents file name; history cases: one real table in a temp dir, 4-11 ops among create_branch (from arbitrary live parents/versions, through the parent's or main's handle), append/overwrite on any branch, tag create/update/delete/get, delete_branch (hierarchical names sharing character and directory prefixes), cleanup_old_versions, one shallow clone with writes; after every mutating op every other (branch, version), tag and the clone is re-read. non-trivial = a case that validates a name, computes a cleanup path, creates or deletes a branch, or cleans up".into()
    }
}

fn main() {
    run_main(C09 { kit: Kit::new() })
}
