//! C19: exact scalar indices (BTree, Bitmap) answer filters exactly like a full scan.
//!
//! Interpreter of the C19 op lines against the REAL lance code (`Dataset::write`, `Dataset::delete`, `UpdateBuilder`,
//! `compact_files`, `create_index(BTree | Bitmap)`, `optimize_indices`, `Scanner` with `use_scalar_index(true | false)`,
//! `Planner::{parse_filter, optimize_expr}`, `PlannerIndexExt::create_filter_plan`, `apply_scalar_indices`,
//! `ScalarIndexExpr::evaluate`), a seeded generator of histories with queries, and the property oracle.
//!
//! Op lines (one dataset per case; three nullable Int64 columns c0 c1 c2; predicates in querykit's prefix form):
//!
//! ```text
//! create <rows>                     Dataset::write(Create), one batch = one fragment
//! append <rows>                     Dataset::write(Append), one new fragment
//! delete <expr> => <expr|?>         Dataset::delete(sql(expr)); the second expression as for `scan` (the filter scan of a
//! update c<i> <cell> <expr> => <expr|?>   delete / update uses the scalar indices); UpdateBuilder.update_where(..).set(c<i>, cell)
//! compact                           compact_files(target_rows_per_fragment = 2^20, materialize_deletions, threshold 0)
//! index c<i> <btree|bitmap> [z<n>]  create_index([c<i>], kind, name i<i>, replace = true); z<n> (btree only) = zone_size n:
//!                                   the BTree gets one page per n rows, so that the page lookup is exercised
//! optimize                          optimize_indices(default)
//! plan <natlist> <expr>             apply_scalar_indices(expr AS GIVEN, columns of natlist indexed)   (no dataset needed)
//! scan <expr> => <expr|?>           Scanner.filter(sql(expr)) with and without scalar indices; the second expression is the
//!                                   filter after Planner::optimize_expr (`?` = outside the grammar), recomputed and echoed
//! ieval <iexpr>                     ScalarIndexExpr::evaluate on the dataset's indices; the live rows the mask selects
//! ```
//! iexpr ::= `q c<i> eq <int>` | `q c<i> rg <bd> <bd>` | `q c<i> in <int,..>` | `q c<i> null` | `not` iexpr | `and` iexpr iexpr
//! | `or` iexpr iexpr;  bd ::= `i<int>` | `e<int>` | `u`.
//!
//! Output: mutations `ok rows=<addr,c0,c1,c2;…> idx=<col:kind:frags|…>`; `plan` / `scan`:
//! `ok [opt=<expr|?>] sq=[<iexpr|->] refine=[<expr|->] [idx=<addrs> plain=<addrs>]`; `ieval`: `ok <exact|atmost|atleast> sel=<addrs>`;
//! `err <kind>` / `err parse` / `panic`.
//!
//! Oracle (never looks at the Lean model): the two real scans return the same set of row addresses.  A difference is
//! tagged `not_over_null` iff (i) no matching row is missing, (ii) the predicate is NULL (three-valued) on every extra row,
//! (iii) every extra row has a NULL in a column that sits under a NOT of the index query the real planner built; anything
//! else is unclassified (= a new violation).  A panic of an indexed scan is tagged `panic`.  delete / update: the rows that
//! disappear from their addresses must be the rows on which the predicate is TRUE; a difference is classified the same way.

use std::collections::{BTreeMap, BTreeSet};
use std::ops::Bound;
use std::sync::Arc;

use datafusion::common::{Column, ScalarValue};
use datafusion::logical_expr::expr::InList;
use datafusion::logical_expr::{Between, BinaryExpr, Expr as DfExpr, Operator};
use hcommon::*;
use lance::dataset::optimize::{compact_files, CompactionOptions};
use lance::dataset::UpdateBuilder;
use lance::index::DatasetIndexInternalExt;
use lance::Dataset;
use lance_datafusion::planner::Planner;
use lance_index::metrics::NoOpMetricsCollector;
use lance_index::optimize::OptimizeOptions;
use lance_index::scalar::expression::{
    apply_scalar_indices, IndexExprResult, IndexInformationProvider, PlannerIndexExt, SargableQueryParser, ScalarIndexExpr,
    ScalarIndexSearch, ScalarQueryParser,
};
use lance_index::scalar::{BuiltinIndexType, SargableQuery, ScalarIndexParams};
use lance_index::{DatasetIndexExt, IndexType};

#[path = "../tablekit.rs"]
#[allow(dead_code)]
mod tablekit;
use tablekit::*;
#[path = "../querykit.rs"]
#[allow(dead_code)]
mod querykit;
use querykit::{Cmp, Expr, Operand};

const K: usize = 3;

// ------------------------------------------------------------------------------------------------
// index expressions
// ------------------------------------------------------------------------------------------------

#[derive(Clone, Debug, PartialEq)]
enum Bd {
    Incl(i64),
    Excl(i64),
    Unb,
}

#[derive(Clone, Debug, PartialEq)]
enum Sq {
    Eq(i64),
    Range(Bd, Bd),
    In(Vec<i64>),
    Null,
}

#[derive(Clone, Debug, PartialEq)]
enum IE {
    Q(usize, Sq),
    Not(Box<IE>),
    And(Box<IE>, Box<IE>),
    Or(Box<IE>, Box<IE>),
}

fn show_bd(b: &Bd) -> String {
    match b {
        Bd::Incl(v) => format!("i{v}"),
        Bd::Excl(v) => format!("e{v}"),
        Bd::Unb => "u".into(),
    }
}

fn parse_bd(s: &str) -> Option<Bd> {
    if s == "u" {
        return Some(Bd::Unb);
    }
    let v = querykit::parse_lit(&s[1..])?;
    match &s[..1] {
        "i" => Some(Bd::Incl(v)),
        "e" => Some(Bd::Excl(v)),
        _ => None,
    }
}

fn show_ie(e: &IE) -> String {
    match e {
        IE::Q(c, Sq::Eq(v)) => format!("q c{c} eq {v}"),
        IE::Q(c, Sq::Range(lo, hi)) => format!("q c{c} rg {} {}", show_bd(lo), show_bd(hi)),
        IE::Q(c, Sq::In(vs)) => format!(
            "q c{c} in {}",
            if vs.is_empty() { "-".to_string() } else { vs.iter().map(|v| v.to_string()).collect::<Vec<_>>().join(",") }
        ),
        IE::Q(c, Sq::Null) => format!("q c{c} null"),
        IE::Not(a) => format!("not {}", show_ie(a)),
        IE::And(a, b) => format!("and {} {}", show_ie(a), show_ie(b)),
        IE::Or(a, b) => format!("or {} {}", show_ie(a), show_ie(b)),
    }
}

fn parse_ie(t: &[&str]) -> Option<(IE, usize)> {
    match *t.first()? {
        "q" => {
            let c = querykit::parse_col(t.get(1)?)?;
            match *t.get(2)? {
                "eq" => Some((IE::Q(c, Sq::Eq(querykit::parse_lit(t.get(3)?)?)), 4)),
                "rg" => {
                    if t.get(3)?.is_empty() || t.get(4)?.is_empty() {
                        return None;
                    }
                    Some((IE::Q(c, Sq::Range(parse_bd(t.get(3)?)?, parse_bd(t.get(4)?)?)), 5))
                }
                "in" => {
                    let s = *t.get(3)?;
                    let vs = if s == "-" { vec![] } else { s.split(',').map(querykit::parse_lit).collect::<Option<Vec<_>>>()? };
                    Some((IE::Q(c, Sq::In(vs)), 4))
                }
                "null" => Some((IE::Q(c, Sq::Null), 3)),
                _ => None,
            }
        }
        "not" => {
            let (a, n) = parse_ie(&t[1..])?;
            Some((IE::Not(Box::new(a)), n + 1))
        }
        k @ ("and" | "or") => {
            let (a, n) = parse_ie(&t[1..])?;
            let (b, m) = parse_ie(&t[1 + n..])?;
            Some((if k == "and" { IE::And(Box::new(a), Box::new(b)) } else { IE::Or(Box::new(a), Box::new(b)) }, 1 + n + m))
        }
        _ => None,
    }
}

fn cols_under_not(e: &IE, under: bool, out: &mut BTreeSet<usize>) {
    match e {
        IE::Q(c, _) => {
            if under {
                out.insert(*c);
            }
        }
        IE::Not(a) => cols_under_not(a, true, out),
        IE::And(a, b) | IE::Or(a, b) => {
            cols_under_not(a, under, out);
            cols_under_not(b, under, out);
        }
    }
}

fn i64_of(v: &ScalarValue) -> Option<i64> {
    match v {
        ScalarValue::Int64(Some(x)) => Some(*x),
        _ => None,
    }
}

fn bd_of(b: &Bound<ScalarValue>) -> Option<Bd> {
    Some(match b {
        Bound::Included(v) => Bd::Incl(i64_of(v)?),
        Bound::Excluded(v) => Bd::Excl(i64_of(v)?),
        Bound::Unbounded => Bd::Unb,
    })
}

fn ie_of_real(e: &ScalarIndexExpr) -> Option<IE> {
    Some(match e {
        ScalarIndexExpr::Not(a) => IE::Not(Box::new(ie_of_real(a)?)),
        ScalarIndexExpr::And(a, b) => IE::And(Box::new(ie_of_real(a)?), Box::new(ie_of_real(b)?)),
        ScalarIndexExpr::Or(a, b) => IE::Or(Box::new(ie_of_real(a)?), Box::new(ie_of_real(b)?)),
        ScalarIndexExpr::Query(s) => {
            let c = querykit::parse_col(&s.column)?;
            if s.index_name != format!("i{c}") || s.needs_recheck {
                return None;
            }
            let q = s.query.as_any().downcast_ref::<SargableQuery>()?;
            let sq = match q {
                SargableQuery::Equals(v) => Sq::Eq(i64_of(v)?),
                SargableQuery::Range(lo, hi) => Sq::Range(bd_of(lo)?, bd_of(hi)?),
                SargableQuery::IsIn(vs) => Sq::In(vs.iter().map(i64_of).collect::<Option<Vec<_>>>()?),
                SargableQuery::IsNull() => Sq::Null,
                _ => return None,
            };
            IE::Q(c, sq)
        }
    })
}

fn real_bd(b: &Bd) -> Bound<ScalarValue> {
    match b {
        Bd::Incl(v) => Bound::Included(ScalarValue::Int64(Some(*v))),
        Bd::Excl(v) => Bound::Excluded(ScalarValue::Int64(Some(*v))),
        Bd::Unb => Bound::Unbounded,
    }
}

fn real_of_ie(e: &IE) -> ScalarIndexExpr {
    match e {
        IE::Not(a) => ScalarIndexExpr::Not(Box::new(real_of_ie(a))),
        IE::And(a, b) => ScalarIndexExpr::And(Box::new(real_of_ie(a)), Box::new(real_of_ie(b))),
        IE::Or(a, b) => ScalarIndexExpr::Or(Box::new(real_of_ie(a)), Box::new(real_of_ie(b))),
        IE::Q(c, sq) => {
            let q = match sq {
                Sq::Eq(v) => SargableQuery::Equals(ScalarValue::Int64(Some(*v))),
                Sq::Range(lo, hi) => SargableQuery::Range(real_bd(lo), real_bd(hi)),
                Sq::In(vs) => SargableQuery::IsIn(vs.iter().map(|v| ScalarValue::Int64(Some(*v))).collect()),
                Sq::Null => SargableQuery::IsNull(),
            };
            ScalarIndexExpr::Query(ScalarIndexSearch {
                column: format!("c{c}"),
                index_name: format!("i{c}"),
                query: Arc::new(q),
                needs_recheck: false,
            })
        }
    }
}

// ------------------------------------------------------------------------------------------------
// querykit expression <-> DataFusion expression
// ------------------------------------------------------------------------------------------------

fn df_col(c: usize) -> DfExpr {
    DfExpr::Column(Column::from_name(format!("c{c}")))
}

fn df_lit(v: Option<i64>) -> DfExpr {
    DfExpr::Literal(ScalarValue::Int64(v), None)
}

fn df_op(op: Cmp) -> Operator {
    match op {
        Cmp::Eq => Operator::Eq,
        Cmp::Ne => Operator::NotEq,
        Cmp::Lt => Operator::Lt,
        Cmp::Le => Operator::LtEq,
        Cmp::Gt => Operator::Gt,
        Cmp::Ge => Operator::GtEq,
    }
}

fn to_df(e: &Expr) -> DfExpr {
    match e {
        Expr::True => DfExpr::Literal(ScalarValue::Boolean(Some(true)), None),
        Expr::False => DfExpr::Literal(ScalarValue::Boolean(Some(false)), None),
        Expr::Cmp(op, c, rhs) => DfExpr::BinaryExpr(BinaryExpr::new(
            Box::new(df_col(*c)),
            df_op(*op),
            Box::new(match rhs {
                Operand::Col(d) => df_col(*d),
                Operand::Lit(v) => df_lit(Some(*v)),
            }),
        )),
        Expr::IsNull(c) => DfExpr::IsNull(Box::new(df_col(*c))),
        Expr::NotNull(c) => DfExpr::IsNotNull(Box::new(df_col(*c))),
        Expr::In(c, vs) => DfExpr::InList(InList::new(Box::new(df_col(*c)), vs.iter().map(|v| df_lit(*v)).collect(), false)),
        Expr::Between(c, lo, hi) => {
            DfExpr::Between(Between::new(Box::new(df_col(*c)), false, Box::new(df_lit(Some(*lo))), Box::new(df_lit(Some(*hi)))))
        }
        Expr::Not(a) => DfExpr::Not(Box::new(to_df(a))),
        Expr::And(a, b) => DfExpr::BinaryExpr(BinaryExpr::new(Box::new(to_df(a)), Operator::And, Box::new(to_df(b)))),
        Expr::Or(a, b) => DfExpr::BinaryExpr(BinaryExpr::new(Box::new(to_df(a)), Operator::Or, Box::new(to_df(b)))),
    }
}

fn col_of_df(e: &DfExpr) -> Option<usize> {
    match e {
        DfExpr::Column(c) => querykit::parse_col(&c.name).filter(|i| *i < K),
        _ => None,
    }
}

fn lit_of_df(e: &DfExpr) -> Option<Option<i64>> {
    match e {
        DfExpr::Literal(ScalarValue::Int64(v), _) => Some(*v),
        DfExpr::Literal(ScalarValue::Null, _) => Some(None),
        _ => None,
    }
}

/// back into the querykit grammar; `None` = a shape outside it
fn of_df(e: &DfExpr) -> Option<Expr> {
    Some(match e {
        DfExpr::Literal(ScalarValue::Boolean(Some(b)), _) => {
            if *b {
                Expr::True
            } else {
                Expr::False
            }
        }
        DfExpr::BinaryExpr(BinaryExpr { left, op, right }) => match op {
            Operator::And => Expr::And(Box::new(of_df(left)?), Box::new(of_df(right)?)),
            Operator::Or => Expr::Or(Box::new(of_df(left)?), Box::new(of_df(right)?)),
            _ => {
                let c = match op {
                    Operator::Eq => Cmp::Eq,
                    Operator::NotEq => Cmp::Ne,
                    Operator::Lt => Cmp::Lt,
                    Operator::LtEq => Cmp::Le,
                    Operator::Gt => Cmp::Gt,
                    Operator::GtEq => Cmp::Ge,
                    _ => return None,
                };
                let l = col_of_df(left)?;
                if let Some(d) = col_of_df(right) {
                    Expr::Cmp(c, l, Operand::Col(d))
                } else {
                    let v = lit_of_df(right)??;
                    if v == i64::MIN {
                        return None;
                    }
                    Expr::Cmp(c, l, Operand::Lit(v))
                }
            }
        },
        DfExpr::Not(a) => Expr::Not(Box::new(of_df(a)?)),
        DfExpr::IsNull(a) => Expr::IsNull(col_of_df(a)?),
        DfExpr::IsNotNull(a) => Expr::NotNull(col_of_df(a)?),
        DfExpr::InList(InList { expr, list, negated }) => {
            let c = col_of_df(expr)?;
            let vs = list.iter().map(lit_of_df).collect::<Option<Vec<_>>>()?;
            if vs.is_empty() || vs.iter().any(|v| *v == Some(i64::MIN)) {
                return None;
            }
            let x = Expr::In(c, vs);
            if *negated {
                Expr::Not(Box::new(x))
            } else {
                x
            }
        }
        DfExpr::Between(Between { expr, negated, low, high }) => {
            let c = col_of_df(expr)?;
            let x = Expr::Between(c, lit_of_df(low)??, lit_of_df(high)??);
            if *negated {
                Expr::Not(Box::new(x))
            } else {
                x
            }
        }
        _ => return None,
    })
}

fn show_opt_expr(e: &Option<DfExpr>) -> String {
    match e {
        None => "-".into(),
        Some(e) => match of_df(e) {
            Some(x) => querykit::show(&x),
            None => "?".into(),
        },
    }
}

fn show_opt_ie(e: &Option<ScalarIndexExpr>) -> String {
    match e {
        None => "-".into(),
        Some(e) => match ie_of_real(e) {
            Some(x) => show_ie(&x),
            None => "?".into(),
        },
    }
}

struct MockInfo {
    cols: BTreeMap<String, (arrow_schema::DataType, SargableQueryParser)>,
}

impl IndexInformationProvider for MockInfo {
    fn get_index(&self, col: &str) -> Option<(&arrow_schema::DataType, &dyn ScalarQueryParser)> {
        self.cols.get(col).map(|(t, p)| (t, p as &dyn ScalarQueryParser))
    }
}

// ------------------------------------------------------------------------------------------------
// ops
// ------------------------------------------------------------------------------------------------

#[derive(Clone, Debug)]
enum Op {
    Create(Vec<Row>),
    Append(Vec<Row>),
    Delete(Expr, Option<Expr>),
    Update(usize, Cell, Expr, Option<Expr>),
    Compact,
    Index(usize, bool, Option<u64>), // true = btree; zone size
    Optimize,
    Plan(Vec<u64>, Expr),
    Scan(Expr, Option<Expr>),
    Ieval(IE),
}

/// `<expr> => <expr|?>`
fn parse_pred_opt(t: &[&str]) -> Option<(Expr, Option<Expr>)> {
    let at = t.iter().position(|x| *x == "=>")?;
    let e = querykit::parse_all(&t[..at])?;
    let o = if t[at + 1..] == ["?"] { None } else { Some(querykit::parse_all(&t[at + 1..])?) };
    let ok = |e: &Expr| querykit::max_col(e).map(|m| m < K).unwrap_or(true);
    (ok(&e) && o.as_ref().map(ok).unwrap_or(true)).then_some((e, o))
}

fn parse_op(line: &str) -> Option<Op> {
    let t: Vec<&str> = line.split(' ').collect();
    if t.iter().any(|x| x.is_empty()) {
        return None;
    }
    let rows_ok = |rs: &Vec<Row>| rs.iter().all(|r| r.len() == K);
    match t[0] {
        "create" | "append" if t.len() == 2 => {
            let rs = parse_rows(t[1])?;
            if !rows_ok(&rs) || rs.is_empty() {
                return None;
            }
            Some(if t[0] == "create" { Op::Create(rs) } else { Op::Append(rs) })
        }
        "delete" => {
            let (e, o) = parse_pred_opt(&t[1..])?;
            Some(Op::Delete(e, o))
        }
        "update" if t.len() > 3 => {
            let c = querykit::parse_col(t[1]).filter(|c| *c < K)?;
            let v = parse_cell(t[2])?;
            let (e, o) = parse_pred_opt(&t[3..])?;
            Some(Op::Update(c, v, e, o))
        }
        "compact" if t.len() == 1 => Some(Op::Compact),
        "optimize" if t.len() == 1 => Some(Op::Optimize),
        "index" if t.len() == 3 || t.len() == 4 => {
            let c = querykit::parse_col(t[1]).filter(|c| *c < K)?;
            let z = if t.len() == 4 {
                let z = t[3].strip_prefix('z')?;
                if t[2] != "btree" || z.is_empty() || z.len() > 4 || !z.bytes().all(|b| b.is_ascii_digit()) {
                    return None;
                }
                Some(z.parse::<u64>().ok().filter(|z| *z >= 1)?)
            } else {
                None
            };
            match t[2] {
                "btree" => Some(Op::Index(c, true, z)),
                "bitmap" => Some(Op::Index(c, false, z)),
                _ => None,
            }
        }
        "plan" if t.len() > 2 => {
            let cols = parse_nat_list(t[1])?;
            let e = querykit::parse_all(&t[2..])?;
            (querykit::max_col(&e).map(|m| m < K).unwrap_or(true) && cols.iter().all(|c| (*c as usize) < K)).then_some(Op::Plan(cols, e))
        }
        "scan" => {
            let (e, o) = parse_pred_opt(&t[1..])?;
            Some(Op::Scan(e, o))
        }
        "ieval" => {
            let (e, n) = parse_ie(&t[1..])?;
            (n + 1 == t.len()).then_some(Op::Ieval(e))
        }
        _ => None,
    }
}

struct C19 {
    kit: Kit,
    planner: Planner,
}

struct State {
    ds: Dataset,
    kinds: BTreeMap<usize, bool>,
}

fn show_addrs(a: &BTreeSet<u64>) -> String {
    show_nat_list(a.iter().copied())
}

impl C19 {
    fn spec() -> SchemaSpec {
        SchemaSpec::ints(K)
    }

    fn new() -> Self {
        Self { kit: Kit::new(), planner: Planner::new(Self::spec().arrow_schema()) }
    }

    /// live rows with their addresses, scan order: (addr, cells)
    fn table(&self, ds: &Dataset) -> KitResult<Vec<(u64, Row)>> {
        let rows = self.kit.scan(ds, &Self::spec(), &ScanOpts { ordered: true, with_row_addr: true, ..Default::default() })?;
        Ok(rows
            .into_iter()
            .map(|mut r| {
                let a = r.pop().flatten().unwrap_or(-1) as u64;
                (a, r)
            })
            .collect())
    }

    fn dump(&self, st: &State) -> KitResult<String> {
        let rows = self.table(&st.ds)?;
        let rs: Vec<Row> = rows
            .iter()
            .map(|(a, r)| {
                let mut x = vec![Some(*a as i64)];
                x.extend(r.iter().copied());
                x
            })
            .collect();
        let ix = self.kit.block_on(st.ds.load_indices())?;
        let mut parts = vec![];
        for (c, bt) in &st.kinds {
            let name = format!("i{c}");
            match ix.iter().find(|i| i.name == name) {
                None => parts.push(format!("{c}:missing")),
                Some(i) => parts.push(format!(
                    "{c}:{}:{}",
                    if *bt { "btree" } else { "bitmap" },
                    i.fragment_bitmap.as_ref().map(|b| show_nat_list(b.iter().map(|x| x as u64))).unwrap_or_else(|| "nobitmap".into())
                )),
            }
        }
        Ok(format!("ok rows={} idx={}", show_rows(&rs), if parts.is_empty() { "-".into() } else { parts.join("|") }))
    }

    fn scan_addrs(&self, ds: &Dataset, sql: &str, use_index: bool) -> KitResult<BTreeSet<u64>> {
        let mut sc = ds.scan();
        sc.use_scalar_index(use_index);
        sc.with_row_address();
        sc.project(&["c0"])?;
        sc.filter(sql)?;
        let batch = self.kit.lance_call("scan", sc.try_into_batch())?;
        let rows = SchemaSpec::ints(1).decode(&batch, &["_rowaddr"]).map_err(|e| KitError::other(format!("decode: {}", e.0)))?;
        Ok(rows.into_iter().map(|r| r[1].unwrap_or(-1) as u64).collect())
    }

    /// the filter as the planner sees it after simplification
    fn optimized(&self, e: &Expr) -> Option<Expr> {
        let sql = querykit::to_sql(e, &querykit::default_namer);
        let x = self.planner.parse_filter(&sql).ok()?;
        let x = self.planner.optimize_expr(x).ok()?;
        of_df(&x)
    }

    fn mutate(&self, st: &mut State, op: &Op) -> KitResult<()> {
        let kit = &self.kit;
        match op {
            Op::Append(rows) => {
                st.ds = kit.append(&st.ds, &Self::spec(), &[rows.clone()], &Knobs::default())?;
            }
            Op::Delete(e, _) => {
                let mut d = st.ds.clone();
                kit.lance_call("delete", d.delete(&querykit::to_sql(e, &querykit::default_namer)))?;
                st.ds = d;
            }
            Op::Update(c, v, e, _) => {
                let ds = Arc::new(st.ds.clone());
                let sql = querykit::to_sql(e, &querykit::default_namer);
                let val = v.map(|x| x.to_string()).unwrap_or_else(|| "NULL".into());
                let r = kit.lance_call("update", async {
                    UpdateBuilder::new(ds).update_where(&sql)?.set(format!("c{c}"), &val)?.conflict_retries(0).build()?.execute().await
                })?;
                st.ds = r.new_dataset.as_ref().clone();
            }
            Op::Compact => {
                let mut d = st.ds.clone();
                let opts = CompactionOptions {
                    target_rows_per_fragment: 1 << 20,
                    materialize_deletions: true,
                    materialize_deletions_threshold: 0.0,
                    num_threads: Some(1),
                    ..Default::default()
                };
                kit.lance_call("compact", compact_files(&mut d, opts, None))?;
                st.ds = d;
            }
            Op::Index(c, bt, z) => {
                let mut d = st.ds.clone();
                let name = format!("c{c}");
                let ty = if *bt { IndexType::BTree } else { IndexType::Bitmap };
                let params = match z {
                    Some(z) => ScalarIndexParams::for_builtin(BuiltinIndexType::BTree).with_params(&serde_json::json!({"zone_size": z})),
                    None => ScalarIndexParams::default(),
                };
                kit.lance_call("create_index", async {
                    d.create_index(&[name.as_str()], ty, Some(format!("i{c}")), &params, true).await
                })?;
                st.kinds.insert(*c, *bt);
                st.ds = d;
            }
            Op::Optimize => {
                let mut d = st.ds.clone();
                kit.lance_call("optimize", d.optimize_indices(&OptimizeOptions::default()))?;
                st.ds = d;
            }
            _ => unreachable!(),
        }
        Ok(())
    }

    fn plan_line(&self, cols: &[u64], e: &Expr) -> String {
        let info = MockInfo {
            cols: cols
                .iter()
                .map(|c| (format!("c{c}"), (arrow_schema::DataType::Int64, SargableQueryParser::new(format!("i{c}"), false))))
                .collect(),
        };
        match apply_scalar_indices(to_df(e), &info) {
            Ok(x) => format!("ok sq=[{}] refine=[{}]", show_opt_ie(&x.scalar_query), show_opt_expr(&x.refine_expr)),
            Err(e) => format!("err {}", canon_err(&e).as_str()),
        }
    }
}

impl Prop for C19 {
    fn id(&self) -> &'static str {
        "C19"
    }

    fn budget(&self, tier: Tier) -> usize {
        match tier {
            Tier::Quick => 450,
            Tier::Thorough => 6000,
            Tier::Search => 1500,
        }
    }

    fn rule(&self) -> String {
        "seeded histories on real datasets (3 nullable Int64 columns, values 0..6, ~25% NULL): create (4-12 rows, 1 in 4 cases 12-30 rows), then 5-11 steps drawn from \
         index btree (2 in 5 with zone_size 1-4, i.e. many pages) / bitmap 22%, append 12%, delete 9%, update 8%, compact 8%, optimize 6%, and queries (scan 60% / ieval 25% / plan 15% of \
         the query lines, 1-3 after every step). Predicates: querykit trees of depth <= 3 over = != < <= > >= BETWEEN IN IS [NOT] NULL NOT AND OR \
         (literals from the data +-1, NULL inside IN lists, column-column comparisons), plus same-column comparison pairs in all 36 operator \
         combinations (maybe_range) and inverted / empty ranges; ieval trees are hand-built ScalarIndexExpr shapes (NOT NOT, NOT of AND/OR). \
         1 case in 6 is a partial compaction (index A, append, index B on both fragments, a delete / update that only hits the first fragment, compact, queries on every column). 12% of the other cases carry a malformed line. A case is non-trivial if an indexed scan used an index query."
            .into()
    }

    fn gen_case(&mut self, rng: &mut Rng, _tier: Tier, _idx: usize) -> Vec<String> {
        gen::case(self, rng)
    }

    fn exec_case(&mut self, lines: &[String]) -> CaseResult {
        self.kit.reset_session();
        let mut res = CaseResult::default();
        let mut st: Option<State> = None;
        for (ln, line) in lines.iter().enumerate() {
            let op = match parse_op(line) {
                Some(op) => op,
                None => {
                    res.outputs.push("err parse".into());
                    res.tags.push("err:parse".into());
                    continue;
                }
            };
            let out = match (&op, st.as_mut()) {
                (Op::Plan(cols, e), _) => {
                    res.tags.push("op:plan".into());
                    self.plan_line(cols, e)
                }
                (Op::Create(rows), None) => {
                    res.tags.push("op:create".into());
                    let uri = self.kit.fresh_uri();
                    match self.kit.create(&uri, &Self::spec(), &[rows.clone()], &Knobs::default()) {
                        Ok(ds) => {
                            st = Some(State { ds, kinds: BTreeMap::new() });
                            self.dump(st.as_ref().unwrap()).unwrap_or_else(|e| format!("err {}", e.kind.as_str()))
                        }
                        Err(e) => format!("err {}", e.kind.as_str()),
                    }
                }
                (Op::Create(_), Some(_)) => "err already_exists".into(),
                (_, None) => "err not_found".into(),
                (Op::Scan(e, given), Some(s)) => {
                    res.tags.push("op:scan".into());
                    self.scan_line(s, e, given, ln, &mut res)
                }
                (Op::Ieval(ie), Some(s)) => {
                    res.tags.push("op:ieval".into());
                    self.ieval_line(s, ie, ln, &mut res)
                }
                (op, Some(s)) => {
                    res.tags.push(
                        match op {
                            Op::Append(_) => "op:append",
                            Op::Delete(..) => "op:delete",
                            Op::Update(..) => "op:update",
                            Op::Compact => "op:compact",
                            Op::Index(_, true, None) => "op:index_btree",
                            Op::Index(_, true, Some(_)) => "op:index_btree_paged",
                            Op::Index(_, false, _) => "op:index_bitmap",
                            _ => "op:optimize",
                        }
                        .into(),
                    );
                    let before = match op {
                        Op::Delete(e, _) | Op::Update(_, _, e, _) => self.write_plan(s, e),
                        _ => None,
                    };
                    match self.mutate(s, op) {
                        Ok(()) => {
                            if let (Some(b), Op::Delete(e, _) | Op::Update(_, _, e, _)) = (before, op) {
                                self.write_oracle(s, e, b, ln, &mut res);
                            }
                            self.dump(s).unwrap_or_else(|e| format!("err {}", e.kind.as_str()))
                        }
                        Err(e) => {
                            res.tags.push(format!("err:{}", e.kind.as_str()));
                            format!("err {}", e.kind.as_str())
                        }
                    }
                }
            };
            res.outputs.push(out);
        }
        res
    }
}

impl C19 {
    fn scan_line(&self, s: &State, e: &Expr, _given: &Option<Expr>, ln: usize, res: &mut CaseResult) -> String {
        let sql = querykit::to_sql(e, &querykit::default_namer);
        // the real plan
        let plan = (|| -> KitResult<_> {
            let x = self.planner.parse_filter(&sql)?;
            let info = self.kit.lance_call("scalar_index_info", s.ds.scalar_index_info())?;
            Ok(self.planner.create_filter_plan(x, &info, true)?)
        })();
        let plan = match plan {
            Ok(p) => p,
            Err(e) => return format!("err {}", e.kind.as_str()),
        };
        let opt = plan.full_expr.as_ref().and_then(of_df);
        let plain = match self.scan_addrs(&s.ds, &sql, false) {
            Ok(a) => a,
            Err(e) => return format!("err {}", e.kind.as_str()),
        };
        let idx = std::panic::catch_unwind(std::panic::AssertUnwindSafe(|| self.scan_addrs(&s.ds, &sql, true)));
        let real_ie = plan.index_query.as_ref().and_then(ie_of_real);
        if plan.index_query.is_some() {
            res.nontrivial = true;
            res.tags.push("scan:indexed".into());
            if plan.refine_expr.is_some() {
                res.tags.push("scan:indexed+refine".into());
            }
        } else {
            res.tags.push("scan:refine_only".into());
        }
        let head = format!(
            "opt={} sq=[{}] refine=[{}]",
            opt.as_ref().map(querykit::show).unwrap_or_else(|| "?".into()),
            show_opt_ie(&plan.index_query),
            show_opt_expr(&plan.refine_expr)
        );
        let idx = match idx {
            Err(_) => {
                res.tags.push("scan:panic".into());
                res.failures.push(OracleFailure {
                    what: format!("indexed scan panicked: filter `{sql}`, index query {}", show_opt_ie(&plan.index_query)),
                    key: Some("panic".into()),
                    line: ln,
                });
                return format!("panic {head} plain={}", show_addrs(&plain));
            }
            Ok(Err(e)) => {
                res.failures.push(OracleFailure {
                    what: format!("indexed scan failed ({}) where the plain scan succeeds: filter `{sql}`", e.msg),
                    key: None,
                    line: ln,
                });
                return format!("err {} {head} plain={}", e.kind.as_str(), show_addrs(&plain));
            }
            Ok(Ok(a)) => a,
        };
        if idx != plain {
            // classify
            let table: BTreeMap<u64, Row> = self.table(&s.ds).unwrap_or_default().into_iter().collect();
            let missing: Vec<u64> = plain.difference(&idx).copied().collect();
            let extra: Vec<u64> = idx.difference(&plain).copied().collect();
            let mut under = BTreeSet::new();
            if let Some(ie) = &real_ie {
                cols_under_not(ie, false, &mut under);
            }
            let known = missing.is_empty()
                && real_ie.is_some()
                && extra.iter().all(|a| match table.get(a) {
                    None => false,
                    Some(r) => querykit::eval3(e, r).is_none() && under.iter().any(|c| r[*c].is_none()),
                });
            res.tags.push(if known { "diff:not_over_null".into() } else { "diff:other".into() });
            res.failures.push(OracleFailure {
                what: format!(
                    "filter `{sql}`: indexed scan returns addresses [{}], plain scan [{}] (missing [{}], extra [{}]); index query {}",
                    show_addrs(&idx),
                    show_addrs(&plain),
                    show_nat_list(missing.iter().copied()),
                    show_nat_list(extra.iter().copied()),
                    show_opt_ie(&plan.index_query)
                ),
                key: if known { Some("not_over_null".into()) } else { None },
                line: ln,
            });
        }
        if opt.is_none() {
            // the simplified filter left the grammar: the model cannot plan it; only the plain result is compared
            res.tags.push("scan:opaque".into());
            return format!("ok opt=? plain={}", show_addrs(&plain));
        }
        format!("ok {head} idx={} plain={}", show_addrs(&idx), show_addrs(&plain))
    }

    /// before a delete / update: the table and the columns under a NOT of the index query the planner builds
    fn write_plan(&self, s: &State, e: &Expr) -> Option<(Vec<(u64, Row)>, Option<BTreeSet<usize>>)> {
        let table = self.table(&s.ds).ok()?;
        let sql = querykit::to_sql(e, &querykit::default_namer);
        let plan = (|| -> KitResult<_> {
            let x = self.planner.parse_filter(&sql)?;
            let info = self.kit.lance_call("scalar_index_info", s.ds.scalar_index_info())?;
            Ok(self.planner.create_filter_plan(x, &info, true)?)
        })()
        .ok()?;
        let under = plan.index_query.as_ref().and_then(ie_of_real).map(|ie| {
            let mut u = BTreeSet::new();
            cols_under_not(&ie, false, &mut u);
            u
        });
        Some((table, under))
    }

    /// after a delete / update: the rows that left their addresses are the rows on which the predicate is TRUE
    fn write_oracle(&self, s: &State, e: &Expr, before: (Vec<(u64, Row)>, Option<BTreeSet<usize>>), ln: usize, res: &mut CaseResult) {
        let (table, under) = before;
        let after: BTreeSet<u64> = match self.table(&s.ds) {
            Ok(t) => t.into_iter().map(|(a, _)| a).collect(),
            Err(_) => return,
        };
        let gone: BTreeSet<u64> = table.iter().map(|(a, _)| *a).filter(|a| !after.contains(a)).collect();
        let want: BTreeSet<u64> = table.iter().filter(|(_, r)| querykit::eval3(e, r) == Some(true)).map(|(a, _)| *a).collect();
        if gone == want {
            return;
        }
        let rows: BTreeMap<u64, Row> = table.into_iter().collect();
        let missing: Vec<u64> = want.difference(&gone).copied().collect();
        let extra: Vec<u64> = gone.difference(&want).copied().collect();
        let known = missing.is_empty()
            && under.is_some()
            && extra.iter().all(|a| {
                let r = &rows[a];
                querykit::eval3(e, r).is_none() && under.as_ref().unwrap().iter().any(|c| r[*c].is_none())
            });
        res.tags.push(if known { "write:not_over_null".into() } else { "write:other".into() });
        res.failures.push(OracleFailure {
            what: format!(
                "delete / update WHERE `{}` touched the rows at [{}], the predicate is TRUE on [{}] (missing [{}], extra [{}])",
                querykit::to_sql(e, &querykit::default_namer),
                show_addrs(&gone),
                show_addrs(&want),
                show_nat_list(missing.iter().copied()),
                show_nat_list(extra.iter().copied())
            ),
            key: if known { Some("not_over_null".into()) } else { None },
            line: ln,
        });
    }

    fn ieval_line(&self, s: &State, ie: &IE, ln: usize, res: &mut CaseResult) -> String {
        let real = real_of_ie(ie);
        let r = std::panic::catch_unwind(std::panic::AssertUnwindSafe(|| {
            self.kit.lance_call("evaluate", async { real.evaluate(&s.ds, &NoOpMetricsCollector).await })
        }));
        let r = match r {
            Err(_) => {
                res.tags.push("ieval:panic".into());
                res.failures.push(OracleFailure {
                    what: format!("ScalarIndexExpr::evaluate panicked on {}", show_ie(ie)),
                    key: Some("panic".into()),
                    line: ln,
                });
                return "panic".into();
            }
            Ok(Err(e)) => {
                res.tags.push("ieval:err".into());
                let _ = e;
                return "err".into();
            }
            Ok(Ok(r)) => r,
        };
        res.nontrivial = true;
        let table = match self.table(&s.ds) {
            Ok(t) => t,
            Err(e) => return format!("err {}", e.kind.as_str()),
        };
        let (kind, mask) = match &r {
            IndexExprResult::Exact(m) => ("exact", m),
            IndexExprResult::AtMost(m) => ("atmost", m),
            IndexExprResult::AtLeast(m) => ("atleast", m),
        };
        let sel: BTreeSet<u64> = table.iter().filter(|(a, _)| mask.selected(*a)).map(|(a, _)| *a).collect();
        format!("ok {kind} sel={}", show_addrs(&sel))
    }
}

// ------------------------------------------------------------------------------------------------
// generator
// ------------------------------------------------------------------------------------------------

mod gen {
    use super::*;

    fn cell(rng: &mut Rng) -> Cell {
        if rng.chance(1, 4) {
            None
        } else {
            Some(rng.below(7) as i64)
        }
    }

    fn rows(rng: &mut Rng, lo: usize, hi: usize) -> Vec<Row> {
        let n = rng.range(lo as u64, hi as u64) as usize;
        (0..n).map(|_| (0..K).map(|_| cell(rng)).collect()).collect()
    }

    fn lit(rng: &mut Rng) -> i64 {
        rng.below(9) as i64 - 1
    }

    /// `c op1 a AND c op2 b` (sometimes on different columns / with the sides inverted)
    fn pair(rng: &mut Rng) -> Expr {
        let c = rng.usize(K);
        let d = if rng.chance(1, 8) { rng.usize(K) } else { c };
        let a = lit(rng);
        let b = lit(rng);
        Expr::And(
            Box::new(Expr::Cmp(*rng.pick(&Cmp::ALL), c, Operand::Lit(a))),
            Box::new(Expr::Cmp(*rng.pick(&Cmp::ALL), d, Operand::Lit(b))),
        )
    }

    pub fn pred(rng: &mut Rng, shadow: &[Row]) -> Expr {
        match rng.below(10) {
            0 | 1 => pair(rng),
            2 => {
                let p = pair(rng);
                let q = querykit::gen_pred(rng, shadow, K, &querykit::GenOpts { max_depth: 1, lo_pct: 0, hi_pct: 100, ..Default::default() });
                match rng.below(3) {
                    0 => Expr::Or(Box::new(p), Box::new(q)),
                    1 => Expr::Not(Box::new(p)),
                    _ => Expr::And(Box::new(q), Box::new(p)),
                }
            }
            3 | 4 => querykit::gen_pred(rng, shadow, K, &querykit::GenOpts { lo_pct: 0, hi_pct: 100, ..Default::default() }),
            _ => querykit::gen_pred(rng, shadow, K, &querykit::GenOpts::default()),
        }
    }

    fn sq(rng: &mut Rng) -> Sq {
        let bd = |rng: &mut Rng| match rng.below(3) {
            0 => Bd::Incl(lit(rng)),
            1 => Bd::Excl(lit(rng)),
            _ => Bd::Unb,
        };
        match rng.below(8) {
            0 | 1 => Sq::Eq(lit(rng)),
            2..=4 => loop {
                let (lo, hi) = (bd(rng), bd(rng));
                if lo != Bd::Unb || hi != Bd::Unb {
                    break Sq::Range(lo, hi);
                }
            },
            5 | 6 => Sq::In((0..rng.range(1, 3)).map(|_| lit(rng)).collect()),
            _ => Sq::Null,
        }
    }

    fn ie(rng: &mut Rng, cols: &[usize], depth: usize) -> IE {
        if depth == 0 || rng.chance(1, 3) {
            return IE::Q(*rng.pick(cols), sq(rng));
        }
        match rng.below(5) {
            0 | 1 => IE::Not(Box::new(ie(rng, cols, depth - 1))),
            2 | 3 => IE::And(Box::new(ie(rng, cols, depth - 1)), Box::new(ie(rng, cols, depth - 1))),
            _ => IE::Or(Box::new(ie(rng, cols, depth - 1)), Box::new(ie(rng, cols, depth - 1))),
        }
    }

    fn index_line(rng: &mut Rng, c: usize) -> String {
        match rng.below(5) {
            0 | 1 => format!("index c{c} btree z{}", rng.range(1, 4)),
            2 => format!("index c{c} btree"),
            _ => format!("index c{c} bitmap"),
        }
    }

    fn scan_line(p: &C19, e: &Expr) -> String {
        let o = p.optimized(e);
        format!("scan {} => {}", querykit::show(e), o.as_ref().map(querykit::show).unwrap_or_else(|| "?".into()))
    }

    /// a compaction that rewrites only part of the fragments an index covers: index A on the first fragment, an append,
    /// index B (and sometimes C) on both fragments, deletions / updates that only hit the first fragment (column c0 of the
    /// first batch holds 100.., which the append never uses), compact, then queries on every indexed column
    fn partial_compaction(p: &C19, rng: &mut Rng) -> Vec<String> {
        let mut lines = vec![];
        let mut first = rows(rng, 4, 10);
        for (i, r) in first.iter_mut().enumerate() {
            r[0] = Some(100 + i as i64);
        }
        let second = rows(rng, 3, 8);
        lines.push(format!("create {}", show_rows(&first)));
        let a = rng.usize(K);
        lines.push(index_line(rng, a));
        lines.push(format!("append {}", show_rows(&second)));
        let b = (a + 1 + rng.usize(K - 1)) % K;
        lines.push(index_line(rng, b));
        if rng.chance(1, 2) {
            lines.push(index_line(rng, (0..K).find(|c| *c != a && *c != b).unwrap()));
        }
        let victim = 100 + rng.usize(first.len()) as i64;
        let e = if rng.chance(1, 2) { Expr::Cmp(Cmp::Eq, 0, Operand::Lit(victim)) } else { Expr::Cmp(Cmp::Ge, 0, Operand::Lit(victim)) };
        let o = querykit::show(&p.optimized(&e).unwrap_or(e.clone()));
        if rng.chance(2, 3) {
            lines.push(format!("delete {} => {o}", querykit::show(&e)));
        } else {
            lines.push(format!("update c{} {} {} => {o}", 1 + rng.usize(K - 1), show_cell(&cell(rng)), querykit::show(&e)));
        }
        lines.push("compact".into());
        let mut shadow = first;
        shadow.extend(second);
        for c in 0..K {
            let v = lit(rng);
            lines.push(scan_line(p, &Expr::Cmp(*rng.pick(&[Cmp::Eq, Cmp::Le, Cmp::Gt]), c, Operand::Lit(v))));
            lines.push(scan_line(p, &Expr::IsNull(c)));
        }
        for _ in 0..3 {
            lines.push(scan_line(p, &pred(rng, &shadow)));
        }
        if rng.chance(1, 2) {
            lines.push("optimize".into());
            lines.push(scan_line(p, &pred(rng, &shadow)));
        }
        lines
    }

    pub fn case(p: &C19, rng: &mut Rng) -> Vec<String> {
        if rng.chance(1, 6) {
            return partial_compaction(p, rng);
        }
        let mut lines = vec![];
        let mut shadow = if rng.chance(1, 4) { rows(rng, 12, 30) } else { rows(rng, 4, 12) };
        lines.push(format!("create {}", show_rows(&shadow)));
        let mut indexed: Vec<usize> = vec![];
        let steps = rng.range(5, 11);
        for step in 0..steps {
            // a mutation
            let m = rng.below(100);
            if step == 0 || m < 22 {
                let c = rng.usize(K);
                lines.push(match rng.below(5) {
                    0 | 1 => format!("index c{c} btree z{}", rng.range(1, 4)),
                    2 => format!("index c{c} btree"),
                    _ => format!("index c{c} bitmap"),
                });
                if !indexed.contains(&c) {
                    indexed.push(c);
                }
            } else if m < 34 {
                let rs = rows(rng, 1, 6);
                lines.push(format!("append {}", show_rows(&rs)));
                shadow.extend(rs);
            } else if m < 43 {
                let e = querykit::gen_pred(rng, &shadow, K, &querykit::GenOpts { lo_pct: 5, hi_pct: 40, max_depth: 2, ..Default::default() });
                let o = p.optimized(&e);
                lines.push(format!("delete {} => {}", querykit::show(&e), o.as_ref().map(querykit::show).unwrap_or_else(|| "?".into())));
            } else if m < 51 {
                let e = querykit::gen_pred(rng, &shadow, K, &querykit::GenOpts { lo_pct: 5, hi_pct: 50, max_depth: 2, ..Default::default() });
                let o = p.optimized(&e);
                lines.push(format!(
                    "update c{} {} {} => {}",
                    rng.usize(K),
                    show_cell(&cell(rng)),
                    querykit::show(&e),
                    o.as_ref().map(querykit::show).unwrap_or_else(|| "?".into())
                ));
            } else if m < 59 {
                lines.push("compact".into());
            } else if m < 65 {
                lines.push("optimize".into());
            }
            // queries
            for _ in 0..rng.range(1, 3) {
                match rng.below(20) {
                    0..=11 => {
                        let e = pred(rng, &shadow);
                        let o = p.optimized(&e);
                        lines.push(format!("scan {} => {}", querykit::show(&e), o.as_ref().map(querykit::show).unwrap_or_else(|| "?".into())));
                    }
                    12..=16 if !indexed.is_empty() => {
                        let d = rng.usize(4);
                        lines.push(format!("ieval {}", show_ie(&ie(rng, &indexed, d))));
                    }
                    _ => {
                        let e = pred(rng, &shadow);
                        let n = rng.usize(K + 1);
                        let mut cols: Vec<u64> = (0..K as u64).filter(|_| rng.chance(n as u64, K as u64)).collect();
                        cols.sort();
                        lines.push(format!("plan {} {}", show_nat_list(cols), querykit::show(&e)));
                    }
                }
            }
        }
        if rng.chance(12, 100) {
            let at = 1 + rng.usize(lines.len());
            let bad = match rng.below(6) {
                0 => "scan eq c0 1".to_string(),
                1 => "index c9 btree".to_string(),
                2 => "ieval q c0 rg u".to_string(),
                3 => "append 1,2".to_string(),
                4 => "update c0 x T => T".to_string(),
                _ => "frobnicate".to_string(),
            };
            lines.insert(at, bad);
        }
        lines
    }
}

fn main() {
    run_main(C19::new())
}
