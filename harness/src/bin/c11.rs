//! C11: write / append / overwrite / read returns exactly the rows written.
//!
//! Interpreter of the C11 op lines (grammar: see the top of `../tablekit.rs`) against the REAL lance write and scan
//! paths (`Dataset::write` → `InsertBuilder` → `write_fragments_internal` → `do_write_fragments`; `Scanner`), a seeded
//! generator of histories, and the property oracle: after every step the ordered scan must equal the harness's own
//! concatenation of what it wrote since the last overwrite, the unordered scan must be the same multiset, `count_rows`
//! must be its length, no fragment may be empty, and the per-fragment row counts must add up.  The oracle never
//! looks at the Lean model; the model is compared by `./check` through the output lines
//! `ok v=<version> sv=<storage version> n=<count_rows> frags=<id:rows:dels,…> rows=<ordered scan>` / `err <kind>`.

use hcommon::*;
use lance::Dataset;

#[path = "../tablekit.rs"]
#[allow(dead_code)]
mod tablekit;
use tablekit::*;

struct C11 {
    kit: Kit,
}

#[derive(Clone, Debug)]
struct WriteOp {
    mode: Mode,
    knobs: Knobs,
    spec: SchemaSpec,
    batches: Vec<Vec<Row>>,
}

fn mode_str(m: Mode) -> &'static str {
    m.as_str()
}

fn show_op(op: &WriteOp) -> String {
    format!("{} {} {} {}", mode_str(op.mode), op.knobs.show(), op.spec.show(), show_batches(&op.batches))
}

fn parse_op(line: &str) -> Option<WriteOp> {
    let t: Vec<&str> = line.split(' ').filter(|s| !s.is_empty()).collect();
    if t.len() != 9 {
        return None;
    }
    let mode = Mode::parse(t[0])?;
    let knobs = Knobs::parse(&t[1..6])?;
    if !matches!(knobs.max_bytes_per_file, None | Some(0)) {
        return None; // only the default and 0 are modelled
    }
    let spec = SchemaSpec::parse(t[6].strip_prefix("k=")?, t[7].strip_prefix("x=")?)?;
    let batches = parse_batches(t[8])?;
    if !batches.iter().all(|b| spec.check_rows(b)) {
        return None;
    }
    Some(WriteOp { mode, knobs, spec, batches })
}

/// what the harness itself believes the table holds (oracle side; independent of the Lean model)
struct Expect {
    spec: SchemaSpec,
    /// the rows written (the property's table)
    rows: Vec<Row>,
    /// the same rows with the known lossy step of the legacy format applied at the time they were written
    /// (used only to classify a mismatch as the known finding `legacy_nulls_lost`)
    stored: Vec<Row>,
}

/// classify a difference between what was read and what was written
fn mismatch_key(got: &[Row], x: &Expect, default_key: &'static str) -> &'static str {
    if got == x.stored.as_slice() {
        "legacy_nulls_lost"
    } else {
        default_key
    }
}

/// columns of `new` mapped into the table schema `tbl`: position of every table column in a written row, or None (NULL
/// filled) — `None` overall when `new` has a column the table does not have.
fn column_map(tbl: &SchemaSpec, new: &SchemaSpec) -> Option<Vec<Option<usize>>> {
    if new.ints > tbl.ints || !new.extras.iter().all(|e| tbl.extras.contains(e)) {
        return None;
    }
    let mut m = vec![];
    for i in 0..tbl.ints {
        m.push(if i < new.ints { Some(i) } else { None });
    }
    for e in &tbl.extras {
        m.push(new.extras.iter().position(|x| x == e).map(|p| new.ints + p));
    }
    Some(m)
}

impl C11 {
    fn gen_cell(rng: &mut Rng, extra: bool) -> Cell {
        if rng.chance(1, 5) {
            return None;
        }
        if extra {
            return Some(match rng.below(10) {
                0 => EXTRA_KEY_MAX,
                1 => -EXTRA_KEY_MAX,
                2 => 0,
                _ => rng.below(41) as i64 - 20,
            });
        }
        Some(match rng.below(16) {
            0 => i64::MAX,
            1 => i64::MIN,
            2 => 0,
            3 => rng.next_u64() as i64,
            _ => rng.below(201) as i64 - 100,
        })
    }

    fn gen_spec(rng: &mut Rng) -> SchemaSpec {
        let mut extras = vec![];
        if rng.chance(2, 5) {
            for e in Extra::all() {
                if rng.chance(2, 5) {
                    extras.push(e);
                }
            }
            // random order of the extra columns
            for i in (1..extras.len()).rev() {
                let j = rng.usize(i + 1);
                extras.swap(i, j);
            }
        }
        let ints = if extras.is_empty() { 1 + rng.usize(3) } else { rng.usize(3) };
        SchemaSpec { ints, extras }
    }

    /// `legacy`: the table will be stored in the legacy format — NULL lists / struct children are read back as values
    /// the kit cannot represent (empty list, struct (0, NULL)), so the generator leaves them out (see level_note)
    fn gen_batches(rng: &mut Rng, spec: &SchemaSpec, legacy: bool) -> Vec<Vec<Row>> {
        let nb = match rng.below(12) {
            0 => 0,
            1..=4 => 1,
            5..=8 => 2,
            9..=10 => 3,
            _ => 5,
        };
        (0..nb)
            .map(|_| {
                let nr = match rng.below(10) {
                    0 => 0,
                    1..=5 => 1 + rng.usize(4),
                    6..=8 => 4 + rng.usize(6),
                    _ => 10 + rng.usize(12),
                };
                let all_null = rng.chance(1, 12);
                (0..nr)
                    .map(|_| {
                        (0..spec.width())
                            .map(|c| {
                                let nested = c >= spec.ints && matches!(spec.extras[c - spec.ints], Extra::Struct | Extra::List);
                                let cell = if all_null { None } else { Self::gen_cell(rng, c >= spec.ints) };
                                if legacy && nested && cell.is_none() {
                                    Some(rng.below(9) as i64 - 4)
                                } else {
                                    cell
                                }
                            })
                            .collect()
                    })
                    .collect()
            })
            .collect()
    }

    fn gen_knobs(rng: &mut Rng, malformed: bool) -> Knobs {
        let small = |rng: &mut Rng| Some(1 + rng.usize(9));
        let f = match rng.below(20) {
            0 | 1 => None,
            2 => Some((1usize << 32) + rng.usize(4)), // `as u32` truncation in do_write_fragments
            3 if malformed => Some(0),
            _ => small(rng),
        };
        let g = match rng.below(20) {
            0 | 1 => None,
            2 if malformed => Some(0),
            3 => Some(100),
            _ => small(rng),
        };
        let b = if rng.chance(1, 8) { Some(0) } else { None };
        let version = match rng.below(9) {
            0 => None,
            n => Some(Ver::all()[(n as usize - 1) % 4]),
        };
        Knobs { max_rows_per_file: f, max_rows_per_group: g, max_bytes_per_file: b, version, stable_row_ids: rng.chance(1, 3) }
    }
}

impl Prop for C11 {
    fn id(&self) -> &'static str {
        "C11"
    }

    fn budget(&self, tier: Tier) -> usize {
        match tier {
            Tier::Quick => 1800,
            Tier::Thorough => 16000,
            Tier::Search => 6000,
        }
    }

    fn gen_case(&mut self, rng: &mut Rng, tier: Tier, idx: usize) -> Vec<String> {
        // the first cases enumerate small splits systematically: one create (+ one append) of rows 1..n cut into
        // batches, for every small file / group limit and a legacy and a 2.x version
        let n_enum = match tier {
            Tier::Quick => 160,
            Tier::Thorough => 2400,
            Tier::Search => 0,
        };
        if idx < n_enum {
            const LENS: [&[usize]; 10] =
                [&[7], &[3, 4], &[1, 1, 5], &[4, 0, 3], &[2, 2, 2, 1], &[6, 1], &[0, 7, 0], &[5, 2], &[1, 6], &[3, 3, 1]];
            let mut i = idx;
            let f = 1 + i % 5;
            i /= 5;
            let g = 1 + i % 4;
            i /= 4;
            let ver = [Ver::Legacy, Ver::V2_0, Ver::V2_1, Ver::V2_2][i % 2 + if (i / 2) % 3 == 2 { 2 } else { 0 }];
            i /= 2;
            let lens = LENS[i % LENS.len()];
            i /= LENS.len();
            let b = if i % 2 == 1 { Some(0) } else { None };
            let spec = SchemaSpec::ints(1);
            let mut next = 0i64;
            let mut mk = |lens: &[usize]| -> Vec<Vec<Row>> {
                lens.iter()
                    .map(|&n| {
                        (0..n)
                            .map(|_| {
                                next += 1;
                                vec![Some(next)]
                            })
                            .collect()
                    })
                    .collect()
            };
            let knobs = Knobs {
                max_rows_per_file: Some(f),
                max_rows_per_group: Some(g),
                max_bytes_per_file: b,
                version: Some(ver),
                stable_row_ids: false,
            };
            let first = WriteOp { mode: Mode::Create, knobs, spec: spec.clone(), batches: mk(lens) };
            let second = WriteOp {
                mode: Mode::Append,
                knobs: Knobs { max_rows_per_file: Some(g + 1), max_rows_per_group: Some(f), ..knobs },
                spec,
                batches: mk(LENS[(idx * 7 + 3) % LENS.len()]),
            };
            return vec![show_op(&first), show_op(&second)];
        }
        let malformed = rng.chance(3, 20);
        let len = 1 + rng.usize(6);
        let mut spec = Self::gen_spec(rng);
        let mut exists = false;
        let mut ver = Ver::V2_0;
        let mut seen_legacy = false;
        let mut lines = vec![];
        for i in 0..len {
            let mode = if !exists {
                match rng.below(10) {
                    0 => Mode::Append,
                    1 => Mode::Overwrite,
                    _ => Mode::Create,
                }
            } else {
                match rng.below(10) {
                    0..=5 => Mode::Append,
                    6..=8 => Mode::Overwrite,
                    _ if malformed => Mode::Create,
                    _ => Mode::Append,
                }
            };
            let mut op_spec = spec.clone();
            if exists && mode == Mode::Overwrite && rng.chance(1, 2) {
                op_spec = Self::gen_spec(rng);
            }
            if exists && mode == Mode::Append {
                if rng.chance(1, 6) {
                    // a sub-schema (missing nullable columns are NULL filled)
                    let ints = rng.usize(spec.ints + 1);
                    let extras: Vec<Extra> = spec.extras.iter().copied().filter(|_| rng.chance(1, 2)).collect();
                    let s = SchemaSpec { ints, extras };
                    if s.width() > 0 {
                        op_spec = s;
                    }
                } else if malformed && rng.chance(1, 3) {
                    op_spec = Self::gen_spec(rng);
                }
            }
            let knobs = Self::gen_knobs(rng, malformed && i + 1 >= len / 2);
            // the storage version the rows of this op will be stored with (approximate: assumes the op succeeds)
            let op_ver = if !exists {
                knobs.version.unwrap_or(Ver::V2_0)
            } else if mode == Mode::Overwrite {
                knobs.version.unwrap_or(ver)
            } else {
                ver
            };
            // sticky: a failed overwrite leaves a legacy table in place, so once legacy was requested stay careful
            seen_legacy |= op_ver == Ver::Legacy || knobs.version == Some(Ver::Legacy);
            let batches = Self::gen_batches(rng, &op_spec, seen_legacy);
            let op = WriteOp { mode, knobs, spec: op_spec.clone(), batches };
            let mut line = show_op(&op);
            if malformed && rng.chance(1, 12) {
                // syntactically broken line
                line = match rng.below(3) {
                    0 => line.replacen("f=", "f=x", 1),
                    1 => format!("{line},7"),
                    _ => line.replacen("k=", "k=9", 1),
                };
            }
            lines.push(line);
            // the generator's own (approximate) idea of the state, to keep histories mostly valid
            if !(exists && mode == Mode::Create) {
                if !exists || mode == Mode::Overwrite {
                    spec = op_spec;
                    ver = op_ver;
                }
                exists = true;
            }
        }
        lines
    }

    fn exec_case(&mut self, lines: &[String]) -> CaseResult {
        self.kit.reset_session();
        // one case in 16 lives in a real directory (local object store) instead of memory://
        let on_disk = lines.iter().map(|l| l.len()).sum::<usize>() % 16 == 0;
        let uri = if on_disk { self.kit.tempdir_uri() } else { self.kit.fresh_uri() };
        let kit = &self.kit;
        let mut res = CaseResult::default();
        let mut ds: Option<Dataset> = None;
        let mut exp: Option<Expect> = None;
        let mut total_written = 0usize;
        let mut multi_frag = false;
        if on_disk {
            res.tags.push("store:local_dir".into());
        }
        for (ln, line) in lines.iter().enumerate() {
            let Some(op) = parse_op(line) else {
                res.outputs.push("err parse".into());
                res.tags.push("err:parse".into());
                continue;
            };
            res.tags.push(format!("op:{}", mode_str(op.mode)));
            let flat: Vec<Row> = op.batches.iter().flatten().cloned().collect();
            let r = std::panic::catch_unwind(std::panic::AssertUnwindSafe(|| match &ds {
                Some(d) if op.mode != Mode::Create => kit.write(Ok(d), op.mode, &op.spec, &op.batches, &op.knobs),
                _ => kit.write(Err(&uri), op.mode, &op.spec, &op.batches, &op.knobs),
            }));
            let r = match r {
                Ok(r) => r,
                Err(e) => {
                    let msg = e
                        .downcast_ref::<String>()
                        .cloned()
                        .or_else(|| e.downcast_ref::<&str>().map(|s| s.to_string()))
                        .unwrap_or_else(|| "panic".into());
                    res.failures.push(OracleFailure {
                        what: format!("write panicked: {msg}"),
                        key: Some("write_panic".into()),
                        line: ln,
                    });
                    res.outputs.push("err panic".into());
                    res.tags.push("err:panic".into());
                    continue;
                }
            };
            match r {
                Err(e) if e.msg.starts_with("timeout:") => {
                    res.failures.push(OracleFailure { what: format!("{} ({})", e.msg, mode_str(op.mode)), key: Some("op_timeout".into()), line: ln });
                    res.outputs.push("err timeout".into());
                    res.tags.push("err:timeout".into());
                }
                Err(e) => {
                    if std::env::var("C11_DEBUG").is_ok() {
                        eprintln!("line {ln}: {:?}: {}", e.kind, e.msg);
                    }
                    res.outputs.push(format!("err {}", e.kind.as_str()));
                    res.tags.push(format!("err:{}", e.kind.as_str()));
                    // a failed write must leave the table as it was
                    if let (Some(d), Some(x)) = (&ds, &exp) {
                        match kit.open(&uri, None).and_then(|fresh| kit.scan(&fresh, &x.spec, &ScanOpts::ordered())) {
                            Ok(rows) if rows == x.rows => {}
                            other => res.failures.push(OracleFailure {
                                key: Some(
                                    match &other {
                                        Ok(rows) => mismatch_key(rows, x, "failed_write_changed_table"),
                                        Err(_) => "failed_write_changed_table",
                                    }
                                    .into(),
                                ),
                                what: format!(
                                    "after a failed {} the table (was version {}) no longer scans to what was written: {:?}",
                                    mode_str(op.mode),
                                    d.version().version,
                                    other.map(|r| show_rows(&r)).map_err(|e| e.msg)
                                ),
                                line: ln,
                            }),
                        }
                    }
                }
                Ok(new_ds) => {
                    // ---- the harness's own expectation (oracle)
                    let effective_create = ds.is_none();
                    let sv = Kit::storage_version(&new_ds);
                    let lossy = |spec: &SchemaSpec, rows: &[Row]| match sv {
                        Some(v) => spec.stored(v, rows),
                        None => rows.to_vec(),
                    };
                    let expected: Expect = if effective_create || op.mode == Mode::Overwrite {
                        Expect { spec: op.spec.clone(), rows: flat.clone(), stored: lossy(&op.spec, &flat) }
                    } else {
                        let x = exp.as_ref().unwrap();
                        match column_map(&x.spec, &op.spec) {
                            Some(m) => {
                                let added: Vec<Row> =
                                    flat.iter().map(|r| m.iter().map(|p| p.and_then(|p| r[p])).collect::<Row>()).collect();
                                let mut rows = x.rows.clone();
                                rows.extend(added.iter().cloned());
                                let mut stored = x.stored.clone();
                                stored.extend(lossy(&x.spec, &added));
                                Expect { spec: x.spec.clone(), rows, stored }
                            }
                            None => {
                                res.failures.push(OracleFailure {
                                    what: format!("append of schema {} into a table of schema {} was accepted", op.spec.show(), x.spec.show()),
                                    key: Some("append_foreign_schema_accepted".into()),
                                    line: ln,
                                });
                                Expect { spec: x.spec.clone(), rows: x.rows.clone(), stored: x.stored.clone() }
                            }
                        }
                    };
                    total_written += flat.len();
                    let mut fail = |what: String, key: &str| {
                        res.failures.push(OracleFailure { what, key: Some(key.into()), line: ln })
                    };
                    let ordered = kit.scan(&new_ds, &expected.spec, &ScanOpts::ordered());
                    let shown = match &ordered {
                        Ok(rows) => {
                            if rows != &expected.rows {
                                fail(
                                    format!("ordered scan {} differs from what was written {}", show_rows(rows), show_rows(&expected.rows)),
                                    mismatch_key(rows, &expected, "scan_mismatch"),
                                );
                            }
                            show_rows(rows)
                        }
                        Err(e) => {
                            let key = if e.msg.starts_with("decode:") { "typed_value_mismatch" } else { "scan_error" };
                            fail(format!("ordered scan failed: {}", e.msg), key);
                            format!("err:{}", e.kind.as_str())
                        }
                    };
                    match kit.scan(&new_ds, &expected.spec, &ScanOpts { batch_size: Some(3), ..Default::default() }) {
                        Ok(rows) => {
                            let mut want = expected.rows.clone();
                            want.sort();
                            if rows != want {
                                let mut st = expected.stored.clone();
                                st.sort();
                                fail(
                                    format!("unordered scan (sorted) {} is not the multiset written {}", show_rows(&rows), show_rows(&want)),
                                    if rows == st { "legacy_nulls_lost" } else { "scan_mismatch_unordered" },
                                );
                            }
                        }
                        Err(e) => fail(format!("unordered scan failed: {}", e.msg), "scan_error"),
                    }
                    let count = match kit.count_rows(&new_ds, None) {
                        Ok(n) => {
                            if n != expected.rows.len() {
                                fail(format!("count_rows = {n}, {} rows were written", expected.rows.len()), "count_mismatch");
                            }
                            n.to_string()
                        }
                        Err(e) => {
                            fail(format!("count_rows failed: {}", e.msg), "count_error");
                            format!("err:{}", e.kind.as_str())
                        }
                    };
                    let frags = Kit::fragments(&new_ds);
                    if frags.iter().any(|f| f.1 == 0) {
                        fail(format!("an empty fragment was written: {}", show_frags(&frags)), "empty_fragment");
                    }
                    if frags.iter().map(|f| f.1).sum::<usize>() != expected.rows.len() || frags.iter().any(|f| f.2 != 0) {
                        fail(
                            format!("fragment row counts {} do not add up to {} rows", show_frags(&frags), expected.rows.len()),
                            "fragment_rows_mismatch",
                        );
                    }
                    if frags.len() > 1 {
                        multi_frag = true;
                    }
                    let sv = sv.map(|v| v.as_str()).unwrap_or("?");
                    res.tags.push(format!("sv:{sv}"));
                    res.tags.push(format!("nfrags:{}", frags.len().min(6)));
                    if let Some(f) = op.knobs.max_rows_per_file {
                        if f >= 1 << 32 {
                            res.tags.push("limit:wraps_u32".into());
                        } else if frags.iter().any(|x| x.1 > f) && sv == "legacy" {
                            res.tags.push("limit:legacy_file_over_max_rows".into());
                        }
                    }
                    if op.knobs.max_bytes_per_file == Some(0) {
                        res.tags.push("limit:max_bytes_0".into());
                    }
                    if op.knobs.stable_row_ids {
                        res.tags.push("stable_row_ids".into());
                    }
                    if op.spec != expected.spec {
                        res.tags.push("append:subschema".into());
                    }
                    if !op.spec.extras.is_empty() {
                        res.tags.push("typed_columns".into());
                    }
                    if op.batches.iter().any(|b| b.is_empty()) || op.batches.is_empty() {
                        res.tags.push("empty_batch".into());
                    }
                    res.outputs.push(format!(
                        "ok v={} sv={} n={} frags={} rows={}",
                        new_ds.version().version,
                        sv,
                        count,
                        show_frags(&frags),
                        shown
                    ));
                    ds = Some(new_ds);
                    exp = Some(expected);
                }
            }
        }
        // a fresh handle must see the same table
        if let Some(x) = &exp {
            match kit.open(&uri, None).and_then(|fresh| kit.scan(&fresh, &x.spec, &ScanOpts::ordered())) {
                Ok(rows) if rows == x.rows => {}
                other => res.failures.push(OracleFailure {
                    key: Some(
                        match &other {
                            Ok(rows) => mismatch_key(rows, x, "reopen_mismatch"),
                            Err(_) => "reopen_mismatch",
                        }
                        .into(),
                    ),
                    what: format!(
                        "a freshly opened handle scans {:?}, written {}",
                        other.map(|r| show_rows(&r)).map_err(|e| e.msg),
                        show_rows(&x.rows)
                    ),
                    line: lines.len().saturating_sub(1),
                }),
            }
        }
        res.nontrivial = total_written >= 2 && multi_frag;
        res
    }

    fn rule(&self) -> String {
        "first 160 (quick) cases: systematic create+append of rows 1..n for every max_rows_per_file 1..5 x max_rows_per_group 1..4 x \
         {legacy, 2.x} x 10 batch-length patterns x max_bytes_per_file {default, 0}; then random \
         histories of 1-6 create/append/overwrite ops on one memory:// dataset (1 in 16 in a local directory); each write is a list of 0-5 batches of 0-21 rows \
         (20% NULL cells, all-NULL batches, i64 extremes), 1-3 Int64 columns plus a random subset of Utf8/LargeUtf8/Float32/Struct/List \
         columns, max_rows_per_file/max_rows_per_group in 1..9 (or default, 100, 2^32+k), max_bytes_per_file 0 or default, storage \
         version legacy/2.0/2.1/2.2/default, stable row ids on/off; appends use the table schema or a sub-schema; 15% malformed \
         (create on an existing table, foreign schema, zero limits, broken syntax). Non-trivial = at least 2 rows written and some \
         version with more than one fragment."
            .into()
    }
}

fn main() {
    run_main(C11 { kit: Kit::new() })
}
