//! C32: metadata serialisation round trips.
//!
//! Op lines carry values in Rust `Debug` syntax (canonical: no whitespace, maps sorted):
//!   rt.<ty> v / rtn.<ty> v   in-memory value -> real `pb::X::from(&v)` -> prost bytes -> decode -> real `X::try_from`
//!   dec.<ty> p               hand-built protobuf message -> real `TryFrom`, then re-encoded
//!   json.tag / json.branch   serde_json round trip of the refs.rs structs
//! The oracle (independent of the Lean model): for `rt.*` the decoded value must equal the encoded one; for `rtn.*`
//! (a value that breaks one documented normalisation) a difference is accepted unless it is one of the recorded
//! information losses (known findings); for `dec.*` a decoded value must survive another encode/decode unchanged.

#[path = "../c32_tree.rs"]
mod tree;
#[path = "../c32_read.rs"]
mod read;
#[path = "../c32_gen.rs"]
mod gen;

use std::fmt::Debug;
use std::panic::{catch_unwind, AssertUnwindSafe};

use hcommon::*;
use lance::dataset::refs::{BranchContents, TagContents};
use lance::dataset::transaction::Transaction;
use lance_index::mem_wal::MemWal;
use lance_table::format::{pb, DataFile, DeletionFile, Fragment, IndexMetadata, Manifest};
use lance_table::rowids::segment::U64Segment;
use lance_table::rowids::{read_row_ids, write_row_ids, RowIdSequence};
use prost::Message;
use tree::*;

fn err_kind(e: &lance_core::Error) -> String {
    let d = format!("{:?}", e);
    let k: String = d.chars().take_while(|c| c.is_ascii_alphanumeric()).collect();
    match k.as_str() {
        "NotSupported" | "InvalidInput" | "Internal" | "IO" => k,
        other => format!("Other{other}"),
    }
}

/// run a real conversion; a panic inside lance is reported as `Panic`
fn guarded<X>(f: impl FnOnce() -> lance_core::Result<X>) -> Result<X, String> {
    match catch_unwind(AssertUnwindSafe(f)) {
        Ok(Ok(x)) => Ok(x),
        Ok(Err(e)) => Err(err_kind(&e)),
        Err(_) => Err("Panic".into()),
    }
}

/// harness canonicalisation of the (trusted) roaring bytes in `pb::IndexMetadata::fragment_bitmap`
fn fix(t: &mut T) {
    match t {
        T::R(name, fs) => {
            for (k, v) in fs.iter_mut() {
                if name == "IndexMetadata" && k == "fragment_bitmap" {
                    if let T::L(xs) = v {
                        if !xs.is_empty() {
                            let bytes: Vec<u8> = xs.iter().map(|x| x.u64().unwrap_or(0) as u8).collect();
                            *v = match roaring::RoaringBitmap::deserialize_from(bytes.as_slice()) {
                                Ok(bm) => T::U("Bm".into(), vec![T::L(bm.iter().map(|x| T::A(x.to_string())).collect())]),
                                Err(_) => T::A("Garbage".into()),
                            };
                            continue;
                        }
                    }
                }
                if name == "Manifest" && k == "base_paths" {
                    // `HashMap::values()` order: sort the repeated field by the printed id (stable)
                    if let T::L(xs) = v {
                        xs.sort_by_key(|b| b.field("id").map(render).unwrap_or_default());
                    }
                }
                fix(v);
            }
        }
        T::L(xs) | T::U(_, xs) => xs.iter_mut().for_each(fix),
        T::M(kv) => kv.iter_mut().for_each(|(_, v)| fix(v)),
        _ => {}
    }
}

pub fn tree_of<D: Debug>(v: &D) -> T {
    let raw = format!("{:?}", v);
    match parse(&raw) {
        Ok(mut t) => {
            fix(&mut t);
            t
        }
        Err(e) => T::A(format!("UNPARSED({e}):{raw}")),
    }
}

pub fn canon_v<D: Debug>(v: &D) -> String {
    render(&tree_of(v))
}

/// the three recorded information losses, undone on the value tree of the *input*; returns the keys that applied
fn normalize_known(t: &mut T, keys: &mut Vec<&'static str>) {
    match t {
        T::R(name, fs) => {
            let name = name.clone();
            for (k, v) in fs.iter_mut() {
                if name == "IndexMetadata" && k == "created_at" {
                    if let T::U(s, xs) = v {
                        if s == "Some" {
                            if let T::U(a, ns) = &mut xs[0] {
                                if a == "At" {
                                    let n = ns[0].i128().unwrap();
                                    let m = n.div_euclid(1_000_000) * 1_000_000;
                                    if m != n {
                                        ns[0] = T::A(m.to_string());
                                        keys.push("index_created_at_submilli");
                                    }
                                }
                            }
                        }
                    }
                } else if name == "Rewrite" && k == "frag_reuse_index" {
                    if !matches!(v, T::A(_)) {
                        *v = T::A("None".into());
                        keys.push("txn_rewrite_frag_reuse_index");
                    }
                } else if (name == "Overwrite" || name == "Merge" || name == "Project") && k == "schema" {
                    if let T::R(_, sfs) = v {
                        for (sk, sv) in sfs.iter_mut() {
                            if sk == "metadata" && *sv != T::M(vec![]) {
                                *sv = T::M(vec![]);
                                keys.push("txn_schema_metadata");
                            }
                        }
                    }
                }
                normalize_known(v, keys);
            }
        }
        T::L(xs) | T::U(_, xs) => xs.iter_mut().for_each(|x| normalize_known(x, keys)),
        T::M(kv) => kv.iter_mut().for_each(|(_, v)| normalize_known(v, keys)),
        _ => {}
    }
}

struct Out {
    line: String,
    fails: Vec<(String, Option<String>)>,
}

fn res_str<M: Debug>(r: &Result<M, String>) -> String {
    match r {
        Ok(m) => format!("Ok({})", canon_v(m)),
        Err(k) => format!("Err({k})"),
    }
}

fn rt<M: Debug, P: Debug + Message + Default + PartialEq>(
    claimed_wf: bool,
    v: &M,
    to_pb: impl Fn(&M) -> P,
    from_pb: impl Fn(P) -> lance_core::Result<M>,
) -> Out {
    let mut fails = vec![];
    let p = match catch_unwind(AssertUnwindSafe(|| to_pb(v))) {
        Ok(p) => p,
        Err(_) => return Out { line: "encode-panic".into(), fails: vec![("encoder panicked".into(), Some("panic".into()))] },
    };
    // through real prost bytes
    let bytes = p.encode_to_vec();
    let p2 = P::decode(bytes.as_slice());
    let p2 = match p2 {
        Ok(p2) => {
            if p2 != p {
                fails.push(("prost decode(encode(m)) != m".into(), Some("prost".into())));
            }
            p2
        }
        Err(e) => {
            fails.push((format!("prost decode failed: {e}"), Some("prost".into())));
            to_pb(v)
        }
    };
    let pb_s = canon_v(&p);
    let back = guarded(|| from_pb(p2));
    let vs = canon_v(v);
    let back_s = res_str(&back);
    let eq = back_s == format!("Ok({vs})");
    if !eq {
        let mut t = tree_of(v);
        let mut keys = vec![];
        normalize_known(&mut t, &mut keys);
        if !keys.is_empty() && back_s == format!("Ok({})", render(&t)) {
            keys.dedup();
            for k in keys {
                fails.push((format!("decode(encode(x)) != x: information lost ({k}): {vs} -> {back_s}"), Some(k.to_string())));
            }
        } else if claimed_wf {
            fails.push((format!("decode(encode(x)) != x for a well-formed value: {vs} -> {back_s}"), None));
        }
    }
    Out { line: format!("wf={} eq={} pb={} back={}", claimed_wf as u8, eq as u8, pb_s, back_s), fails }
}

fn dec<M: Debug, P: Debug + Message + Default + PartialEq + Clone>(
    p: P,
    to_pb: impl Fn(&M) -> P,
    from_pb: impl Fn(P) -> lance_core::Result<M>,
    with_back: bool,
) -> Out {
    let mut fails = vec![];
    let bytes = p.encode_to_vec();
    match P::decode(bytes.as_slice()) {
        Ok(p2) if p2 == p => {}
        _ => fails.push(("prost decode(encode(m)) != m".into(), Some("prost".into()))),
    }
    let r = guarded(|| from_pb(p.clone()));
    let mut line = res_str(&r);
    match &r {
        Ok(m) => {
            let re = to_pb(m);
            line.push_str(&format!(" re={}", canon_v(&re)));
            let back = guarded(|| from_pb(re));
            let back_s = res_str(&back);
            if with_back {
                line.push_str(&format!(" back={back_s}"));
            }
            if back_s != res_str(&r) {
                let mut t = tree_of(m);
                let mut keys = vec![];
                normalize_known(&mut t, &mut keys);
                if keys.is_empty() {
                    fails.push((format!("a decoded value does not survive encode/decode: {} -> {back_s}", res_str(&r)), None));
                }
            }
        }
        Err(_) => {
            line.push_str(" re=-");
            if with_back {
                line.push_str(" back=-");
            }
        }
    }
    Out { line, fails }
}

fn frag_of_del(d: &DeletionFile) -> pb::DeletionFile {
    let mut f = Fragment::new(0);
    f.deletion_file = Some(d.clone());
    pb::DataFragment::from(&f).deletion_file.unwrap()
}

macro_rules! json_rt {
    ($v:expr, $ty:ty) => {{
        let v = $v;
        let js = serde_json::to_string(&v).unwrap();
        // what the code writes is the pretty form
        let pretty = serde_json::to_string_pretty(&v).unwrap();
        let back: Result<$ty, String> = serde_json::from_str::<$ty>(&pretty).map_err(|_| "Json".to_string());
        let back_s = res_str(&back);
        let mut fails = vec![];
        if back_s != format!("Ok({})", canon_v(&v)) {
            fails.push((format!("json round trip: {} -> {back_s}", canon_v(&v)), None));
        }
        Out { line: format!("json={js} back={back_s}"), fails }
    }};
}

fn exec_line(line: &str) -> Out {
    let (op, arg) = match line.split_once(' ') {
        Some(x) => x,
        None => (line, ""),
    };
    let t = match parse(arg) {
        Ok(t) => t,
        Err(_) => return Out { line: "bad-term".into(), fails: vec![] },
    };
    let bad = || Out { line: "bad-value".into(), fails: vec![] };
    let wf = op.starts_with("rt.");
    macro_rules! rd {
        ($e:expr) => {
            match $e {
                Ok(v) => v,
                Err(_) => return bad(),
            }
        };
    }
    match op {
        "rt.datafile" | "rtn.datafile" => rt(wf, &rd!(read::data_file(&t)), |d| pb::DataFile::from(d), DataFile::try_from),
        "rt.delfile" | "rtn.delfile" => rt(wf, &rd!(read::deletion_file(&t)), frag_of_del, DeletionFile::try_from),
        "rt.frag" | "rtn.frag" => rt(wf, &rd!(read::fragment(&t)), |f| pb::DataFragment::from(f), Fragment::try_from),
        "rt.manifest" | "rtn.manifest" => rt(wf, &rd!(read::manifest(&t)), |m| pb::Manifest::from(m), Manifest::try_from),
        "rt.index" | "rtn.index" => {
            rt(wf, &rd!(read::index_metadata(&t)), |i| pb::IndexMetadata::from(i), IndexMetadata::try_from)
        }
        "rt.memwal" | "rtn.memwal" => {
            rt(wf, &rd!(read::mem_wal(&t)), |m| pb::mem_wal_index_details::MemWal::from(m), MemWal::try_from)
        }
        "rt.txn" | "rtn.txn" => rt(wf, &rd!(read::transaction(&t)), |x| pb::Transaction::from(x), Transaction::try_from),
        "dec.datafile" => dec(rd!(read::pb_data_file(&t)), |d: &DataFile| pb::DataFile::from(d), DataFile::try_from, false),
        "dec.delfile" => dec(rd!(read::pb_deletion_file(&t)), frag_of_del, DeletionFile::try_from, false),
        "dec.frag" => dec(rd!(read::pb_fragment(&t)), |f: &Fragment| pb::DataFragment::from(f), Fragment::try_from, false),
        "dec.manifest" => dec(rd!(read::pb_manifest(&t)), |m: &Manifest| pb::Manifest::from(m), Manifest::try_from, false),
        "dec.index" => {
            dec(rd!(read::pb_index_metadata(&t)), |i: &IndexMetadata| pb::IndexMetadata::from(i), IndexMetadata::try_from, false)
        }
        "dec.memwal" => {
            dec(rd!(read::pb_mem_wal(&t)), |m: &MemWal| pb::mem_wal_index_details::MemWal::from(m), MemWal::try_from, false)
        }
        "dec.txn" => dec(rd!(read::pb_transaction(&t)), |x: &Transaction| pb::Transaction::from(x), Transaction::try_from, false),
        "dec.seg" => dec(rd!(read::pb_segment(&t)), |s: &U64Segment| pb::U64Segment::from(s.clone()), U64Segment::try_from, true),
        "dec.seq" => {
            // through the public byte-level functions write_row_ids / read_row_ids
            let p = rd!(read::pb_row_id_sequence(&t));
            dec(
                p,
                |s: &RowIdSequence| pb::RowIdSequence::decode(write_row_ids(s).as_slice()).unwrap(),
                |p: pb::RowIdSequence| read_row_ids(&p.encode_to_vec()),
                true,
            )
        }
        "dec.vseq" => {
            let p = rd!(read::pb_version_sequence(&t));
            dec(
                p,
                |s: &lance_table::format::RowDatasetVersionSequence| {
                    pb::RowDatasetVersionSequence::decode(lance_table::rowids::version::write_dataset_versions(s).as_slice()).unwrap()
                },
                |p: pb::RowDatasetVersionSequence| lance_table::rowids::version::read_dataset_versions(&p.encode_to_vec()),
                true,
            )
        }
        "json.tag" => {
            let v = TagContents {
                branch: rd!(t.field("branch").and_then(|x| x.opt(|s| s.str()))),
                version: rd!(t.field("version").and_then(|x| x.u64())),
                manifest_size: rd!(t.field("manifest_size").and_then(|x| x.usize())),
            };
            json_rt!(v, TagContents)
        }
        "json.branch" => {
            let v = BranchContents {
                parent_branch: rd!(t.field("parent_branch").and_then(|x| x.opt(|s| s.str()))),
                parent_version: rd!(t.field("parent_version").and_then(|x| x.u64())),
                create_at: rd!(t.field("create_at").and_then(|x| x.u64())),
                manifest_size: rd!(t.field("manifest_size").and_then(|x| x.usize())),
            };
            json_rt!(v, BranchContents)
        }
        _ => Out { line: "bad-op".into(), fails: vec![] },
    }
}

struct C32;

impl Prop for C32 {
    fn id(&self) -> &'static str {
        "C32"
    }
    fn budget(&self, tier: Tier) -> usize {
        match tier {
            Tier::Quick => 12000,
            Tier::Thorough => 200000,
            Tier::Search => 40000,
        }
    }
    fn gen_case(&mut self, rng: &mut Rng, _tier: Tier, idx: usize) -> Vec<String> {
        gen::gen_case(rng, idx)
    }
    fn exec_case(&mut self, lines: &[String]) -> CaseResult {
        let mut res = CaseResult::default();
        for (i, l) in lines.iter().enumerate() {
            let o = exec_line(l);
            let op = l.split(' ').next().unwrap_or("").to_string();
            res.tags.push(op.clone());
            if let Some(p) = o.line.find("back=") {
                let b = &o.line[p + 5..];
                res.tags.push(if b.starts_with("Ok") { "back:ok".into() } else { format!("back:{}", b.split(' ').next().unwrap_or("")) });
            } else if op.starts_with("dec.") {
                let k = o.line.split(['(', ' ']).next().unwrap_or("");
                let e = if k == "Err" { o.line.split(')').next().unwrap_or("").to_string() } else { "Ok".to_string() };
                res.tags.push(format!("dec:{e}"));
            }
            if op == "rt.txn" || op == "rtn.txn" || op == "dec.txn" {
                if let Some(p) = l.find("operation:") {
                    let rest = &l[p + 10..];
                    let rest = rest.strip_prefix("Some(").unwrap_or(rest);
                    let name: String = rest.chars().take_while(|c| c.is_ascii_alphanumeric()).collect();
                    res.tags.push(format!("txn:{name}"));
                }
            }
            if o.line.contains("eq=0") {
                res.tags.push("normalised".into());
            }
            for (what, key) in o.fails {
                res.failures.push(OracleFailure { what, key, line: i });
            }
            res.outputs.push(o.line);
        }
        res.nontrivial = true;
        res
    }
    fn rule(&self) -> String {
        "seeded random values of each metadata type built as real lance structs (well-formed: rt.*, one normalisation clause \
         broken: rtn.*) and hand-shaped protobuf messages (dec.*, incl. legacy encodings, missing sub-messages, bad enums); \
         every case is non-trivial (a real encode + prost bytes + decode)"
            .into()
    }
}

fn main() {
    run_main(C32)
}
