//! C27: repetition / definition levels encode nesting losslessly.
//!
//! Interpreter of the C27 line protocol against the real `lance_encoding::repdef` code
//! (`RepDefBuilder`, `SerializedRepDefs`, `RepDefUnraveler`, `CompositeRepDefUnraveler`,
//! `build_control_word_iterator`, `ControlWordParser`, `RepDefSlicer`), a generator of cases
//! (exhaustive small layer stacks first, then seeded random ones) and the property oracle
//! (an independent computation of the logical normal form of a layer stack).
//!
//! Line protocol (one output line per op line):
//!   new                              forget builders and pages                     -> ok
//!   nb                               start another builder (multi-batch serialise) -> ok
//!   val <bits|->                     add_validity_bitmap                           -> ok | panic
//!   nonull <n>                       add_no_null                                   -> ok | panic
//!   off <base> <lens|-> <bits|none>  add_offsets (offsets = base + prefix sums)    -> garbage=<0|1> | panic
//!   fsl <bits|none> <dim> <n>        add_fsl                                       -> ok | panic
//!   ser                              RepDefBuilder::serialize(builders) -> new page, builders cleared
//!                                    -> rep=.. def=.. m=.. mvl=..
//!   unr <shape> <n1,n2,..>           composite unravel of all pages, innermost layer first;
//!                                    shape = `v`/`l`/`f<dim>` joined by `.`, n_i = num_items of page i
//!                                    -> V:<bits|none> / O:<offsets>:<bits|none> tokens
//!   cw                               control words of the last page (as encode_full_zip does)
//!   cwraw <maxrep> <maxdef> <mvd> <rep|none> <def|none> [<n>]   control words of arbitrary levels
//!   slice <r|d> <k1,k2,..>           RepDefSlicer: slice_next(k_i) .. then slice_rest
//! bits are strings of 0/1 (`-` = empty).

use std::panic::{catch_unwind, AssertUnwindSafe};
use std::sync::Arc;

use arrow_array::{
    cast::AsArray, types::Int32Type, Array, ArrayRef, Int32Array, ListArray, RecordBatch, RecordBatchIterator, StructArray,
    UInt32Array,
};
use arrow_buffer::{BooleanBuffer, NullBuffer, OffsetBuffer, ScalarBuffer};
use arrow_schema::{DataType, Field, Fields, Schema};
use hcommon::*;
use lance_encoding::repdef::{
    build_control_word_iterator, CompositeRepDefUnraveler, ControlWordParser,
    DefinitionInterpretation as DI, RepDefBuilder, RepDefUnraveler, SerializedRepDefs,
};

// ---------- the logical input (kept for the oracle) ----------

#[derive(Clone, Debug)]
enum LayerIn {
    Val(Option<Vec<bool>>, usize),
    Off { base: i64, lens: Vec<u64>, v: Option<Vec<bool>> },
    Fsl { v: Option<Vec<bool>>, dim: usize, n: usize },
}

/// expected result of unravelling one layer
#[derive(Clone, Debug, PartialEq)]
enum Unr {
    V(Option<Vec<bool>>, usize),
    O(Vec<u64>, Option<Vec<bool>>),
}

struct Page {
    rep: Option<Vec<u16>>,
    def: Option<Vec<u16>>,
    meaning: Vec<DI>,
    mvl: Option<u16>,
    /// the layer stacks (one per builder) this page was serialised from; None if some op panicked
    input: Option<Vec<Vec<LayerIn>>>,
}

fn bits_str(v: &[bool]) -> String {
    if v.is_empty() {
        "-".into()
    } else {
        v.iter().map(|b| if *b { '1' } else { '0' }).collect()
    }
}
fn opt_bits_str(v: &Option<Vec<bool>>) -> String {
    match v {
        None => "none".into(),
        Some(v) => bits_str(v),
    }
}
fn parse_bits(s: &str) -> Option<Vec<bool>> {
    if s == "-" {
        return Some(vec![]);
    }
    s.chars()
        .map(|c| match c {
            '0' => Some(false),
            '1' => Some(true),
            _ => None,
        })
        .collect()
}
fn parse_opt_bits(s: &str) -> Option<Option<Vec<bool>>> {
    if s == "none" {
        Some(None)
    } else {
        parse_bits(s).map(Some)
    }
}
fn levels_str(v: &Option<Vec<u16>>) -> String {
    match v {
        None => "none".into(),
        Some(v) => show_nat_list(v.iter().map(|x| *x as u64)),
    }
}
fn parse_opt_levels(s: &str) -> Option<Option<Vec<u16>>> {
    if s == "none" {
        return Some(None);
    }
    let v = parse_nat_list(s)?;
    v.into_iter().map(|x| u16::try_from(x).ok()).collect::<Option<Vec<u16>>>().map(Some)
}
fn di_code(d: &DI) -> &'static str {
    match d {
        DI::AllValidItem => "AI",
        DI::AllValidList => "AL",
        DI::NullableItem => "NI",
        DI::NullableList => "NL",
        DI::EmptyableList => "EL",
        DI::NullableAndEmptyableList => "NE",
    }
}
fn meaning_str(m: &[DI]) -> String {
    if m.is_empty() {
        "-".into()
    } else {
        m.iter().map(di_code).collect::<Vec<_>>().join(",")
    }
}
fn nullbuf(v: &[bool]) -> NullBuffer {
    NullBuffer::new(BooleanBuffer::from(v.to_vec()))
}
fn show_unr(u: &Unr) -> String {
    match u {
        Unr::V(v, _) => format!("V:{}", opt_bits_str(v)),
        Unr::O(o, v) => format!("O:{}:{}", show_nat_list(o.iter().copied()), opt_bits_str(v)),
    }
}

// ---------- oracle: logical normal form of a layer stack (independent of lance and of Lean) ----------

/// Some(records outer -> inner) or None if the stack is outside the caller contract
/// (lengths do not line up, or a non-empty valid list sits under a null struct).
fn normal_form(stack: &[LayerIn]) -> Option<Vec<Unr>> {
    let mut out = vec![];
    let mut mask: Option<Vec<bool>> = None; // live (no null ancestor) flags of the current slots
    for layer in stack {
        match layer {
            LayerIn::Val(v, n) => {
                let m = mask.clone().unwrap_or_else(|| vec![true; *n]);
                if m.len() != *n {
                    return None;
                }
                match v {
                    None => {
                        out.push(Unr::V(None, *n));
                        mask = Some(m);
                    }
                    Some(v) => {
                        if v.len() != *n {
                            return None;
                        }
                        let vv: Vec<bool> = v.iter().zip(m.iter()).map(|(a, b)| *a && *b).collect();
                        out.push(Unr::V(Some(vv.clone()), *n));
                        mask = Some(vv);
                    }
                }
            }
            LayerIn::Fsl { v, dim, n } => {
                let m = mask.clone().unwrap_or_else(|| vec![true; *n]);
                if m.len() != *n {
                    return None;
                }
                let vv: Vec<bool> = match v {
                    None => m.clone(),
                    Some(v) => {
                        if v.len() != *n {
                            return None;
                        }
                        v.iter().zip(m.iter()).map(|(a, b)| *a && *b).collect()
                    }
                };
                out.push(Unr::V(v.as_ref().map(|_| vv.clone()), *n));
                mask = Some(vv.iter().flat_map(|b| std::iter::repeat(*b).take(*dim)).collect());
            }
            LayerIn::Off { lens, v, .. } => {
                let n = lens.len();
                let m = mask.clone().unwrap_or_else(|| vec![true; n]);
                if m.len() != n {
                    return None;
                }
                if let Some(v) = v {
                    if v.len() != n {
                        return None;
                    }
                }
                let mut offs = vec![0u64];
                let mut total = 0u64;
                for i in 0..n {
                    let valid = v.as_ref().map(|v| v[i]).unwrap_or(true);
                    // garbage behind a null list is dropped
                    let len = if valid { lens[i] } else { 0 };
                    if !m[i] && len != 0 {
                        return None; // a list under a null struct must have been pushed down to null/empty
                    }
                    total += len;
                    offs.push(total);
                }
                let vv = v.as_ref().map(|v| v.iter().zip(m.iter()).map(|(a, b)| *a && *b).collect::<Vec<bool>>());
                out.push(Unr::O(offs, vv));
                mask = Some(vec![true; total as usize]);
            }
        }
    }
    Some(out)
}

/// expected def_meaning (inner -> outer) of one stack
fn expected_meaning(stacks: &[Vec<LayerIn>]) -> Option<Vec<DI>> {
    let depth = stacks[0].len();
    if stacks.iter().any(|s| s.len() != depth) {
        return None;
    }
    let all_plain = stacks.iter().all(|s| s.iter().all(|l| matches!(l, LayerIn::Val(None, _))));
    let mut out = vec![];
    for k in 0..depth {
        let mut nullable = false;
        let mut emptyable = false;
        let mut is_list = false;
        for s in stacks {
            match &s[k] {
                LayerIn::Val(v, _) => nullable |= v.is_some(),
                LayerIn::Fsl { v, .. } => nullable |= v.is_some(),
                LayerIn::Off { lens, v, .. } => {
                    is_list = true;
                    nullable |= v.is_some();
                    for (i, l) in lens.iter().enumerate() {
                        let valid = v.as_ref().map(|v| v.get(i).copied().unwrap_or(true)).unwrap_or(true);
                        if valid && *l == 0 {
                            emptyable = true;
                        }
                    }
                }
            }
        }
        out.push(if all_plain {
            DI::AllValidItem
        } else if is_list {
            match (nullable, emptyable) {
                (true, true) => DI::NullableAndEmptyableList,
                (true, false) => DI::NullableList,
                (false, true) => DI::EmptyableList,
                (false, false) => DI::AllValidList,
            }
        } else if nullable {
            DI::NullableItem
        } else {
            DI::AllValidItem
        });
    }
    out.reverse();
    Some(out)
}

/// expected composite unravel (inner -> outer) over several pages
/// max_visible_level by its meaning: the number of def levels of the layers below the first list layer (the levels
/// whose entries still carry a value slot); None without a list.  Computed from the input stacks only.
fn expected_mvl(stacks: &[Vec<LayerIn>]) -> Option<Option<u16>> {
    let m = expected_meaning(stacks)?;
    let mut sum = 0u16;
    for d in &m {
        match d {
            DI::AllValidList | DI::NullableList | DI::EmptyableList | DI::NullableAndEmptyableList => return Some(Some(sum)),
            DI::NullableItem => sum += 1,
            DI::AllValidItem => {}
        }
    }
    Some(None)
}

/// the layer stack a page of several builders stands for: layer-wise concatenation of the inputs
/// (a missing validity buffer next to a present one counts as all-valid)
fn combine_inputs(stacks: &[Vec<LayerIn>]) -> Option<Vec<LayerIn>> {
    let depth = stacks.first()?.len();
    if stacks.iter().any(|s| s.len() != depth) {
        return None;
    }
    let mut out = vec![];
    for k in 0..depth {
        let any_v = stacks.iter().any(|s| match &s[k] {
            LayerIn::Val(v, _) => v.is_some(),
            LayerIn::Off { v, .. } => v.is_some(),
            LayerIn::Fsl { v, .. } => v.is_some(),
        });
        let mut bits: Vec<bool> = vec![];
        let mut lens: Vec<u64> = vec![];
        let mut total = 0usize;
        let mut kind = 'v';
        let mut the_dim = 0usize;
        for s in stacks {
            match &s[k] {
                LayerIn::Val(v, n) => {
                    total += n;
                    match v {
                        Some(v) => bits.extend(v.iter().copied()),
                        None => bits.extend(std::iter::repeat(true).take(*n)),
                    }
                }
                LayerIn::Fsl { v, dim, n } => {
                    kind = 'f';
                    the_dim = *dim;
                    total += n;
                    match v {
                        Some(v) => bits.extend(v.iter().copied()),
                        None => bits.extend(std::iter::repeat(true).take(*n)),
                    }
                }
                LayerIn::Off { lens: l, v, .. } => {
                    kind = 'l';
                    lens.extend(l.iter().copied());
                    match v {
                        Some(v) => bits.extend(v.iter().copied()),
                        None => bits.extend(std::iter::repeat(true).take(l.len())),
                    }
                }
            }
        }
        let v = if any_v { Some(bits) } else { None };
        // all layers of one column must be of one kind
        let kinds_ok = stacks.iter().all(|s| match (&s[k], kind) {
            (LayerIn::Val(..), 'v') | (LayerIn::Fsl { .. }, 'f') | (LayerIn::Off { .. }, 'l') => true,
            _ => false,
        });
        if !kinds_ok {
            return None;
        }
        out.push(match kind {
            'v' => LayerIn::Val(v, total),
            'f' => LayerIn::Fsl { v, dim: the_dim, n: total },
            _ => LayerIn::Off { base: 0, lens, v },
        });
    }
    Some(out)
}

fn page_rows(p: &Page) -> Option<usize> {
    let inp = p.input.as_ref()?;
    Some(
        inp.iter()
            .map(|s| match s.first() {
                Some(LayerIn::Val(_, n)) => *n,
                Some(LayerIn::Off { lens, .. }) => lens.len(),
                Some(LayerIn::Fsl { n, .. }) => *n,
                None => 0,
            })
            .sum(),
    )
}

/// expected composite unravel (inner -> outer) over several pages
fn expected_unravel(pages: &[&Page]) -> Option<Vec<Unr>> {
    let mut per_page: Vec<Vec<Unr>> = vec![];
    for p in pages {
        let stacks = p.input.as_ref()?;
        per_page.push(normal_form(&combine_inputs(stacks)?)?);
    }
    let mut all = concat_records(&per_page)?;
    all.reverse();
    Some(all)
}

/// canonical form of unravelled records (outermost first): a missing validity is all-valid and every slot under a
/// null ancestor is reported null -- what a reader can observe
fn canon(recs: &[Unr]) -> Vec<Unr> {
    let mut mask: Option<Vec<bool>> = None;
    let mut out = vec![];
    for r in recs {
        match r {
            Unr::V(v, n) => match (v, &mask) {
                (None, None) => out.push(Unr::V(None, *n)),
                (None, Some(m)) => out.push(Unr::V(Some(m.clone()), m.len())),
                (Some(bits), _) => {
                    let m = mask.clone().unwrap_or_else(|| vec![true; bits.len()]);
                    let vv: Vec<bool> = bits.iter().zip(m.iter()).map(|(a, b)| *a && *b).collect();
                    out.push(Unr::V(Some(vv.clone()), vv.len()));
                    mask = Some(vv);
                }
            },
            Unr::O(o, v) => {
                let len = o.len() - 1;
                let bits = v.clone().unwrap_or_else(|| vec![true; len]);
                let m = mask.clone().unwrap_or_else(|| vec![true; len]);
                let vv: Vec<bool> = bits.iter().zip(m.iter()).map(|(a, b)| *a && *b).collect();
                out.push(Unr::O(o.clone(), Some(vv)));
                mask = Some(vec![true; *o.last().unwrap() as usize]);
            }
        }
    }
    out
}

fn concat_records(parts: &[Vec<Unr>]) -> Option<Vec<Unr>> {
    let depth = parts.first()?.len();
    if parts.iter().any(|p| p.len() != depth) {
        return None;
    }
    let mut out = vec![];
    for k in 0..depth {
        match &parts[0][k] {
            Unr::V(..) => {
                let mut any = false;
                let mut bits = vec![];
                let mut total = 0;
                for p in parts {
                    match &p[k] {
                        Unr::V(v, n) => {
                            total += n;
                            match v {
                                Some(v) => {
                                    any = true;
                                    bits.extend(v.iter().copied());
                                }
                                None => bits.extend(std::iter::repeat(true).take(*n)),
                            }
                        }
                        _ => return None,
                    }
                }
                out.push(Unr::V(if any { Some(bits) } else { None }, total));
            }
            Unr::O(..) => {
                let mut any = false;
                let mut bits = vec![];
                let mut offs = vec![0u64];
                for p in parts {
                    match &p[k] {
                        Unr::O(o, v) => {
                            let last = *offs.last().unwrap();
                            offs.extend(o.iter().skip(1).map(|x| x + last));
                            match v {
                                Some(v) => {
                                    any = true;
                                    bits.extend(v.iter().copied());
                                }
                                None => bits.extend(std::iter::repeat(true).take(o.len() - 1)),
                            }
                        }
                        _ => return None,
                    }
                }
                out.push(Unr::O(offs, if any { Some(bits) } else { None }));
            }
        }
    }
    Some(out)
}


// ---------- file-level round trip (lance_file FileWriter -> FileReader, format 2.1) ----------

/// the Arrow array a layer stack stands for: validity layers above the leaf are structs with one child, list layers
/// are lists, the leaf is an Int32 column holding `first_value..`.  Null lists keep their garbage lengths and sliced
/// offsets their leading unused child values (filled with copies of child value 0).
fn build_array(stack: &[LayerIn], first_value: i32, leaf_meta: &std::collections::HashMap<String, String>) -> Option<ArrayRef> {
    let Some(LayerIn::Val(v, n)) = stack.last() else { return None };
    let mut arr: ArrayRef = Arc::new(Int32Array::new(
        ScalarBuffer::from((0..*n as i32).map(|i| first_value + i).collect::<Vec<i32>>()),
        v.as_ref().map(|v| nullbuf(v)),
    ));
    let mut field = Field::new("leaf", DataType::Int32, true).with_metadata(leaf_meta.clone());
    for layer in stack[..stack.len() - 1].iter().rev() {
        match layer {
            LayerIn::Val(v, n) => {
                if arr.len() != *n {
                    return None;
                }
                let f = Field::new("c", field.data_type().clone(), true).with_metadata(field.metadata().clone());
                let st = StructArray::new(Fields::from(vec![f]), vec![arr], v.as_ref().map(|v| nullbuf(v)));
                field = Field::new("s", st.data_type().clone(), true);
                arr = Arc::new(st);
            }
            LayerIn::Off { base, lens, v } => {
                // child with garbage: `base` leading values, and the raw length of every null list
                let mut idx: Vec<u32> = vec![0; *base as usize];
                let mut next = 0u32;
                let mut offs: Vec<i32> = vec![*base as i32];
                for (i, l) in lens.iter().enumerate() {
                    let valid = v.as_ref().map(|v| v[i]).unwrap_or(true);
                    for _ in 0..*l {
                        if valid {
                            idx.push(next);
                            next += 1;
                        } else {
                            idx.push(0);
                        }
                    }
                    offs.push(offs.last().unwrap() + *l as i32);
                }
                if next as usize != arr.len() {
                    return None;
                }
                let child: ArrayRef = if idx.len() == arr.len() && idx.iter().enumerate().all(|(i, x)| *x as usize == i) {
                    arr
                } else if arr.is_empty() {
                    // no value to copy as garbage: write the normalised offsets instead
                    offs = vec![0; lens.len() + 1];
                    arr
                } else {
                    arrow::compute::take(arr.as_ref(), &UInt32Array::from(idx), None).ok()?
                };
                let f = Arc::new(Field::new("item", field.data_type().clone(), true).with_metadata(field.metadata().clone()));
                let la = ListArray::new(f, OffsetBuffer::new(ScalarBuffer::from(offs)), child, v.as_ref().map(|v| nullbuf(v)));
                field = Field::new("l", la.data_type().clone(), true);
                arr = Arc::new(la);
            }
            LayerIn::Fsl { .. } => return None,
        }
    }
    Some(arr)
}

/// the structure of a decoded array, outermost layer first, plus the leaf values (None = null)
fn extract_structure(arr: &ArrayRef) -> Option<(Vec<Unr>, Vec<Option<i32>>)> {
    let mut out = vec![];
    let mut cur = arr.clone();
    loop {
        let bits: Vec<bool> = (0..cur.len()).map(|i| cur.is_valid(i)).collect();
        match cur.data_type().clone() {
            DataType::Struct(_) => {
                out.push(Unr::V(Some(bits), cur.len()));
                let st = cur.as_struct().clone();
                cur = st.column(0).clone();
            }
            DataType::List(_) => {
                let la = cur.as_list::<i32>().clone();
                let offs: Vec<u64> = la.offsets().iter().map(|o| (*o - la.offsets()[0]) as u64).collect();
                out.push(Unr::O(offs, Some(bits)));
                let start = la.offsets()[0] as usize;
                let end = *la.offsets().last().unwrap() as usize;
                cur = la.values().slice(start, end - start);
            }
            DataType::Int32 => {
                out.push(Unr::V(Some(bits), cur.len()));
                let pa = cur.as_primitive::<Int32Type>();
                let vals = (0..pa.len()).map(|i| if pa.is_valid(i) { Some(pa.value(i)) } else { None }).collect();
                return Some((out, vals));
            }
            _ => return None,
        }
    }
}

fn materialise(recs: &[Unr]) -> Vec<Unr> {
    recs.iter()
        .map(|r| match r {
            Unr::V(v, n) => Unr::V(Some(v.clone().unwrap_or_else(|| vec![true; *n])), *n),
            Unr::O(o, v) => Unr::O(o.clone(), Some(v.clone().unwrap_or_else(|| vec![true; o.len() - 1]))),
        })
        .collect()
}

fn show_leaf(vals: &[Option<i32>]) -> String {
    if vals.is_empty() {
        "-".into()
    } else {
        vals.iter().map(|v| v.map(|x| x.to_string()).unwrap_or_else(|| "n".into())).collect::<Vec<_>>().join(",")
    }
}

fn file_round_trip(rt: &tokio::runtime::Runtime, stacks: &[Vec<LayerIn>], fullzip: bool, page_per_batch: bool) -> Option<(Vec<Unr>, Vec<Option<i32>>)> {
    use lance_encoding::decoder::{DecoderPlugins, FilterExpression};
    use lance_encoding::version::LanceFileVersion;
    use lance_file::testing::{read_lance_file, write_lance_file, FsFixture};
    use lance_file::writer::FileWriterOptions;
    let mut meta = std::collections::HashMap::new();
    if fullzip {
        meta.insert("lance-encoding:structural-encoding".to_string(), "fullzip".to_string());
    } else {
        meta.insert("lance-encoding:structural-encoding".to_string(), "miniblock".to_string());
    }
    let mut arrays = vec![];
    let mut first = 0i32;
    for s in stacks {
        let a = build_array(s, first, &meta)?;
        if let Some(LayerIn::Val(_, n)) = s.last() {
            first += *n as i32;
        }
        arrays.push(a);
    }
    let dt = arrays[0].data_type().clone();
    if arrays.iter().any(|a| a.data_type() != &dt) {
        return None;
    }
    let top_meta = if matches!(dt, DataType::Int32) { meta.clone() } else { Default::default() };
    let schema = Arc::new(Schema::new(vec![Field::new("x", dt, true).with_metadata(top_meta)]));
    let batches: Vec<RecordBatch> =
        arrays.into_iter().map(|a| RecordBatch::try_new(schema.clone(), vec![a]).unwrap()).collect();
    let read = rt.block_on(async {
        let fs = FsFixture::default();
        let options = FileWriterOptions {
            format_version: Some(LanceFileVersion::V2_1),
            data_cache_bytes: if page_per_batch { Some(1) } else { None },
            ..Default::default()
        };
        let reader = RecordBatchIterator::new(batches.into_iter().map(Ok), schema.clone());
        write_lance_file(reader, &fs, options).await;
        read_lance_file(&fs, Arc::<DecoderPlugins>::default(), FilterExpression::no_filter()).await
    });
    let cols: Vec<&dyn Array> = read.iter().map(|b| b.column(0).as_ref()).collect();
    let whole: ArrayRef = if cols.is_empty() { return None } else { arrow::compute::concat(&cols).ok()? };
    extract_structure(&whole)
}

fn stack_rows(s: &[LayerIn]) -> usize {
    match s.first() {
        Some(LayerIn::Val(_, n)) => *n,
        Some(LayerIn::Off { lens, .. }) => lens.len(),
        Some(LayerIn::Fsl { n, .. }) => *n,
        None => 0,
    }
}

/// `RepDefBuilder::serialize` of the builders these stacks stand for
fn serialize_stacks(stacks: &[Vec<LayerIn>]) -> SerializedRepDefs {
    let mut builders = vec![];
    for s in stacks {
        let mut b = RepDefBuilder::default();
        for l in s {
            match l {
                LayerIn::Val(Some(v), _) => b.add_validity_bitmap(nullbuf(v)),
                LayerIn::Val(None, n) => b.add_no_null(*n),
                LayerIn::Fsl { v, dim, n } => b.add_fsl(v.as_ref().map(|v| nullbuf(v)), *dim, *n),
                LayerIn::Off { base, lens, v } => {
                    let mut offs: Vec<i64> = vec![*base];
                    for l in lens {
                        offs.push(offs.last().unwrap() + *l as i64);
                    }
                    b.add_offsets(OffsetBuffer::<i64>::new(ScalarBuffer::from(offs)), v.as_ref().map(|v| nullbuf(v)));
                }
            }
        }
        builders.push(b);
    }
    RepDefBuilder::serialize(builders)
}

// ---------- interpreter ----------

#[derive(Default)]
struct St {
    builders: Vec<RepDefBuilder>,
    inputs: Vec<Vec<LayerIn>>,
    input_ok: bool,
    pages: Vec<Page>,
}

fn guard<T>(f: impl FnOnce() -> T) -> Option<T> {
    match catch_unwind(AssertUnwindSafe(f)) {
        Ok(v) => Some(v),
        Err(e) => {
            if std::env::var("C27_SHOW_PANICS").is_ok() {
                let msg = e
                    .downcast_ref::<String>()
                    .cloned()
                    .or_else(|| e.downcast_ref::<&str>().map(|s| s.to_string()))
                    .unwrap_or_else(|| "?".into());
                eprintln!("panic: {msg}");
            }
            None
        }
    }
}

struct C27 {
    small: Vec<Vec<LayerIn>>,
    rt: tokio::runtime::Runtime,
}

struct CwOut {
    line: String,
    rep_back: Option<Vec<u16>>,
    def_back: Option<Vec<u16>>,
    new_rows: usize,
    visible: usize,
}

fn run_cw(rep: Option<&[u16]>, max_rep: u16, def: Option<&[u16]>, max_def: u16, mvd: u16, n: usize) -> CwOut {
    let mut it = build_control_word_iterator(rep, max_rep, def, max_def, mvd, n);
    let bpw = it.bytes_per_word();
    let br = it.bits_rep();
    let bd = it.bits_def();
    let has_rep = it.has_repetition();
    let mut buf: Vec<u8> = vec![];
    let mut desc = String::new();
    let mut new_rows = 0;
    let mut visible = 0;
    let count = match (rep, def) {
        (Some(r), Some(d)) => r.len().min(d.len()),
        (Some(r), None) => r.len(),
        (None, Some(d)) => d.len(),
        (None, None) => n,
    };
    for _ in 0..count {
        let d = it.append_next(&mut buf).expect("control word");
        let code = (d.is_new_row as u8) * 4 + (d.is_visible as u8) * 2 + (d.is_valid_item as u8);
        desc.push(char::from(b'0' + code));
        new_rows += d.is_new_row as usize;
        visible += d.is_visible as usize;
    }
    let parser = ControlWordParser::new(br, bd);
    let mut rep_back: Vec<u16> = vec![];
    let mut def_back: Vec<u16> = vec![];
    let mut pdesc = String::new();
    if bpw > 0 {
        for chunk in buf.chunks_exact(bpw) {
            parser.parse(chunk, &mut rep_back, &mut def_back);
            let d = parser.parse_desc(chunk, max_rep, mvd);
            let code = (d.is_new_row as u8) * 4 + (d.is_visible as u8) * 2 + (d.is_valid_item as u8);
            pdesc.push(char::from(b'0' + code));
        }
    }
    let hex: String = buf.iter().map(|b| format!("{b:02x}")).collect();
    let line = format!(
        "bpw={} br={} bd={} hasrep={} pbpw={} phasrep={} bytes={} desc={} prep={} pdef={} pdesc={}",
        bpw,
        br,
        bd,
        has_rep as u8,
        parser.bytes_per_word(),
        parser.has_rep() as u8,
        if hex.is_empty() { "-".to_string() } else { hex },
        if desc.is_empty() { "-".to_string() } else { desc },
        show_nat_list(rep_back.iter().map(|x| *x as u64)),
        show_nat_list(def_back.iter().map(|x| *x as u64)),
        if pdesc.is_empty() { "-".to_string() } else { pdesc },
    );
    CwOut {
        line,
        rep_back: if br > 0 { Some(rep_back) } else { None },
        def_back: if bd > 0 { Some(def_back) } else { None },
        new_rows,
        visible,
    }
}

fn parse_shape(s: &str) -> Option<Vec<(char, usize)>> {
    s.split('.')
        .map(|t| {
            let mut cs = t.chars();
            let k = cs.next()?;
            let rest: String = cs.collect();
            match k {
                'v' | 'l' if rest.is_empty() => Some((k, 0)),
                'f' => Some(('f', rest.parse().ok()?)),
                _ => None,
            }
        })
        .collect()
}

impl C27 {
    fn exec_line(&self, st: &mut St, line: &str, li: usize, res: &mut CaseResult) -> String {
        let toks: Vec<&str> = line.split_whitespace().collect();
        let fail = |res: &mut CaseResult, key: &str, what: String| {
            res.failures.push(OracleFailure { what, key: Some(key.into()), line: li });
        };
        match toks.as_slice() {
            ["new"] => {
                *st = St::default();
                st.builders.push(RepDefBuilder::default());
                st.inputs.push(vec![]);
                st.input_ok = true;
                "ok".into()
            }
            ["nb"] => {
                st.builders.push(RepDefBuilder::default());
                st.inputs.push(vec![]);
                "ok".into()
            }
            ["val", bits] => {
                let (Some(bits), Some(b)) = (parse_bits(bits), st.builders.last_mut()) else { return "bad-op".into() };
                let n = bits.len();
                let r = guard(|| b.add_validity_bitmap(nullbuf(&bits)));
                st.inputs.last_mut().unwrap().push(LayerIn::Val(Some(bits), n));
                match r {
                    Some(()) => "ok".into(),
                    None => {
                        st.input_ok = false;
                        "panic".into()
                    }
                }
            }
            ["nonull", n] => {
                let (Ok(n), Some(b)) = (n.parse::<usize>(), st.builders.last_mut()) else { return "bad-op".into() };
                let r = guard(|| b.add_no_null(n));
                st.inputs.last_mut().unwrap().push(LayerIn::Val(None, n));
                match r {
                    Some(()) => "ok".into(),
                    None => {
                        st.input_ok = false;
                        "panic".into()
                    }
                }
            }
            ["off", base, lens, bits] => {
                let (Ok(base), Some(lens), Some(v), Some(b)) =
                    (base.parse::<i64>(), parse_nat_list(lens), parse_opt_bits(bits), st.builders.last_mut())
                else {
                    return "bad-op".into();
                };
                let mut offs: Vec<i64> = vec![base];
                for l in &lens {
                    offs.push(offs.last().unwrap() + *l as i64);
                }
                // alternate between i32 and i64 offsets (both are cast to i64 by add_offsets)
                let use32 = (lens.len() + base as usize) % 2 == 0 && *offs.last().unwrap() < i32::MAX as i64;
                let vb = v.as_ref().map(|v| nullbuf(v));
                let r = guard(|| {
                    if use32 {
                        let o = OffsetBuffer::<i32>::new(ScalarBuffer::from(offs.iter().map(|x| *x as i32).collect::<Vec<i32>>()));
                        b.add_offsets(o, vb)
                    } else {
                        let o = OffsetBuffer::<i64>::new(ScalarBuffer::from(offs.clone()));
                        b.add_offsets(o, vb)
                    }
                });
                // oracle: has_garbage_values iff some null list has a non-zero length
                let exp_garbage = match &v {
                    Some(v) => lens.iter().zip(v.iter()).any(|(l, ok)| !*ok && *l != 0),
                    None => false,
                };
                st.inputs.last_mut().unwrap().push(LayerIn::Off { base, lens, v });
                match r {
                    Some(g) => {
                        if g != exp_garbage {
                            fail(res, "garbage_flag", format!("add_offsets returned has_garbage={g}, expected {exp_garbage}"));
                        }
                        format!("garbage={}", g as u8)
                    }
                    None => {
                        st.input_ok = false;
                        "panic".into()
                    }
                }
            }
            ["fsl", bits, dim, n] => {
                let (Some(v), Ok(dim), Ok(n), Some(b)) =
                    (parse_opt_bits(bits), dim.parse::<usize>(), n.parse::<usize>(), st.builders.last_mut())
                else {
                    return "bad-op".into();
                };
                let vb = v.as_ref().map(|v| nullbuf(v));
                let r = guard(|| b.add_fsl(vb, dim, n));
                st.inputs.last_mut().unwrap().push(LayerIn::Fsl { v, dim, n });
                match r {
                    Some(()) => "ok".into(),
                    None => {
                        st.input_ok = false;
                        "panic".into()
                    }
                }
            }
            ["ser"] => {
                if st.builders.is_empty() {
                    return "bad-op".into();
                }
                let builders = std::mem::take(&mut st.builders);
                let inputs = std::mem::take(&mut st.inputs);
                let input_ok = st.input_ok;
                let r: Option<SerializedRepDefs> = guard(|| RepDefBuilder::serialize(builders));
                match r {
                    None => {
                        res.tags.push("ser:panic".into());
                        if input_ok && !inputs.iter().any(|s| s.is_empty()) {
                            if let Some(comb) = combine_inputs(&inputs) {
                                if normal_form(&comb).is_some() {
                                    let rows: usize = inputs
                                        .iter()
                                        .map(|s| match s.first() {
                                            Some(LayerIn::Val(_, n)) => *n,
                                            Some(LayerIn::Off { lens, .. }) => lens.len(),
                                            Some(LayerIn::Fsl { n, .. }) => *n,
                                            None => 0,
                                        })
                                        .sum();
                                    let key = if rows == 0 { "zero_rows" } else { "serialize_panic" };
                                    fail(res, key, "RepDefBuilder::serialize panicked on a well-formed layer stack".into());
                                }
                            }
                        }
                        "panic".into()
                    }
                    Some(s) => {
                        let page = Page {
                            rep: s.repetition_levels.as_ref().map(|r| r.to_vec()),
                            def: s.definition_levels.as_ref().map(|r| r.to_vec()),
                            meaning: s.def_meaning.clone(),
                            mvl: s.max_visible_level,
                            input: if input_ok { Some(inputs) } else { None },
                        };
                        // oracle: def_meaning names the right nullness / emptiness per layer
                        if let Some(inp) = &page.input {
                            let zero = page_rows(&page) == Some(0);
                            if combine_inputs(inp).map(|c| normal_form(&c).is_some()).unwrap_or(false) {
                                if let Some(exp) = expected_meaning(inp) {
                                    if exp != page.meaning {
                                        fail(
                                            res,
                                            if zero { "zero_rows" } else { "def_meaning" },
                                            format!("def_meaning {} expected {}", meaning_str(&page.meaning), meaning_str(&exp)),
                                        );
                                    }
                                }
                                if let (Some(r), Some(d)) = (&page.rep, &page.def) {
                                    if r.len() != d.len() {
                                        fail(res, "level_lengths", format!("{} rep levels but {} def levels", r.len(), d.len()));
                                    }
                                }
                                // oracle: max_visible_level counts exactly the def levels below the first list
                                if let Some(exp) = expected_mvl(inp) {
                                    if !zero && exp != page.mvl {
                                        fail(
                                            res,
                                            "max_visible_level",
                                            format!("max_visible_level {:?}, but {:?} def levels lie below the first list", page.mvl, exp),
                                        );
                                    }
                                }
                            }
                        }
                        for m in &page.meaning {
                            res.tags.push(format!("meaning:{}", di_code(m)));
                        }
                        let out = format!(
                            "rep={} def={} m={} mvl={}",
                            levels_str(&page.rep),
                            levels_str(&page.def),
                            meaning_str(&page.meaning),
                            page.mvl.map(|x| x.to_string()).unwrap_or_else(|| "none".into())
                        );
                        st.pages.push(page);
                        st.builders.push(RepDefBuilder::default());
                        st.inputs.push(vec![]);
                        st.input_ok = true;
                        out
                    }
                }
            }
            ["unr", shape, nums] => {
                let (Some(shape), Some(nums)) = (parse_shape(shape), parse_nat_list(nums)) else { return "bad-op".into() };
                if nums.len() != st.pages.len() || st.pages.is_empty() {
                    return "bad-op".into();
                }
                let unravelers: Vec<RepDefUnraveler> = st
                    .pages
                    .iter()
                    .zip(nums.iter())
                    .map(|(p, n)| RepDefUnraveler::new(p.rep.clone(), p.def.clone(), Arc::from(p.meaning.clone()), *n))
                    .collect();
                let total: usize = nums.iter().sum::<u64>() as usize;
                let r = guard(|| {
                    let mut comp = CompositeRepDefUnraveler::new(unravelers);
                    let mut out: Vec<Unr> = vec![];
                    for (k, dim) in &shape {
                        match k {
                            'v' => out.push(Unr::V(comp.unravel_validity(total).map(|v| v.iter().collect()), 0)),
                            'f' => out.push(Unr::V(comp.unravel_fsl_validity(total, *dim).map(|v| v.iter().collect()), 0)),
                            _ => match comp.unravel_offsets::<i64>() {
                                Ok((o, v)) => out.push(Unr::O(
                                    o.iter().map(|x| *x as u64).collect(),
                                    v.map(|v| v.iter().collect()),
                                )),
                                Err(_) => return Err(()),
                            },
                        }
                    }
                    Ok(out)
                });
                let pages: Vec<&Page> = st.pages.iter().collect();
                let exp = expected_unravel(&pages);
                let shape_matches = exp.as_ref().map(|e| {
                    e.len() == shape.len()
                        && e.iter().zip(shape.iter()).all(|(u, (k, _))| matches!((u, k), (Unr::V(..), 'v') | (Unr::V(..), 'f') | (Unr::O(..), 'l')))
                });
                match r {
                    Some(Ok(got)) => {
                        res.tags.push("unr:ok".into());
                        if let (Some(exp), Some(true)) = (&exp, shape_matches) {
                            let eq = |exp: &[Unr], got: &[Unr]| {
                                exp.len() == got.len()
                                    && exp.iter().zip(got.iter()).all(|(a, b)| match (a, b) {
                                        (Unr::V(x, _), Unr::V(y, _)) => x == y,
                                        (Unr::O(o1, v1), Unr::O(o2, v2)) => o1 == o2 && v1 == v2,
                                        _ => false,
                                    })
                            };
                            let same = if st.pages.len() == 1 {
                                // one page: exact, including which validity buffers are absent
                                eq(exp, &got)
                            } else {
                                // several pages: a page without a validity buffer next to one with a buffer is
                                // materialised; slots under a null ancestor are unobservable, so compare what a
                                // reader can observe (and which buffers are absent altogether)
                                let e: Vec<Unr> = exp.iter().rev().cloned().collect();
                                let g: Vec<Unr> = got.iter().rev().cloned().collect();
                                eq(&canon(&e), &canon(&g))
                                    && exp.iter().zip(got.iter()).all(|(a, b)| match (a, b) {
                                        (Unr::V(x, _), Unr::V(y, _)) => x.is_some() == y.is_some(),
                                        (Unr::O(_, x), Unr::O(_, y)) => x.is_some() == y.is_some(),
                                        _ => false,
                                    })
                            };
                            if !same {
                                let zero = st.pages.iter().any(|p| page_rows(p) == Some(0));
                                let key = if zero {
                                    "zero_rows"
                                } else if st.pages.len() > 1 {
                                    "composite_roundtrip"
                                } else {
                                    "roundtrip"
                                };
                                fail(
                                    res,
                                    key,
                                    format!(
                                        "unravel gave {} but the logical structure is {}",
                                        got.iter().map(show_unr).collect::<Vec<_>>().join(" "),
                                        exp.iter().map(show_unr).collect::<Vec<_>>().join(" ")
                                    ),
                                );
                            }
                        }
                        got.iter().map(show_unr).collect::<Vec<_>>().join(" ")
                    }
                    Some(Err(())) => "err".into(),
                    None => {
                        res.tags.push("unr:panic".into());
                        if let (Some(_), Some(true)) = (&exp, shape_matches) {
                            let has_fsl = shape.iter().any(|(k, _)| *k == 'f');
                            let has_list = shape.iter().any(|(k, _)| *k == 'l');
                            let zero = st.pages.iter().any(|p| page_rows(p) == Some(0));
                            let key = if zero {
                                "zero_rows"
                            } else if has_fsl && has_list {
                                "fsl_with_list_unsupported"
                            } else if st.pages.len() > 1 {
                                "composite_unravel_panic"
                            } else {
                                "unravel_panic"
                            };
                            fail(res, key, "unravel panicked on the levels of a well-formed layer stack".into());
                        }
                        "panic".into()
                    }
                }
            }
            ["cw"] => {
                let Some(p) = st.pages.last() else { return "bad-op".into() };
                let max_rep = p.rep.as_ref().map_or(0, |r| r.iter().max().copied().unwrap_or(0));
                let max_def = p.def.as_ref().map_or(0, |r| r.iter().max().copied().unwrap_or(0));
                let mvd = p.mvl.unwrap_or(u16::MAX);
                let n = p.rep.as_ref().map(|r| r.len()).or(p.def.as_ref().map(|d| d.len())).unwrap_or(3);
                let (rep, def) = (p.rep.clone(), p.def.clone());
                match guard(|| run_cw(rep.as_deref(), max_rep, def.as_deref(), max_def, mvd, n)) {
                    Some(o) => {
                        // oracle: parse ∘ build = id on the levels
                        let rep_ok = match (&p.rep, &o.rep_back) {
                            (Some(a), Some(b)) => a == b,
                            (Some(a), None) => a.iter().all(|x| *x == 0),
                            (None, _) => true,
                        };
                        let def_ok = match (&p.def, &o.def_back) {
                            (Some(a), Some(b)) => a == b,
                            (Some(a), None) => a.iter().all(|x| *x == 0),
                            (None, _) => true,
                        };
                        if !rep_ok || !def_ok {
                            fail(res, "control_word_roundtrip", format!("control words of page do not parse back: {}", o.line));
                        }
                        // oracle: new-row flags count the rows, visible flags count the items
                        if let Some(inp) = &p.input {
                            if p.rep.is_some() {
                                let rows: usize = inp
                                    .iter()
                                    .map(|s| match s.first() {
                                        Some(LayerIn::Val(_, n)) => *n,
                                        Some(LayerIn::Off { lens, .. }) => lens.len(),
                                        Some(LayerIn::Fsl { n, .. }) => *n,
                                        None => 0,
                                    })
                                    .sum();
                                if combine_inputs(inp).map(|c| normal_form(&c).is_some()).unwrap_or(false) && o.new_rows != rows {
                                    fail(res, "cw_new_rows", format!("{} control words flagged new-row, {} rows", o.new_rows, rows));
                                }
                                let _ = o.visible;
                            }
                        }
                        res.tags.push(format!("cw:bits{}", o.line.split_whitespace().next().unwrap_or("")));
                        o.line
                    }
                    None => "panic".into(),
                }
            }
            ["cwraw", maxrep, maxdef, mvd, rep, def, rest @ ..] => {
                let (Ok(maxrep), Ok(maxdef), Ok(mvd), Some(rep), Some(def)) = (
                    maxrep.parse::<u16>(),
                    maxdef.parse::<u16>(),
                    mvd.parse::<u16>(),
                    parse_opt_levels(rep),
                    parse_opt_levels(def),
                ) else {
                    return "bad-op".into();
                };
                let n = rest.first().and_then(|x| x.parse::<usize>().ok()).unwrap_or(0);
                match guard(|| run_cw(rep.as_deref(), maxrep, def.as_deref(), maxdef, mvd, n)) {
                    Some(o) => {
                        let fits = rep.as_ref().map_or(true, |r| r.iter().all(|x| *x <= maxrep))
                            && def.as_ref().map_or(true, |r| r.iter().all(|x| *x <= maxdef));
                        let same_len = match (&rep, &def) {
                            (Some(r), Some(d)) => r.len() == d.len(),
                            _ => true,
                        };
                        if fits && same_len {
                            let rep_ok = match (&rep, &o.rep_back) {
                                (Some(a), Some(b)) => a == b,
                                (Some(a), None) => a.iter().all(|x| *x == 0),
                                (None, _) => true,
                            };
                            let def_ok = match (&def, &o.def_back) {
                                (Some(a), Some(b)) => a == b,
                                (Some(a), None) => a.iter().all(|x| *x == 0),
                                (None, _) => true,
                            };
                            if !rep_ok || !def_ok {
                                fail(res, "control_word_roundtrip", format!("control words do not parse back: {}", o.line));
                            }
                        }
                        res.tags.push(format!("cwraw:{}", o.line.split_whitespace().next().unwrap_or("")));
                        o.line
                    }
                    None => {
                        // levels below 2^15 that fit their maxima must pack and parse without a panic
                        let fits = rep.as_ref().map_or(true, |r| r.iter().all(|x| *x <= maxrep))
                            && def.as_ref().map_or(true, |r| r.iter().all(|x| *x <= maxdef));
                        if fits && maxrep < 32768 && maxdef < 32768 {
                            fail(res, "control_word_panic", "packing / parsing control words panicked".into());
                        }
                        "panic".into()
                    }
                }
            }
            ["file", mode] => {
                // mode: m = mini-block, z = full-zip; a trailing p = one page per batch
                let fullzip = mode.starts_with('z');
                let per_batch = mode.ends_with('p');
                let Some(p) = st.pages.last() else { return "bad-op".into() };
                let Some(inp) = p.input.clone() else { return "skip".into() };
                let Some(comb) = combine_inputs(&inp) else { return "skip".into() };
                let Some(nf) = normal_form(&comb) else { return "skip".into() };
                if page_rows(p) == Some(0) || inp.iter().any(|s| s.iter().any(|l| matches!(l, LayerIn::Fsl { .. }))) {
                    return "skip".into();
                }
                // every batch must be buildable (garbage needs a child value to copy)
                let meta = Default::default();
                if inp.iter().any(|s| build_array(s, 0, &meta).is_none()) {
                    return "skip".into();
                }
                // classes recorded as open known findings, decided from the levels of every page written (the driver
                // prints the same marker): with `p` every batch is a page of its own
                let groups: Vec<Vec<Vec<LayerIn>>> =
                    if per_batch { inp.iter().map(|s| vec![s.clone()]).collect() } else { vec![inp.clone()] };
                let mut known: Option<&str> = None;
                for g in &groups {
                    let Some(ser) = guard(|| serialize_stacks(g)) else { continue };
                    let leaf_items: usize = g.iter().map(|s| num_items(s) as usize).sum();
                    let rows: usize = g.iter().map(|s| stack_rows(s)).sum();
                    let n_levels =
                        ser.repetition_levels.as_ref().map(|r| r.len()).or(ser.definition_levels.as_ref().map(|d| d.len())).unwrap_or(0);
                    if fullzip && ser.definition_levels.as_ref().map(|d| d.iter().all(|x| *x == 0)).unwrap_or(false) {
                        known = known.or(Some("fullzip_all_zero_def"));
                    } else if leaf_items == 0 && n_levels > rows {
                        known = known.or(Some("complex_all_null_levels_per_row"));
                    }
                }
                let rt = &self.rt;
                let eq = |a: &[Unr], b: &[Unr]| {
                    a.len() == b.len()
                        && a.iter().zip(b.iter()).all(|(a, b)| match (a, b) {
                            (Unr::V(x, _), Unr::V(y, _)) => x == y,
                            (Unr::O(o1, v1), Unr::O(o2, v2)) => o1 == o2 && v1 == v2,
                            _ => false,
                        })
                };
                match guard(|| file_round_trip(rt, &inp, fullzip, per_batch)) {
                    Some(Some((got, leaf))) => {
                        // compare what a reader can observe: slots under a null ancestor read as null
                        let exp = canon(&materialise(&nf));
                        let got = canon(&got);
                        let leaf_bits = match exp.last() {
                            Some(Unr::V(Some(b), _)) => b.clone(),
                            _ => vec![],
                        };
                        let exp_leaf: Vec<Option<i32>> =
                            leaf_bits.iter().enumerate().map(|(i, b)| if *b { Some(i as i32) } else { None }).collect();
                        let got_leaf: Vec<Option<i32>> = match got.last() {
                            Some(Unr::V(Some(b), _)) if b.len() == leaf.len() => {
                                leaf.iter().zip(b.iter()).map(|(v, ok)| if *ok { *v } else { None }).collect()
                            }
                            _ => leaf.clone(),
                        };
                        let mut shown: Vec<String> = got.iter().rev().map(show_unr).collect();
                        shown.push(format!("L:{}", show_leaf(&got_leaf)));
                        res.tags.push(format!("file:{}", mode));
                        if !eq(&exp, &got) || exp_leaf != got_leaf {
                            let mut e: Vec<String> = exp.iter().rev().map(show_unr).collect();
                            e.push(format!("L:{}", show_leaf(&exp_leaf)));
                            fail(
                                res,
                                known.unwrap_or("file_roundtrip"),
                                format!("the file read back as {} but the array written is {}", shown.join(" "), e.join(" ")),
                            );
                        }
                        match known {
                            Some(k) => format!("known:{k}"),
                            None => shown.join(" "),
                        }
                    }
                    Some(None) => "skip".into(),
                    None => {
                        fail(
                            res,
                            known.unwrap_or("file_roundtrip_panic"),
                            "writing / reading the array through a 2.1 file panicked".into(),
                        );
                        match known {
                            Some(k) => format!("known:{k}"),
                            None => "panic".into(),
                        }
                    }
                }
            }
            ["slice", which, ks] => {
                let (Some(p), Some(ks)) = (st.pages.last(), parse_nat_list(ks)) else { return "bad-op".into() };
                let s = SerializedRepDefs::new(p.rep.clone(), p.def.clone(), p.meaning.clone());
                let levels = if *which == "r" { p.rep.clone() } else { p.def.clone() };
                let r = guard(|| {
                    let slicer = if *which == "r" { s.rep_slicer() } else { s.def_slicer() };
                    let Some(mut slicer) = slicer else { return None };
                    let mut lens: Vec<u64> = vec![];
                    let mut all: Vec<u16> = vec![];
                    for k in &ks {
                        let b = slicer.slice_next(*k as usize);
                        lens.push((b.len() / 2) as u64);
                        all.extend(b.as_ref().chunks_exact(2).map(|c| u16::from_le_bytes([c[0], c[1]])));
                    }
                    let b = slicer.slice_rest();
                    lens.push((b.len() / 2) as u64);
                    all.extend(b.as_ref().chunks_exact(2).map(|c| u16::from_le_bytes([c[0], c[1]])));
                    Some((lens, all))
                });
                match r {
                    Some(Some((lens, all))) => {
                        if Some(&all) != levels.as_ref() {
                            fail(res, "slicer_concat", "the slices do not concatenate to the level buffer".into());
                        }
                        // oracle: each slice_next(k) covers exactly k visible items and stops right after the k-th
                        // (visibility judged by the level's meaning in the layer stack, not by the page's own field)
                        let mvl_indep = p.input.as_ref().and_then(|i| expected_mvl(i)).unwrap_or(p.mvl);
                        if let (Some(def), Some(mvl)) = (&p.def, mvl_indep) {
                            let mut pos = 0usize;
                            for (i, k) in ks.iter().enumerate() {
                                let seg = &def[pos..pos + lens[i] as usize];
                                let vis = seg.iter().filter(|d| **d <= mvl).count() as u64;
                                let last_visible = seg.last().map(|d| *d <= mvl).unwrap_or(true);
                                if vis != *k || (*k > 0 && !last_visible) {
                                    fail(res, "slicer_visible", format!("slice_next({k}) returned {vis} visible items"));
                                }
                                pos += lens[i] as usize;
                            }
                        }
                        res.tags.push("slice:ok".into());
                        format!("lens={}", show_nat_list(lens))
                    }
                    Some(None) => "none".into(),
                    None => {
                        res.tags.push("slice:panic".into());
                        // asking for no more values than the page has items must not run out of levels
                        if let Some(inp) = &p.input {
                            let items: u64 = inp.iter().map(|s| num_items(s)).sum();
                            let aligned = combine_inputs(inp).map(|c| normal_form(&c).is_some()).unwrap_or(false);
                            if aligned && page_rows(p) != Some(0) && ks.iter().sum::<u64>() <= items && levels.is_some() {
                                fail(res, "slicer_panic", format!("slice_next panicked although only {} of {} values were requested", ks.iter().sum::<u64>(), items));
                            }
                        }
                        "panic".into()
                    }
                }
            }
            _ => "bad-op".into(),
        }
    }
}

// ---------- generators ----------

#[derive(Clone, Copy, PartialEq, Debug)]
enum Kind {
    V,
    L,
}

/// all stacks of a given shape with `rows` top-level rows, list lengths <= max_len, every validity pattern;
/// `opt[k]`: layer k has a validity buffer.  Stacks outside the caller contract are skipped.
fn enumerate(shape: &[Kind], opt: &[bool], rows: usize, max_len: u64, garbage: bool, out: &mut Vec<Vec<LayerIn>>) {
    fn rec(
        shape: &[Kind],
        opt: &[bool],
        k: usize,
        slots: usize,
        max_len: u64,
        garbage: bool,
        cur: &mut Vec<LayerIn>,
        out: &mut Vec<Vec<LayerIn>>,
    ) {
        if k == shape.len() {
            if normal_form(cur).is_some() {
                out.push(cur.clone());
            }
            return;
        }
        let bit_patterns: Vec<Option<Vec<bool>>> = if opt[k] {
            (0..(1u32 << slots)).map(|m| Some((0..slots).map(|i| m & (1 << i) != 0).collect())).collect()
        } else {
            vec![None]
        };
        match shape[k] {
            Kind::V => {
                for bp in bit_patterns {
                    cur.push(LayerIn::Val(bp, slots));
                    rec(shape, opt, k + 1, slots, max_len, garbage, cur, out);
                    cur.pop();
                }
            }
            Kind::L => {
                let nl = (max_len + 1) as usize;
                let combos = nl.pow(slots as u32);
                for bp in bit_patterns {
                    for c in 0..combos {
                        let mut x = c;
                        let mut lens = vec![];
                        for _ in 0..slots {
                            lens.push((x % nl) as u64);
                            x /= nl;
                        }
                        // without `garbage`, null lists are only generated with length 0
                        if !garbage {
                            if let Some(v) = &bp {
                                if lens.iter().zip(v.iter()).any(|(l, ok)| !*ok && *l != 0) {
                                    continue;
                                }
                            }
                        }
                        let total: u64 = match &bp {
                            Some(v) => lens.iter().zip(v.iter()).map(|(l, ok)| if *ok { *l } else { 0 }).sum(),
                            None => lens.iter().sum(),
                        };
                        cur.push(LayerIn::Off { base: 0, lens, v: bp.clone() });
                        rec(shape, opt, k + 1, total as usize, max_len, garbage, cur, out);
                        cur.pop();
                    }
                }
            }
        }
    }
    let mut cur = vec![];
    rec(shape, opt, 0, rows, max_len, garbage, &mut cur, out);
}

fn stack_lines(stack: &[LayerIn]) -> Vec<String> {
    stack
        .iter()
        .map(|l| match l {
            LayerIn::Val(Some(v), _) => format!("val {}", bits_str(v)),
            LayerIn::Val(None, n) => format!("nonull {n}"),
            LayerIn::Off { base, lens, v } => {
                format!("off {} {} {}", base, show_nat_list(lens.iter().copied()), opt_bits_str(v))
            }
            LayerIn::Fsl { v, dim, n } => format!("fsl {} {} {}", opt_bits_str(v), dim, n),
        })
        .collect()
}

fn shape_of(stack: &[LayerIn]) -> String {
    stack
        .iter()
        .rev()
        .map(|l| match l {
            LayerIn::Val(..) => "v".to_string(),
            LayerIn::Off { .. } => "l".to_string(),
            LayerIn::Fsl { dim, .. } => format!("f{dim}"),
        })
        .collect::<Vec<_>>()
        .join(".")
}

/// number of items of the innermost layer (what the decoder passes as num_items)
fn num_items(stack: &[LayerIn]) -> u64 {
    match stack.last() {
        Some(LayerIn::Val(_, n)) => *n as u64,
        Some(LayerIn::Off { lens, .. }) => lens.len() as u64,
        Some(LayerIn::Fsl { dim, n, .. }) => (*dim * *n) as u64,
        None => 0,
    }
}

fn random_stack(rng: &mut Rng, depth_max: usize, rows_max: usize, allow_fsl: bool) -> Vec<LayerIn> {
    // fixed-size-list layers only in list-free stacks (decimate is todo!() when rep levels exist)
    let depth = 1 + rng.usize(depth_max);
    let mut stack = vec![];
    let mut slots = rng.usize(rows_max + 1);
    if slots == 0 && rng.chance(3, 4) {
        slots = 1 + rng.usize(rows_max.max(1));
    }
    // live mask, to honour the push-down contract
    let mut mask = vec![true; slots];
    let null_pct = *rng.pick(&[0u64, 10, 30, 60, 100]);
    let empty_pct = *rng.pick(&[0u64, 10, 30, 60]);
    for k in 0..depth {
        let last = k + 1 == depth;
        let r = rng.below(10);
        let kind = if last {
            'v'
        } else if allow_fsl && r < 4 {
            'f'
        } else if r < 6 && !allow_fsl {
            'l'
        } else {
            'v'
        };
        let with_validity = rng.chance(2, 3);
        let bits: Option<Vec<bool>> = if with_validity {
            Some((0..slots).map(|_| !rng.chance(null_pct, 100)).collect())
        } else {
            None
        };
        match kind {
            'v' => {
                if let Some(b) = &bits {
                    mask = mask.iter().zip(b.iter()).map(|(a, b)| *a && *b).collect();
                }
                stack.push(LayerIn::Val(bits, slots));
            }
            'f' => {
                let dim = 1 + rng.usize(3);
                if let Some(b) = &bits {
                    mask = mask.iter().zip(b.iter()).map(|(a, b)| *a && *b).collect();
                }
                stack.push(LayerIn::Fsl { v: bits, dim, n: slots });
                mask = mask.iter().flat_map(|b| std::iter::repeat(*b).take(dim)).collect();
                slots *= dim;
            }
            _ => {
                let garbage = rng.chance(1, 4);
                let mut lens = vec![];
                let mut total = 0u64;
                for i in 0..slots {
                    let valid = bits.as_ref().map(|b| b[i]).unwrap_or(true);
                    let mut len = if rng.chance(empty_pct, 100) { 0 } else { 1 + rng.below(3) };
                    if !valid && !garbage {
                        len = 0;
                    }
                    if valid && !mask[i] {
                        len = 0; // pushed-down null struct: the list may stay valid but must be empty
                    }
                    if valid {
                        total += len;
                    }
                    lens.push(len);
                }
                let base = if rng.chance(1, 5) { rng.below(7) as i64 } else { 0 };
                stack.push(LayerIn::Off { base, lens, v: bits });
                slots = total as usize;
                mask = vec![true; slots];
            }
        }
    }
    stack
}


fn all_small(max_rows: usize, max_len: u64) -> Vec<Vec<LayerIn>> {
    use Kind::*;
    let shapes: Vec<Vec<Kind>> = vec![
        vec![V],
        vec![V, V],
        vec![L, V],
        vec![V, V, V],
        vec![V, L, V],
        vec![L, V, V],
        vec![L, L, V],
    ];
    let mut out = vec![];
    for rows in 0..=max_rows {
        for shape in &shapes {
            let d = shape.len();
            for optm in 0..(1u32 << d) {
                let opt: Vec<bool> = (0..d).map(|i| optm & (1 << i) != 0).collect();
                let before = out.len();
                enumerate(shape, &opt, rows, max_len, rows <= 2, &mut out);
                // cap the biggest families: keep every 3rd case beyond 4000
                if out.len() - before > 4000 {
                    let tail: Vec<Vec<LayerIn>> = out.drain(before..).collect();
                    out.extend(tail.into_iter().enumerate().filter(|(i, _)| i % 3 == 0).map(|(_, s)| s));
                }
            }
        }
    }
    out
}

impl Prop for C27 {
    fn id(&self) -> &'static str {
        "C27"
    }
    fn budget(&self, tier: Tier) -> usize {
        match tier {
            Tier::Quick => 12000,
            Tier::Thorough => 150000,
            Tier::Search => 40000,
        }
    }
    fn gen_case(&mut self, rng: &mut Rng, tier: Tier, idx: usize) -> Vec<String> {
        if self.small.is_empty() {
            self.small = match tier {
                Tier::Quick => all_small(2, 2),
                Tier::Thorough => all_small(3, 2),
                Tier::Search => all_small(2, 2),
            };
        }
        let n_small = match tier {
            Tier::Quick => 7000,
            Tier::Thorough => 100000,
            Tier::Search => 10000,
        };
        let mut lines = vec!["new".to_string()];
        if idx < n_small && !self.small.is_empty() {
            // spread evenly over the enumeration when it is larger than the quota
            let total = self.small.len();
            let pos = if total <= n_small { idx % total } else { (idx as u128 * total as u128 / n_small as u128) as usize };
            if total > n_small || idx < total {
                let s = &self.small[pos];
                lines.extend(stack_lines(s));
                lines.push("ser".into());
                lines.push(format!("unr {} {}", shape_of(s), num_items(s)));
                lines.push("cw".into());
                if idx % 4 == 0 {
                    lines.push(if idx % 8 == 0 { "file m".into() } else { "file z".into() });
                }
                return lines;
            }
        }
        if idx % 300 == 7 {
            // a page of several mini-block chunks (> 4096 items): list<struct?<int?>> with null structs inside the lists
            // (sometimes under a nullable outer struct), through the real writer / reader
            let rows = 1200 + rng.usize(300);
            let outer_struct = rng.chance(1, 3);
            let list_nulls = rng.chance(1, 2);
            let mut stack = vec![];
            let outer_bits: Vec<bool> = (0..rows).map(|_| !rng.chance(1, 20)).collect();
            if outer_struct {
                stack.push(LayerIn::Val(Some(outer_bits.clone()), rows));
            }
            let lbits: Option<Vec<bool>> = if list_nulls || outer_struct {
                Some((0..rows).map(|i| (!outer_struct || outer_bits[i]) && !rng.chance(1, 15)).collect())
            } else {
                None
            };
            let mut lens = vec![];
            let mut total = 0usize;
            for i in 0..rows {
                let valid = lbits.as_ref().map(|b| b[i]).unwrap_or(true);
                let len = if !valid { 0 } else if rng.chance(1, 12) { 0 } else { 3 + rng.below(6) };
                total += len as usize;
                lens.push(len);
            }
            stack.push(LayerIn::Off { base: 0, lens, v: lbits });
            // null structs from the very first chunk on
            let sbits: Vec<bool> = (0..total).map(|i| !(i % 7 == 3 || rng.chance(1, 10))).collect();
            stack.push(LayerIn::Val(Some(sbits), total));
            let leaf: Option<Vec<bool>> = if rng.chance(1, 2) { Some((0..total).map(|_| !rng.chance(1, 8)).collect()) } else { None };
            stack.push(LayerIn::Val(leaf, total));
            lines.extend(stack_lines(&stack));
            lines.push("ser".into());
            lines.push(format!("unr {} {}", shape_of(&stack), num_items(&stack)));
            let t = total as u64;
            let k1 = t.min(1000);
            let k2 = (t - k1).min(3096);
            let k3 = (t - k1 - k2).min(500);
            lines.push(format!("slice d {}", show_nat_list([k1, k2, k3])));
            lines.push("file m".into());
            lines.push("file z".into());
            return lines;
        }
        let kind = rng.below(100);
        if kind < 12 {
            // raw control words over every width
            let with_rep = rng.chance(3, 4);
            let with_def = rng.chance(3, 4);
            let br = if with_rep { rng.range(1, 15) } else { 0 };
            let bd = if with_def { rng.range(1, 15) } else { 0 };
            let maxrep: u64 = if br == 0 { 0 } else { rng.range(1 << (br - 1), (1 << br) - 1) };
            let maxdef: u64 = if bd == 0 { 0 } else { rng.range(1 << (bd - 1), (1 << bd) - 1) };
            let n = rng.usize(6);
            let lv = |max: u64, rng: &mut Rng| -> String {
                let v: Vec<u64> = (0..n)
                    .map(|_| match rng.below(4) {
                        0 => max,
                        1 => 0,
                        _ => rng.below(max + 1),
                    })
                    .collect();
                show_nat_list(v)
            };
            let rep = if with_rep { lv(maxrep, rng) } else { "none".into() };
            let def = if with_def { lv(maxdef, rng) } else { "none".into() };
            let mvd = rng.below(maxdef + 2);
            lines.push(format!("cwraw {maxrep} {maxdef} {mvd} {rep} {def} {n}"));
            return lines;
        }
        if kind < 20 {
            // malformed: a layer whose length does not line up (the builder asserts)
            let mut s = random_stack(rng, 3, 4, false);
            let k = rng.usize(s.len());
            match &mut s[k] {
                LayerIn::Val(Some(v), n) => {
                    v.push(true);
                    *n += 1;
                }
                LayerIn::Val(None, n) => *n += 1 + rng.usize(2),
                LayerIn::Off { lens, v, .. } => {
                    lens.push(1);
                    if let Some(v) = v {
                        v.push(true);
                    }
                }
                LayerIn::Fsl { n, .. } => *n += 1,
            }
            lines.extend(stack_lines(&s));
            if k == 0 && s.len() == 1 {
                lines.push("ser".into());
            }
            return lines;
        }
        let pages = if kind < 45 { 2 + rng.usize(2) } else { 1 };
        let allow_fsl = kind >= 90;
        let first = random_stack(rng, 4, if pages > 1 { 4 } else { 7 }, allow_fsl);
        let mut nums = vec![num_items(&first)];
        lines.extend(stack_lines(&first));
        if pages == 1 && rng.chance(1, 5) && !allow_fsl {
            // a second builder of the same shape serialised into the same page
            if let Some(s2) = same_shape_stack(rng, &first) {
                lines.push("nb".into());
                lines.extend(stack_lines(&s2));
                nums[0] += num_items(&s2);
            }
        }
        lines.push("ser".into());
        if pages == 1 && !allow_fsl && rng.chance(1, 2) {
            // the same arrays through a 2.1 file (mini-block / full-zip; `p`: one page per batch)
            let mode = *rng.pick(&["m", "z", "mp", "zp"]);
            lines.push(format!("file {mode}"));
        }
        for _ in 1..pages {
            match same_shape_stack(rng, &first) {
                Some(s) => {
                    lines.extend(stack_lines(&s));
                    lines.push("ser".into());
                    nums.push(num_items(&s));
                }
                None => break,
            }
        }
        lines.push(format!("unr {} {}", shape_of(&first), show_nat_list(nums.iter().copied())));
        lines.push("cw".into());
        if rng.chance(1, 2) {
            let n = nums.last().copied().unwrap_or(0);
            let mut ks = vec![];
            let mut left = n;
            while left > 0 && ks.len() < 3 {
                let k = 1 + rng.below(left);
                if k == left {
                    break;
                }
                ks.push(k);
                left -= k;
            }
            lines.push(format!("slice {} {}", if rng.chance(1, 2) { "r" } else { "d" }, show_nat_list(ks)));
        }
        lines
    }
    fn exec_case(&mut self, lines: &[String]) -> CaseResult {
        let mut res = CaseResult::default();
        let mut st = St::default();
        for (i, l) in lines.iter().enumerate() {
            let o = self.exec_line(&mut st, l, i, &mut res);
            let op = l.split_whitespace().next().unwrap_or("");
            if o == "panic" || o == "bad-op" || o == "err" {
                res.tags.push(format!("{op}:{o}"));
            } else {
                res.tags.push(format!("op:{op}"));
            }
            res.outputs.push(o);
        }
        res.nontrivial = lines.iter().any(|l| l.starts_with("unr") || l.starts_with("cw"));
        res
    }
    fn rule(&self) -> String {
        "first the enumeration of all layer stacks of shape V, VV, LV, VVV, VLV, LVV, LLV (outer to inner; V = validity layer, \
         L = list layer) with every combination of present/absent validity buffers, every validity pattern, list lengths 0..2 \
         (null lists with garbage lengths for <= 2 rows), 0..2 rows (quick) / 0..3 rows (thorough), subsampled evenly when larger \
         than the quota; then seeded random cases: stacks of depth <= 4 and <= 7 rows (null rate 0-100 %, empty rate 0-60 %, sliced \
         offsets, garbage behind null lists, lists under null structs pushed down to empty), 25 % composite (2-3 pages of the same \
         shape), multi-builder pages, 10 % with fixed-size-list layers, 12 % raw control words over all widths 0..15 x 0..15, 8 % \
         malformed (a layer whose length does not line up); every 300th case is a page of several mini-block chunks (1200-1500 rows, \
         > 4096 items) of list<struct?<int?>> with null structs inside the lists from the first chunk on, serialised, unravelled, \
         sliced at chunk-sized steps and written / read through a 2.1 file. Each case serialises (levels, def_meaning, max_visible_level are compared), \
         unravels every layer (offsets and validity are compared), packs and parses control words, slices, and (every 4th enumerated case, half of the random single-page cases) writes the Arrow array the stack stands for through lance_file's 2.1 FileWriter (mini-block or full-zip, optionally one page per batch) and reads it back with FileReader. A case is non-trivial if \
         it reaches an unravel or a control-word op."
            .into()
    }
}

/// another random stack with the same layer kinds (and fsl dimensions) as `like`
fn same_shape_stack(rng: &mut Rng, like: &[LayerIn]) -> Option<Vec<LayerIn>> {
    let mut slots = 1 + rng.usize(4);
    let mut mask = vec![true; slots];
    let mut stack = vec![];
    let null_pct = *rng.pick(&[0u64, 20, 50]);
    let empty_pct = *rng.pick(&[0u64, 20, 50]);
    for l in like {
        let with_validity = rng.chance(1, 2);
        let bits: Option<Vec<bool>> =
            if with_validity { Some((0..slots).map(|_| !rng.chance(null_pct, 100)).collect()) } else { None };
        match l {
            LayerIn::Val(..) => {
                if let Some(b) = &bits {
                    mask = mask.iter().zip(b.iter()).map(|(a, b)| *a && *b).collect();
                }
                stack.push(LayerIn::Val(bits, slots));
            }
            LayerIn::Fsl { dim, .. } => {
                if let Some(b) = &bits {
                    mask = mask.iter().zip(b.iter()).map(|(a, b)| *a && *b).collect();
                }
                stack.push(LayerIn::Fsl { v: bits, dim: *dim, n: slots });
                mask = mask.iter().flat_map(|b| std::iter::repeat(*b).take(*dim)).collect();
                slots *= dim;
            }
            LayerIn::Off { .. } => {
                let mut lens = vec![];
                let mut total = 0u64;
                for i in 0..slots {
                    let valid = bits.as_ref().map(|b| b[i]).unwrap_or(true);
                    let mut len = if rng.chance(empty_pct, 100) { 0 } else { 1 + rng.below(3) };
                    if !valid || !mask[i] {
                        len = 0;
                    }
                    total += len;
                    lens.push(len);
                }
                stack.push(LayerIn::Off { base: 0, lens, v: bits });
                slots = total as usize;
                mask = vec![true; slots];
            }
        }
    }
    Some(stack)
}

fn main() {
    run_main(C27 { small: vec![], rt: tokio::runtime::Builder::new_current_thread().enable_all().build().unwrap() })
}
