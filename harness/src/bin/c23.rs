//! C23: full-text search returns exactly the documents that contain the query's terms under the index's tokenizer.
//!
//! Interpreter of the C23 op lines against the REAL lance code (`Dataset::write`, `create_index(IndexType::Inverted,
//! InvertedIndexParams)`, `optimize_indices`, `Dataset::delete`, `Scanner::full_text_search` with `MatchQuery` (OR / AND),
//! `PhraseQuery` (slop 0) and `BooleanQuery`, `InvertedIndexParams::build` + the tokenizer's token stream), a seeded
//! generator of small-vocabulary corpora with histories, and the property oracle.
//!
//! Op lines (one dataset per case, columns `id: Int64` (0, 1, 2, … in write order) and `t: Utf8`; text form in c23_text.rs):
//!
//! ```text
//! cfg lower=<0|1> fold=<0|1> maxlen=<nat|none> pos=<0|1> [parts=<merge|split>]
//!                                   tokenizer of the case (simple, no stemming, no stop words); `parts=split` runs the case in a
//!                                   child process with LANCE_FTS_TARGET_SIZE=0 (the merger keeps every partition apart: one
//!                                   partition per build / optimize round, of unequal sizes); default merge (one partition)
//! tok <text>                        InvertedIndexParams::build().token_stream_for_doc(text): positions and token texts
//! create <frags>                    Dataset::write(Create) of the first fragment, Append of the others
//! append <frags>                    Dataset::write(Append), one new fragment per group
//! index                             create_index(["t"], Inverted, "t_idx", params of cfg, replace = true)
//! optimize                          optimize_indices(default)
//! delete <natlist>                  Dataset::delete("id IN (…)")
//! compact                           compact_files(target 2^20 rows, materialize_deletions, threshold 0): fragments rewritten, the
//!                                   inverted index REMAPPED (deleted rows dropped, positions kept); at most once per case
//! q <query>                         Scanner::full_text_search(query) without limit; the SET of returned ids
//! top <k> <query>                   the same with FullTextSearchQuery::limit(k); the number of returned rows
//! ```
//! query ::= `mo` text (match, OR) | `ma` text (match, AND) | `ph` text (phrase, slop 0)
//!         | `bo` nmust nshould nmustnot query…   (BooleanQuery; the sub-queries follow in that order)
//!
//! Output: `tok`: `ok <pos>:<text>;…` | `ok -`; `create`/`append`/`delete`: `ok n=<count_rows>`; `index`/`optimize`:
//! `ok docs=<num_docs> toks=<num_tokens> unidx=<num_unindexed_fragments>` (index statistics summed over the partitions; `ok none`
//! without index); `compact`: `ok docs=<num_docs> toks=<num_tokens>`;
//! `q`: `ok <sorted ids>`; `top`: `ok n=<rows>`; `err <kind>` / `err parse` / `panic`.
//!
//! Before the first `index` there is no tokenizer configuration: lance's flat path splits with the bare simple tokenizer
//! (case-sensitive, no filters); model and oracle do the same (the property speaks about the index's tokenizer).
//!
//! Oracle (never looks at the Lean model): every live row is tokenised with the reference tokenizer of c23_text.rs and the
//! query is evaluated by containment (any / all / contiguous sub-sequence; must ∩, should ∪ without must, must_not \); the
//! returned id set must be equal, without duplicates.  Ranking tests (float recomputation, tolerance — tests, not proof):
//! scores come back non-increasing; for match queries on a fully indexed table the returned scores equal the BM25 formula
//! over the index statistics; with limit k the result has min(k, matches) rows, all matching, none worse than an omitted one.

use std::collections::{BTreeMap, BTreeSet};

use arrow_array::cast::AsArray;
use arrow_array::types::{Float32Type, Int64Type};
use hcommon::*;
use lance::dataset::optimize::{compact_files, CompactionOptions};
use lance::Dataset;
use lance_index::optimize::OptimizeOptions;
use lance_index::scalar::inverted::query::{BooleanQuery, FtsQuery, MatchQuery, Occur, Operator, PhraseQuery};
use lance_index::scalar::{FullTextSearchQuery, InvertedIndexParams};
use lance_index::{DatasetIndexExt, IndexType};

#[path = "../tablekit.rs"]
#[allow(dead_code)]
mod tablekit;
use tablekit::{ErrKind, Kit, KitError, KitResult};

#[path = "../c23_text.rs"]
mod c23_text;
use c23_text::*;

const INDEX_NAME: &str = "t_idx";

#[derive(Clone, Debug)]
enum Q {
    Match { and: bool, text: String },
    Phrase(String),
    Bool { must: Vec<Q>, should: Vec<Q>, must_not: Vec<Q> },
}

fn parse_query(toks: &[&str], depth: usize) -> Option<(Q, usize)> {
    if depth > 4 {
        return None;
    }
    match *toks.first()? {
        k @ ("mo" | "ma" | "ph") => {
            let text = parse_text(toks.get(1)?)??;
            Some((if k == "ph" { Q::Phrase(text) } else { Q::Match { and: k == "ma", text } }, 2))
        }
        "bo" => {
            let n: Vec<usize> = toks.get(1..4)?.iter().map(|t| t.parse::<usize>().ok().filter(|v| *v <= 4)).collect::<Option<_>>()?;
            let mut used = 4;
            let mut groups: Vec<Vec<Q>> = vec![];
            for cnt in n {
                let mut g = vec![];
                for _ in 0..cnt {
                    let (q, u) = parse_query(&toks[used..], depth + 1)?;
                    used += u;
                    g.push(q);
                }
                groups.push(g);
            }
            let must_not = groups.pop()?;
            let should = groups.pop()?;
            let must = groups.pop()?;
            Some((Q::Bool { must, should, must_not }, used))
        }
        _ => None,
    }
}

fn parse_full_query(toks: &[&str]) -> Option<Q> {
    let (q, used) = parse_query(toks, 0)?;
    (used == toks.len()).then_some(q)
}

fn show_query(q: &Q) -> String {
    match q {
        Q::Match { and, text } => format!("{} {}", if *and { "ma" } else { "mo" }, show_text(&Some(text.clone()))),
        Q::Phrase(text) => format!("ph {}", show_text(&Some(text.clone()))),
        Q::Bool { must, should, must_not } => {
            let mut s = format!("bo {} {} {}", must.len(), should.len(), must_not.len());
            for q in must.iter().chain(should).chain(must_not) {
                s.push(' ');
                s.push_str(&show_query(q));
            }
            s
        }
    }
}

fn to_fts(q: &Q) -> FtsQuery {
    match q {
        Q::Match { and, text } => FtsQuery::Match(
            MatchQuery::new(text.clone())
                .with_column(Some("t".into()))
                .with_operator(if *and { Operator::And } else { Operator::Or }),
        ),
        Q::Phrase(text) => FtsQuery::Phrase(PhraseQuery::new(text.clone()).with_column(Some("t".into()))),
        Q::Bool { must, should, must_not } => FtsQuery::Boolean(BooleanQuery::new(
            must.iter()
                .map(|q| (Occur::Must, to_fts(q)))
                .chain(should.iter().map(|q| (Occur::Should, to_fts(q))))
                .chain(must_not.iter().map(|q| (Occur::MustNot, to_fts(q))))
                .collect::<Vec<_>>(),
        )),
    }
}

fn has_phrase(q: &Q) -> bool {
    match q {
        Q::Match { .. } => false,
        Q::Phrase(_) => true,
        Q::Bool { must, should, must_not } => must.iter().chain(should).chain(must_not).any(has_phrase),
    }
}

fn valid_bool(q: &Q) -> bool {
    match q {
        Q::Bool { must, should, must_not } => {
            !(must.is_empty() && should.is_empty()) && must.iter().chain(should).chain(must_not).all(valid_bool)
        }
        _ => true,
    }
}

// ------------------------------------------------------------------------------------------------
// the property oracle: containment on reference tokens
// ------------------------------------------------------------------------------------------------

/// `renum` / `blind` switch the two RECORDED deviations of the code on (used only to classify a failure, never to accept one):
/// `renum`: the query tokens of a phrase are numbered 0, 1, 2, … instead of keeping the tokenizer's positions;
/// `blind`: a phrase never matches a row outside the index.
#[derive(Clone, Copy, PartialEq)]
struct Sem {
    renum: bool,
    blind: bool,
}
const SPEC: Sem = Sem { renum: false, blind: false };

fn ref_match(cfg: &Cfg, q: &Q, doc: &[(usize, String)], indexed: bool, sem: Sem) -> bool {
    let words = |text: &str| ref_tokens(cfg, text).into_iter().map(|t| t.1).collect::<Vec<_>>();
    let has = |w: &String| doc.iter().any(|d| &d.1 == w);
    match q {
        Q::Match { and: false, text } => words(text).iter().any(has),
        Q::Match { and: true, text } => {
            let ws = words(text);
            !ws.is_empty() && ws.iter().all(has)
        }
        // the query's token sequence occurs in the document at the same relative positions
        Q::Phrase(text) => {
            let mut qs = ref_tokens(cfg, text);
            if sem.renum {
                qs.iter_mut().enumerate().for_each(|(i, t)| t.0 = i);
            }
            !(sem.blind && !indexed)
                && !qs.is_empty()
                && doc.iter().any(|d0| d0.1 == qs[0].1 && qs.iter().all(|(p, w)| doc.iter().any(|d| d.0 + qs[0].0 == d0.0 + p && &d.1 == w)))
        }
        Q::Bool { must, should, must_not } => {
            let m = |q: &Q| ref_match(cfg, q, doc, indexed, sem);
            let pos = if must.is_empty() { should.iter().any(m) } else { must.iter().all(m) };
            pos && !must_not.iter().any(m)
        }
    }
}

struct Row {
    id: i64,
    text: Option<String>,
    frag: usize,
    deleted: bool,
}

struct St {
    ds: Option<Dataset>,
    uri: String,
    cfg: Cfg,
    rows: Vec<Row>,
    nfrags: usize,
    has_index: bool,
    /// bookkeeping for the oracle's classification and the score recomputation only
    indexed_frags: BTreeSet<usize>,
    index_docs: Vec<i64>,
    /// `num_docs` of the index statistics (documents of a batch without any token are not written)
    index_num_docs: u64,
    /// the case keeps the partitions apart (child process)
    split: bool,
    compacted: bool,
}

struct C23 {
    kit: Kit,
    debug: bool,
    /// this process runs with LANCE_FTS_TARGET_SIZE=0 (partitions kept apart) and serves `parts=split` cases
    is_child: bool,
    child: Option<ChildProc>,
}

/// `parts=split` cases are executed by a child process of the same binary: the partition target size is read once per
/// process (LazyLock), so the two layouts cannot be mixed in one process.
/// Protocol: parent sends the case lines and `END`; child answers `O\t<output>` per line, `F\t<line>\t<key|->\t<what>`,
/// `T\t<tag>`, `N\t<0|1>`, then `END`.
struct ChildProc {
    proc: std::process::Child,
    stdin: std::process::ChildStdin,
    stdout: std::io::BufReader<std::process::ChildStdout>,
}

impl Drop for ChildProc {
    fn drop(&mut self) {
        let _ = self.proc.kill();
        let _ = self.proc.wait();
    }
}

fn spawn_child() -> Option<ChildProc> {
    use std::process::{Command, Stdio};
    let exe = std::env::current_exe().ok()?;
    let mut proc = Command::new(exe)
        .arg("--child")
        .env("LANCE_FTS_TARGET_SIZE", "0")
        .env("LANCE_FTS_NUM_SHARDS", "1")
        .stdin(Stdio::piped())
        .stdout(Stdio::piped())
        .stderr(Stdio::inherit())
        .spawn()
        .ok()?;
    let stdin = proc.stdin.take()?;
    let stdout = std::io::BufReader::new(proc.stdout.take()?);
    Some(ChildProc { proc, stdin, stdout })
}

fn delegate(child: &mut ChildProc, lines: &[String]) -> Option<CaseResult> {
    use std::io::{BufRead, Write};
    for l in lines {
        writeln!(child.stdin, "{l}").ok()?;
    }
    writeln!(child.stdin, "END").ok()?;
    child.stdin.flush().ok()?;
    let mut res = CaseResult::default();
    loop {
        let mut buf = String::new();
        if child.stdout.read_line(&mut buf).ok()? == 0 {
            return None;
        }
        let l = buf.trim_end_matches('\n');
        if l == "END" {
            break;
        }
        let mut it = l.splitn(2, '\t');
        match (it.next()?, it.next().unwrap_or("")) {
            ("O", o) => res.outputs.push(o.to_string()),
            ("T", t) => res.tags.push(t.to_string()),
            ("N", n) => res.nontrivial = n == "1",
            ("F", f) => {
                let mut p = f.splitn(3, '\t');
                let line = p.next()?.parse().ok()?;
                let key = p.next()?;
                let what = p.next().unwrap_or("").to_string();
                res.failures.push(OracleFailure { what, key: if key == "-" { None } else { Some(key.to_string()) }, line });
            }
            _ => return None,
        }
    }
    (res.outputs.len() == lines.len()).then_some(res)
}

fn child_loop(mut p: C23) {
    use std::io::{BufRead, Write};
    std::panic::set_hook(Box::new(|_| {}));
    let stdin = std::io::stdin();
    let mut out = std::io::stdout();
    let mut lines: Vec<String> = vec![];
    for l in stdin.lock().lines() {
        let Ok(l) = l else { break };
        if l != "END" {
            lines.push(l);
            continue;
        }
        let res = match std::panic::catch_unwind(std::panic::AssertUnwindSafe(|| p.exec_case(&lines))) {
            Ok(r) => r,
            Err(_) => CaseResult {
                outputs: lines.iter().map(|_| "panic".to_string()).collect(),
                failures: vec![OracleFailure { what: "implementation panicked (split child)".into(), key: Some("panic".into()), line: 0 }],
                tags: vec!["panic".into()],
                nontrivial: true,
            },
        };
        for o in &res.outputs {
            let _ = writeln!(out, "O\t{o}");
        }
        for f in &res.failures {
            let _ = writeln!(out, "F\t{}\t{}\t{}", f.line, f.key.as_deref().unwrap_or("-"), f.what.replace(['\t', '\n'], " "));
        }
        for t in &res.tags {
            let _ = writeln!(out, "T\t{t}");
        }
        let _ = writeln!(out, "N\t{}", res.nontrivial as u8);
        let _ = writeln!(out, "END");
        let _ = out.flush();
        lines.clear();
    }
}

/// without an inverted index the flat path has no tokenizer configuration to consult: it splits with the bare simple
/// tokenizer (case-sensitive, no length limit, no folding) — `flat_bm25_search_stream`, `index = None`
const RAW: Cfg = Cfg { lower: false, fold: false, maxlen: None, pos: false };

impl St {
    fn eff_cfg(&self) -> Cfg {
        if self.has_index {
            self.cfg
        } else {
            RAW
        }
    }
}

fn params_of(cfg: &Cfg) -> InvertedIndexParams {
    InvertedIndexParams::default()
        .stem(false)
        .remove_stop_words(false)
        .lower_case(cfg.lower)
        .ascii_folding(cfg.fold)
        .max_token_length(cfg.maxlen)
        .with_position(cfg.pos)
}

/// -> (cfg, split)
fn parse_cfg(toks: &[&str]) -> Option<(Cfg, bool)> {
    let split = match toks.len() {
        4 => false,
        5 => match toks[4] {
            "parts=split" => true,
            "parts=merge" => false,
            _ => return None,
        },
        _ => return None,
    };
    let b = |s: &str, k: &str| match s.strip_prefix(k)? {
        "0" => Some(false),
        "1" => Some(true),
        _ => None,
    };
    let maxlen = match toks[2].strip_prefix("maxlen=")? {
        "none" => None,
        v if v.len() <= 4 && !v.is_empty() && v.bytes().all(|c| c.is_ascii_digit()) => Some(v.parse().ok()?),
        _ => return None,
    };
    Some((Cfg { lower: b(toks[0], "lower=")?, fold: b(toks[1], "fold=")?, maxlen, pos: b(toks[3], "pos=")? }, split))
}

fn err_line(e: &KitError) -> String {
    format!("err {}", e.kind.as_str())
}

impl C23 {
    fn tok_line(&self, cfg: &Cfg, text: &str) -> String {
        let mut tk = match params_of(cfg).build() {
            Ok(t) => t,
            Err(_) => return "err other".into(),
        };
        let mut out = vec![];
        let mut st = tk.token_stream_for_doc(text);
        while st.advance() {
            let t = st.token();
            out.push(format!("{}:{}", t.position, show_text(&Some(t.text.clone()))));
        }
        if out.is_empty() {
            "ok -".into()
        } else {
            format!("ok {}", out.join(";"))
        }
    }

    fn write_frags(&self, st: &mut St, frags: &[Vec<Option<String>>], create: bool) -> KitResult<usize> {
        let mut first = create;
        for docs in frags {
            let first_id = st.rows.len() as i64;
            let rd = reader(first_id, docs);
            let params = lance::dataset::WriteParams {
                mode: if first { lance::dataset::WriteMode::Create } else { lance::dataset::WriteMode::Append },
                session: Some(self.kit.session.clone()),
                ..Default::default()
            };
            let ds = self.kit.lance_call("write", Dataset::write(rd, st.uri.as_str(), Some(params)))?;
            st.ds = Some(ds);
            first = false;
            // an empty group writes no fragment
            if !docs.is_empty() {
                for (i, d) in docs.iter().enumerate() {
                    st.rows.push(Row { id: first_id + i as i64, text: d.clone(), frag: st.nfrags, deleted: false });
                }
                st.nfrags += 1;
            }
        }
        self.kit.count_rows(st.ds.as_ref().unwrap(), None)
    }

    /// (num_docs, `docs=… toks=…`, ` unidx=…`) of the index statistics
    fn stats_line(&self, st: &St) -> KitResult<(u64, String, String)> {
        let ds = st.ds.as_ref().unwrap();
        if !st.has_index {
            return Ok((0, "ok none".into(), String::new()));
        }
        let s = self.kit.lance_call("index_statistics", ds.index_statistics(INDEX_NAME))?;
        let v: serde_json::Value = serde_json::from_str(&s).map_err(|e| KitError::other(e.to_string()))?;
        let sum = |k: &str| v["indices"].as_array().map(|a| a.iter().map(|i| i[k].as_u64().unwrap_or(0)).sum::<u64>()).unwrap_or(0);
        Ok((sum("num_docs"), format!("ok docs={} toks={}", sum("num_docs"), sum("num_tokens")), format!(" unidx={}", v["num_unindexed_fragments"].as_u64().unwrap_or(0))))
    }

    fn run_query(&self, ds: &Dataset, q: &Q, limit: Option<i64>) -> KitResult<Vec<(i64, Option<f32>)>> {
        let fq = FullTextSearchQuery::new_query(to_fts(q)).limit(limit);
        self.kit.lance_call("fts", async {
            let mut sc = ds.scan();
            sc.full_text_search(fq)?;
            sc.project(&["id"])?;
            let b = sc.try_into_batch().await?;
            let ids = b.column_by_name("id").expect("id column").as_primitive::<Int64Type>().clone();
            let sc = b.column_by_name("_score").map(|c| c.as_primitive::<Float32Type>().clone());
            Ok((0..b.num_rows()).map(|i| (ids.value(i), sc.as_ref().map(|s| s.value(i)))).collect())
        })
    }

    /// reference BM25 (f64) of a match query over the index statistics; `None` when the table is not fully indexed
    fn ref_scores(&self, st: &St, q: &Q) -> Option<BTreeMap<i64, f64>> {
        let Q::Match { text, .. } = q else { return None };
        if !st.has_index || st.indexed_frags.len() != st.nfrags {
            return None;
        }
        let toks_of = |id: i64| ref_tokens(&st.cfg, st.rows[id as usize].text.as_deref().unwrap_or(""));
        let docs: Vec<(i64, Vec<String>)> = st.index_docs.iter().map(|id| (*id, toks_of(*id).into_iter().map(|t| t.1).collect())).collect();
        let n_docs = st.index_num_docs as f64;
        let total: usize = docs.iter().map(|d| d.1.len()).sum();
        let avgdl = total as f64 / n_docs;
        let qt: BTreeSet<String> = ref_tokens(&st.cfg, text).into_iter().map(|t| t.1).collect();
        let mut out = BTreeMap::new();
        for (id, d) in &docs {
            let mut s = 0.0f64;
            for t in &qt {
                let f = d.iter().filter(|w| *w == t).count() as f64;
                if f == 0.0 {
                    continue;
                }
                let n = docs.iter().filter(|x| x.1.contains(t)).count() as f64;
                let idf = ((n_docs - n + 0.5) / (n + 0.5) + 1.0).ln();
                s += idf * (2.2 * f / (f + 1.2 * (0.25 + 0.75 * d.len() as f64 / avgdl)));
            }
            out.insert(*id, s);
        }
        Some(out)
    }

    fn expected(&self, st: &St, q: &Q, sem: Sem) -> BTreeSet<i64> {
        st.rows
            .iter()
            .filter(|r| !r.deleted)
            .filter(|r| {
                let indexed = st.has_index && st.indexed_frags.contains(&r.frag);
                let cfg = st.eff_cfg();
                r.text.as_ref().map_or(false, |t| ref_match(&cfg, q, &ref_tokens(&cfg, t), indexed, sem))
            })
            .map(|r| r.id)
            .collect()
    }

    /// classify a difference between the oracle's set and the returned set: the keys of the recorded deviations that,
    /// switched on in the reference evaluator, reproduce exactly the returned set; empty = unclassified
    fn classify(&self, st: &St, q: &Q, got: &BTreeSet<i64>, k: Option<i64>) -> Vec<String> {
        let same = |sem: Sem| {
            let e = self.expected(st, q, sem);
            match k {
                None => &e == got,
                Some(k) => got.is_subset(&e) && got.len() == if st.has_index || matches!(q, Q::Bool { .. }) { e.len().min(k as usize) } else { e.len() },
            }
        };
        if !has_phrase(q) {
            vec![]
        } else if same(Sem { renum: false, blind: true }) {
            vec!["phrase_unindexed".into()]
        } else if same(Sem { renum: true, blind: false }) {
            vec!["phrase_position_gap".into()]
        } else if same(Sem { renum: true, blind: true }) {
            vec!["phrase_unindexed".into(), "phrase_position_gap".into()]
        } else {
            vec![]
        }
    }

    fn exec_line(&mut self, st: &mut St, line: &str, idx: usize, res: &mut CaseResult) -> String {
        let toks: Vec<&str> = line.split(' ').filter(|t| !t.is_empty()).collect();
        let Some(op) = toks.first().copied() else { return "err parse".into() };
        res.tags.push(format!("op:{op}"));
        match op {
            "cfg" => match parse_cfg(&toks[1..]) {
                Some((c, split)) if st.ds.is_none() => {
                    st.cfg = c;
                    st.split = split;
                    "ok".into()
                }
                _ => "err parse".into(),
            },
            "tok" => match toks.get(1).and_then(|t| parse_text(t)) {
                Some(Some(text)) if toks.len() == 2 => {
                    let out = self.tok_line(&st.cfg, &text);
                    // oracle: the documented pipeline
                    let want: Vec<String> =
                        ref_tokens(&st.cfg, &text).iter().map(|(p, t)| format!("{}:{}", p, show_text(&Some(t.clone())))).collect();
                    let want = if want.is_empty() { "ok -".to_string() } else { format!("ok {}", want.join(";")) };
                    if out != want {
                        res.failures.push(OracleFailure { what: format!("tokenizer: want {want} got {out}"), key: None, line: idx });
                    }
                    out
                }
                _ => "err parse".into(),
            },
            "create" | "append" => {
                let create = op == "create";
                match toks.get(1).and_then(|t| parse_frags(t)) {
                    Some(frags) if toks.len() == 2 && create == st.ds.is_none() && (!create || !frags[0].is_empty()) => {
                        match self.write_frags(st, &frags, create) {
                            Ok(n) => format!("ok n={n}"),
                            Err(e) => err_line(&e),
                        }
                    }
                    _ => "err parse".into(),
                }
            }
            "index" | "optimize" if toks.len() == 1 && st.ds.is_some() => {
                let mut d = st.ds.clone().unwrap();
                let r = if op == "index" {
                    let p = params_of(&st.cfg);
                    self.kit.lance_call("create_index", async { d.create_index(&["t"], IndexType::Inverted, Some(INDEX_NAME.into()), &p, true).await })
                } else {
                    self.kit.lance_call("optimize", d.optimize_indices(&OptimizeOptions::default()))
                };
                match r {
                    Ok(()) => {
                        st.ds = Some(d);
                        if op == "index" {
                            st.has_index = true;
                            st.index_docs.clear();
                            st.indexed_frags.clear();
                        }
                        if st.has_index {
                            for r in st.rows.iter().filter(|r| !r.deleted && r.text.is_some() && !st.indexed_frags.contains(&r.frag)) {
                                st.index_docs.push(r.id);
                            }
                            st.indexed_frags = (0..st.nfrags).collect();
                        }
                        match self.stats_line(st) {
                            Ok((n, s, u)) => {
                                st.index_num_docs = n;
                                s + &u
                            }
                            Err(e) => err_line(&e),
                        }
                    }
                    Err(e) => err_line(&e),
                }
            }
            "compact" if toks.len() == 1 && st.ds.is_some() && !st.compacted => {
                let mut d = st.ds.clone().unwrap();
                let opts = CompactionOptions {
                    target_rows_per_fragment: 1 << 20,
                    materialize_deletions: true,
                    materialize_deletions_threshold: 0.0,
                    num_threads: Some(1),
                    ..Default::default()
                };
                match self.kit.lance_call("compact", compact_files(&mut d, opts, None)) {
                    Ok(_) => {
                        st.ds = Some(d);
                        st.compacted = true;
                        // bookkeeping for the score recomputation: the remap drops the deleted rows of the fragments that
                        // are still in the manifest (a fragment with a deletion is always rewritten)
                        let live: BTreeSet<usize> = st.rows.iter().filter(|r| !r.deleted).map(|r| r.frag).collect();
                        let dropped: BTreeSet<i64> = st.rows.iter().filter(|r| r.deleted && live.contains(&r.frag)).map(|r| r.id).collect();
                        st.index_docs.retain(|id| !dropped.contains(id));
                        match self.stats_line(st) {
                            Ok((n, s, _)) => {
                                st.index_num_docs = n;
                                s
                            }
                            Err(e) => err_line(&e),
                        }
                    }
                    Err(e) => err_line(&e),
                }
            }
            "delete" if toks.len() == 2 && st.ds.is_some() => match Some(toks[1]).filter(|t| t.bytes().all(|b| b.is_ascii_digit() || b == b',')).and_then(parse_nat_list) {
                Some(ids) if !ids.is_empty() => {
                    let mut d = st.ds.clone().unwrap();
                    let pred = format!("id IN ({})", ids.iter().map(|i| i.to_string()).collect::<Vec<_>>().join(","));
                    match self.kit.lance_call("delete", d.delete(&pred)) {
                        Ok(()) => {
                            st.ds = Some(d);
                            for r in st.rows.iter_mut() {
                                if ids.contains(&(r.id as u64)) {
                                    r.deleted = true;
                                }
                            }
                            match self.kit.count_rows(st.ds.as_ref().unwrap(), None) {
                                Ok(n) => format!("ok n={n}"),
                                Err(e) => err_line(&e),
                            }
                        }
                        Err(e) => err_line(&e),
                    }
                }
                _ => "err parse".into(),
            },
            "q" | "top" if st.ds.is_some() => {
                let (k, qt) = if op == "top" {
                    match toks.get(1).filter(|t| t.len() <= 4 && t.bytes().all(|b| b.is_ascii_digit())).and_then(|t| t.parse::<i64>().ok()).filter(|k| (1..=1000).contains(k)) {
                        Some(k) => (Some(k), &toks[2..]),
                        None => return "err parse".into(),
                    }
                } else {
                    (None, &toks[1..])
                };
                let Some(q) = parse_full_query(qt).filter(valid_bool) else { return "err parse".into() };
                res.tags.push(
                    match &q {
                        Q::Match { and: true, .. } => "q:match_and",
                        Q::Match { .. } => "q:match_or",
                        Q::Phrase(_) => "q:phrase",
                        Q::Bool { .. } => "q:bool",
                    }
                    .into(),
                );
                let ds = st.ds.clone().unwrap();
                let got = match self.run_query(&ds, &q, k) {
                    Ok(g) => g,
                    Err(e) => {
                        // the only documented refusals: a phrase query without an index / without positions
                        let documented = has_phrase(&q) && (!st.has_index || !st.cfg.pos) && e.kind == ErrKind::InvalidInput;
                        if !documented {
                            res.failures.push(OracleFailure { what: format!("query failed: {}", e.msg), key: None, line: idx });
                        }
                        res.tags.push(format!("err:{}", e.kind.as_str()));
                        return err_line(&e);
                    }
                };
                let ids: Vec<i64> = got.iter().map(|g| g.0).collect();
                let set: BTreeSet<i64> = ids.iter().copied().collect();
                if set.len() != ids.len() {
                    res.failures.push(OracleFailure { what: format!("duplicate rows returned: {ids:?}"), key: Some("duplicate_rows".into()), line: idx });
                }
                let want = self.expected(st, &q, SPEC);
                if !want.is_empty() {
                    res.nontrivial = true;
                    res.tags.push("hit".into());
                }
                if st.has_index && st.indexed_frags.len() != st.nfrags {
                    res.tags.push("with_unindexed".into());
                }
                if st.rows.iter().any(|r| r.deleted) {
                    res.tags.push("with_deleted".into());
                }
                if st.compacted {
                    res.tags.push("after_compact".into());
                }
                if st.split {
                    res.tags.push("split_parts".into());
                }
                // ranking tests
                let scores: Vec<f32> = got.iter().filter_map(|g| g.1).collect();
                if st.has_index && scores.windows(2).any(|w| w[0] < w[1]) {
                    res.failures.push(OracleFailure { what: format!("scores not in descending order: {scores:?}"), key: Some("score_order".into()), line: idx });
                }
                let refs = self.ref_scores(st, &q);
                if let Some(refs) = &refs {
                    res.tags.push("score_checked".into());
                    for (id, s) in &got {
                        if let (Some(s), Some(r)) = (s, refs.get(id)) {
                            if (*s as f64 - r).abs() > 1e-4 * (1.0 + r.abs()) {
                                res.failures.push(OracleFailure { what: format!("score of id {id}: {s} vs BM25 {r}"), key: Some("score_value".into()), line: idx });
                                break;
                            }
                        }
                    }
                }
                match k {
                    None => {
                        if set != want {
                            let missing: Vec<i64> = want.difference(&set).copied().collect();
                            let extra: Vec<i64> = set.difference(&want).copied().collect();
                            let keys = self.classify(st, &q, &set, None);
                            if self.debug {
                                eprintln!("MISMATCH {} cfg={:?} missing={missing:?} extra={extra:?} keys={keys:?}", show_query(&q), st.cfg);
                                for r in &st.rows {
                                    eprintln!("   id={} frag={} del={} idx={} text={:?}", r.id, r.frag, r.deleted, st.indexed_frags.contains(&r.frag), r.text);
                                }
                            }
                            let what = format!("query {}: missing ids {missing:?}, extra ids {extra:?}", show_query(&q));
                            if keys.is_empty() {
                                res.failures.push(OracleFailure { what: what.clone(), key: None, line: idx });
                            }
                            for key in keys {
                                res.tags.push(format!("known:{key}"));
                                res.failures.push(OracleFailure { what: what.clone(), key: Some(key), line: idx });
                            }
                        }
                        format!("ok {}", show_nat_list(set.iter().map(|i| *i as u64)))
                    }
                    Some(k) => {
                        res.tags.push("topk".into());
                        // without an index the plan is the flat scan alone, which has no fetch: the limit is not applied
                        // (BooleanQueryExec truncates by itself)
                        let limited = st.has_index || matches!(q, Q::Bool { .. });
                        let n_want = if limited { want.len().min(k as usize) } else { want.len() };
                        if !set.is_subset(&want) || set.len() != n_want {
                            let keys = self.classify(st, &q, &set, Some(k));
                            let what = format!("top {k} {}: returned {set:?}, matching {want:?}", show_query(&q));
                            if keys.is_empty() {
                                res.failures.push(OracleFailure { what: what.clone(), key: None, line: idx });
                            }
                            for key in keys {
                                res.tags.push(format!("known:{key}"));
                                res.failures.push(OracleFailure { what: what.clone(), key: Some(key), line: idx });
                            }
                        } else if let Some(refs) = refs.as_ref().filter(|_| !st.split) {
                            // (with several partitions each one prunes with its own statistics: top-k is approximate)
                            let worst_in = set.iter().filter_map(|i| refs.get(i)).cloned().fold(f64::INFINITY, f64::min);
                            let best_out = want.difference(&set).filter_map(|i| refs.get(i)).cloned().fold(f64::NEG_INFINITY, f64::max);
                            if best_out > worst_in + 1e-4 * (1.0 + best_out.abs()) {
                                res.failures.push(OracleFailure {
                                    what: format!("top {k} {}: an omitted row scores {best_out}, a returned one {worst_in}", show_query(&q)),
                                    key: Some("topk_not_best".into()),
                                    line: idx,
                                });
                            }
                        }
                        format!("ok n={}", set.len())
                    }
                }
            }
            _ => "err parse".into(),
        }
    }
}

// ------------------------------------------------------------------------------------------------
// generator
// ------------------------------------------------------------------------------------------------

const POOL: [&str; 16] = ["a", "b", "cat", "dog", "x1", "go", "elephant", "éa", "über", "ß", "中文", "ñu", "İx", "7", "Cat", "straße"];
const SEPS: [&str; 10] = [" ", " ", ", ", "-", ".", "  ", "_", " € ", "'", "\u{307}"];

fn variant(rng: &mut Rng, w: &str) -> String {
    match rng.below(6) {
        0 => w.to_uppercase(),
        1 => {
            let mut cs = w.chars();
            match cs.next() {
                Some(c) => c.to_uppercase().chain(cs).collect(),
                None => String::new(),
            }
        }
        _ => w.to_string(),
    }
}

fn clean(s: String) -> String {
    s.chars().filter(|c| in_universe(*c as u32)).collect()
}

fn gen_doc(rng: &mut Rng, vocab: &[&str]) -> Option<String> {
    match rng.below(12) {
        0 => None,
        1 => Some(String::new()),
        2 => Some(SEPS[rng.usize(SEPS.len())].to_string()),
        _ => {
            let n = rng.range(1, 6) as usize;
            let mut s = String::new();
            if rng.chance(1, 8) {
                s.push_str(SEPS[rng.usize(SEPS.len())]);
            }
            for i in 0..n {
                if i > 0 {
                    s.push_str(SEPS[rng.usize(SEPS.len())]);
                }
                let w = vocab[rng.usize(vocab.len())];
                s.push_str(&variant(rng, w));
            }
            if rng.chance(1, 8) {
                s.push('!');
            }
            Some(clean(s))
        }
    }
}

fn gen_frags(rng: &mut Rng, vocab: &[&str], nf: usize, max_docs: usize) -> Vec<Vec<Option<String>>> {
    (0..nf).map(|_| (0..rng.range(1, max_docs as u64) as usize).map(|_| gen_doc(rng, vocab)).collect()).collect()
}

fn gen_long_frags(rng: &mut Rng, vocab: &[&str], nf: usize) -> Vec<Vec<Option<String>>> {
    (0..nf)
        .map(|_| {
            (0..rng.range(1, 3) as usize)
                .map(|_| {
                    let n = rng.range(12, 30) as usize;
                    let ws: Vec<&str> = (0..n).map(|_| vocab[rng.usize(vocab.len())]).collect();
                    Some(clean(ws.join(" ")))
                })
                .collect()
        })
        .collect()
}

fn gen_words(rng: &mut Rng, vocab: &[&str], docs: &[Option<String>], n: usize, phrase: bool) -> String {
    // phrases are mostly cut out of an existing document so that they hit
    if phrase && rng.chance(3, 4) {
        let texts: Vec<&String> = docs.iter().flatten().filter(|d| !d.is_empty()).collect();
        if !texts.is_empty() {
            let t = texts[rng.usize(texts.len())];
            let ws: Vec<&str> = t.split(|c: char| !c.is_alphanumeric()).filter(|w| !w.is_empty()).collect();
            if !ws.is_empty() {
                let from = rng.usize(ws.len());
                let to = (from + n).min(ws.len());
                return clean(ws[from..to].join(SEPS[rng.usize(4)]));
            }
        }
    }
    let mut ws = vec![];
    for _ in 0..n {
        let wi = rng.usize(vocab.len());
        let w = if rng.chance(1, 8) { "zzz".to_string() } else { variant(rng, vocab[wi]) };
        ws.push(w);
    }
    clean(ws.join(SEPS[rng.usize(5)]))
}

fn gen_query(rng: &mut Rng, vocab: &[&str], docs: &[Option<String>], depth: usize) -> Q {
    let kind = rng.below(if depth < 2 { 10 } else { 7 });
    let nw = rng.range(1, 3) as usize;
    match kind {
        0..=2 => Q::Match { and: false, text: gen_words(rng, vocab, docs, nw, false) },
        3..=4 => Q::Match { and: true, text: gen_words(rng, vocab, docs, nw, false) },
        5..=6 => Q::Phrase(gen_words(rng, vocab, docs, nw, true)),
        _ => {
            let g = |n: u64, rng: &mut Rng| (0..n).map(|_| gen_query(rng, vocab, docs, depth + 1)).collect::<Vec<_>>();
            let nm = rng.below(3);
            let ns = if nm == 0 { rng.range(1, 2) } else { rng.below(2) };
            let nn = rng.below(2);
            let must = g(nm, rng);
            let should = g(ns, rng);
            let must_not = g(nn, rng);
            Q::Bool { must, should, must_not }
        }
    }
}

impl Prop for C23 {
    fn id(&self) -> &'static str {
        "C23"
    }
    fn budget(&self, tier: Tier) -> usize {
        match tier {
            Tier::Quick => 350,
            Tier::Thorough => 6000,
            Tier::Search => 1500,
        }
    }
    fn gen_case(&mut self, rng: &mut Rng, _tier: Tier, _idx: usize) -> Vec<String> {
        let mut lines = vec![];
        let malformed = rng.chance(1, 8);
        let nv = rng.range(3, 6) as usize;
        let mut vocab: Vec<&str> = vec![];
        while vocab.len() < nv {
            let w = POOL[rng.usize(POOL.len())];
            if !vocab.contains(&w) {
                vocab.push(w);
            }
        }
        let maxlen = match rng.below(10) {
            0..=3 => "none",
            4..=5 => "40",
            6..=8 => "5",
            _ => "3",
        };
        let pos = !rng.chance(1, 10);
        let split = rng.chance(1, 3);
        lines.push(format!(
            "cfg lower={} fold={} maxlen={maxlen} pos={}{}",
            !rng.chance(1, 5) as u8,
            rng.chance(1, 2) as u8,
            pos as u8,
            if split { " parts=split" } else { "" }
        ));
        let mut all: Vec<Option<String>> = vec![];
        for _ in 0..2 {
            if let Some(d) = gen_doc(rng, &vocab) {
                lines.push(format!("tok {}", show_text(&Some(d))));
            }
        }
        let nf = rng.range(1, 3) as usize;
        let fr = gen_frags(rng, &vocab, nf, 6);
        all.extend(fr.iter().flatten().cloned());
        lines.push(format!("create {}", show_frags(&fr)));
        let mut queries = |rng: &mut Rng, lines: &mut Vec<String>, all: &[Option<String>], n: usize| {
            for _ in 0..n {
                let q = gen_query(rng, &vocab, all, 0);
                if rng.chance(1, 6) {
                    lines.push(format!("top {} {}", rng.range(1, 4), show_query(&q)));
                } else {
                    lines.push(format!("q {}", show_query(&q)));
                }
            }
        };
        if rng.chance(1, 10) {
            queries(rng, &mut lines, &all, 2);
        }
        lines.push("index".into());
        queries(rng, &mut lines, &all, 5);
        let mut compacted = false;
        for _ in 0..rng.range(1, 4) {
            match rng.below(if compacted { 10 } else { 13 }) {
                10..=12 => {
                    // a compaction that has something to remap: delete first
                    let n = rng.range(1, 3);
                    let ids: BTreeSet<u64> = (0..n).map(|_| rng.below(all.len() as u64)).collect();
                    lines.push(format!("delete {}", show_nat_list(ids)));
                    lines.push("compact".into());
                    compacted = true;
                }
                0..=3 => {
                    let nf = rng.range(1, 2) as usize;
                    // split cases get long documents in the later rounds: partitions of very different average length
                    let fr = if split { gen_long_frags(rng, &vocab, nf) } else { gen_frags(rng, &vocab, nf, 4) };
                    all.extend(fr.iter().flatten().cloned());
                    lines.push(format!("append {}", show_frags(&fr)));
                }
                4..=6 => {
                    let n = rng.range(1, 3);
                    let ids: BTreeSet<u64> = (0..n).map(|_| rng.below(all.len() as u64 + 1)).collect();
                    lines.push(format!("delete {}", show_nat_list(ids)));
                }
                7..=8 => lines.push("optimize".into()),
                _ => lines.push("index".into()),
            }
            queries(rng, &mut lines, &all, 4);
        }
        if malformed {
            let bad = ["compact x", "q mx 97", "q mo 9.97", "tok 1234567", "frob", "top 0 mo 97", "q bo 0 0 1 mo 97", "q ph", "delete x", "q mo 97 98", "create 97"];
            let at = rng.usize(lines.len() - 1) + 1;
            lines.insert(at, bad[rng.usize(bad.len())].to_string());
        }
        lines
    }

    fn exec_case(&mut self, lines: &[String]) -> CaseResult {
        if !self.is_child && lines.iter().any(|l| l.starts_with("cfg ") && l.trim_end().ends_with(" parts=split")) {
            if self.child.is_none() {
                self.child = spawn_child();
            }
            let r = self.child.as_mut().and_then(|c| delegate(c, lines));
            return match r {
                Some(r) => r,
                None => {
                    // the child died or answered garbage: report it, start a fresh one for the next case
                    self.child = None;
                    CaseResult {
                        outputs: lines.iter().map(|_| "panic".to_string()).collect(),
                        failures: vec![OracleFailure { what: "the split-partition child process failed".into(), key: Some("panic".into()), line: 0 }],
                        tags: vec!["panic".into()],
                        nontrivial: true,
                    }
                }
            };
        }
        self.kit.reset_session();
        let mut res = CaseResult::default();
        let mut st = St {
            ds: None,
            uri: self.kit.fresh_uri(),
            cfg: Cfg { lower: true, fold: true, maxlen: None, pos: true },
            rows: vec![],
            nfrags: 0,
            has_index: false,
            indexed_frags: BTreeSet::new(),
            index_docs: vec![],
            index_num_docs: 0,
            split: false,
            compacted: false,
        };
        for (i, l) in lines.iter().enumerate() {
            let out = self.exec_line(&mut st, l, i, &mut res);
            if out == "err parse" {
                res.tags.push("malformed".into());
            }
            res.outputs.push(out);
        }
        res
    }

    fn rule(&self) -> String {
        "seeded cases: tokenizer config (lower/fold/maxlen/pos), 3-6 word vocabulary out of 16 (ASCII, digits, accented, ß, CJK, dotted I) with case variants and 10 separators, \
         1-3 fragments with NULL/empty/separator-only documents, inverted index, 5 queries (match OR/AND, phrase cut out of a document, boolean up to depth 2, 1/6 with limit k), \
         then 1-4 rounds of append / delete / optimize / re-index / delete+compact (once) each followed by 4 queries; 1/3 of the cases run with the partitions kept apart (child process, LANCE_FTS_TARGET_SIZE=0) and append long documents; 1/8 of the cases carry a malformed line; non-trivial = some query has a non-empty expected set"
            .into()
    }
}

fn main() {
    // one indexing worker: the partition layout of a freshly built index is then deterministic
    std::env::set_var("LANCE_FTS_NUM_SHARDS", "1");
    let is_child = std::env::args().nth(1).as_deref() == Some("--child");
    let p = C23 { kit: Kit::new(), debug: std::env::var("C23_DEBUG").is_ok(), is_child, child: None };
    if is_child {
        child_loop(p);
    } else {
        // the parent keeps the default partition target (every build / optimize merges into one partition)
        std::env::remove_var("LANCE_FTS_TARGET_SIZE");
        run_main(p)
    }
}
