//! C03: concurrent transactions serialise — the committed state equals a serial replay.
//!
//! Interpreter of the C03 op lines against the REAL lance code: one `memory://` table (c0 = unique key, c1 = x,
//! c2 = 100*key + 2, later columns d<k>), four `Dataset` handles that go stale on purpose (a transaction is BUILT by the
//! real writer from the version its handle is at and COMMITTED on whatever is the latest version then: conflict check
//! `TransactionRebase::check_txn` against every transaction in between, rebase `finish`, `build_manifest`; writer-level
//! retries are switched off with `conflict_retries(0)`).
//!
//! ```text
//! create f=<n> <rows>           rows of width 2 (key, x); max_rows_per_file = f; every handle opens v1
//! open <h>                      handle h (0..3) := latest version
//! <h> append <rows>             one more fragment, written with the columns of the handle's version; fresh keys
//! <h> delete <keys>             DeleteBuilder "c0 IN (keys)"          <h> delx <int>   DeleteBuilder "c1 = <int>"
//! <h> delall                    DeleteBuilder "true"
//! <h> upd <keys> <int>          UpdateBuilder set c1 = <int> where c0 IN (keys)       (Update / RewriteRows)
//! <h> overwrite f=<n> <rows>    WriteMode::Overwrite through the handle (schema c0, c1, c2 again)
//! <h> compact                   compact_files(target 2^20 rows, materialize deletions with threshold 0, one thread)
//! <h> index                     create_index(BTree on c1, name ix, replace = true)
//! <h> addcol <k>                add_columns(SqlExpressions [d<k> = c0 + k])           (Merge)
//! <h> dropcol c2|d<k>           drop_columns                                           (Project)
//! ```
//!
//! Output of a mutating op: `ok v=<latest version> txn=<last committed transaction> cols=<names> frags=<id:rows:deleted
//! offsets …> idx=<ix/fields/bitmap …> scan=<ordered scan>` (`txn=none` when nothing was committed) or
//! `err <kind> v=<latest version>`; of `open`: `ok v=<version>`.  `err parse | no_table | keys | exists | nocol` are
//! decided by the interpreter, identically on both sides.
//!
//! Oracle (independent of the Lean model): SERIAL REPLAY.  A reference table (rows identified by their key, which is
//! unique and never re-used) is kept in Rust.  For every operation the row-level EFFECT is computed from the real scan of
//! the version the handle is at (rows inserted / keys deleted / replaced images / column added with its values /
//! column dropped / everything replaced); when the commit succeeds the effect is applied to the reference table, when
//! it fails nothing is.  After every step the sorted scan of the latest version and its column list must equal the
//! reference table (`serial_replay_mismatch`, or `failed_commit_changed_rows` after an error).

use std::collections::{BTreeMap, BTreeSet};
use std::panic::{catch_unwind, AssertUnwindSafe};
use std::sync::Arc;

use arrow_array::{Array, Int64Array, RecordBatch, RecordBatchIterator};
use arrow_schema::{DataType, Field, Schema as ArrowSchema};
use hcommon::*;
use lance::dataset::optimize::{compact_files, CompactionOptions};
use lance::dataset::transaction::{Operation, Transaction};
use lance::dataset::{DeleteBuilder, NewColumnTransform, UpdateBuilder, WriteDestination, WriteMode, WriteParams};
use lance::session::Session;
use lance::Dataset;
use lance_index::scalar::ScalarIndexParams;
use lance_index::{DatasetIndexExt, IndexType};

#[path = "../tablekit.rs"]
#[allow(dead_code)]
mod tablekit;
use tablekit::*;

const NH: usize = 4;
const KEY_REPLAY: &str = "serial_replay_mismatch";
const KEY_FAILED: &str = "failed_commit_changed_rows";
/// a column that was dropped and a column that was added later share a field id (drop_columns removed the last data
/// file carrying the id, `Manifest::max_field_id` fell back, add_columns handed the id out again): a stale Append that
/// still wrote the dropped column shows its values under the new column
const KEY_REUSE: &str = "append_after_field_id_reuse";

struct C03 {
    kit: Kit,
}

#[derive(Clone, Debug)]
enum Act {
    Append(Vec<(i64, Cell)>),
    Delete(Vec<i64>),
    Delx(i64),
    Delall,
    Upd(Vec<i64>, i64),
    Overwrite(usize, Vec<(i64, Cell)>),
    Compact,
    Index,
    AddCol(u64),
    DropCol(String),
}

#[derive(Clone, Debug)]
enum Op {
    Create { f: usize, rows: Vec<(i64, Cell)> },
    Open(usize),
    Do(usize, Act),
}

fn parse_nat9(s: &str) -> Option<u64> {
    if s.is_empty() || s.len() > 9 || !s.bytes().all(|b| b.is_ascii_digit()) {
        return None;
    }
    s.parse().ok()
}

fn parse_int(s: &str) -> Option<i64> {
    parse_cell(s)?
}

fn parse_keys(s: &str) -> Option<Vec<i64>> {
    s.split(',').map(parse_int).collect()
}

/// rows of width 2 with a non-NULL key, at least one row
fn parse_kx(s: &str) -> Option<Vec<(i64, Cell)>> {
    let rows = parse_rows(s)?;
    if rows.is_empty() {
        return None;
    }
    rows.into_iter()
        .map(|r| match r.as_slice() {
            [Some(k), x] => Some((*k, *x)),
            _ => None,
        })
        .collect()
}

fn parse_f(s: &str) -> Option<usize> {
    let d = s.strip_prefix("f=")?;
    if d.is_empty() || d.len() > 6 || !d.bytes().all(|b| b.is_ascii_digit()) {
        return None;
    }
    let n: usize = d.parse().ok()?;
    (n > 0).then_some(n)
}

fn parse_col(s: &str) -> Option<String> {
    if s == "c2" {
        return Some(s.to_string());
    }
    let d = s.strip_prefix('d')?;
    if d.is_empty() || d.len() > 3 || !d.bytes().all(|b| b.is_ascii_digit()) {
        return None;
    }
    let k: u64 = d.parse().ok()?;
    Some(format!("d{k}"))
}

fn parse_op(line: &str) -> Option<Op> {
    let t: Vec<&str> = line.split_whitespace().collect();
    match t.as_slice() {
        ["create", f, rows] => Some(Op::Create { f: parse_f(f)?, rows: parse_kx(rows)? }),
        ["open", h] => {
            let h = parse_nat9(h)? as usize;
            (h < NH).then_some(Op::Open(h))
        }
        [h, rest @ ..] => {
            let h = parse_nat9(h)? as usize;
            let act = match rest {
                ["append", rows] => Act::Append(parse_kx(rows)?),
                ["delete", keys] => Act::Delete(parse_keys(keys)?),
                ["delx", v] => Act::Delx(parse_int(v)?),
                ["delall"] => Act::Delall,
                ["upd", keys, v] => Act::Upd(parse_keys(keys)?, parse_int(v)?),
                ["overwrite", f, rows] => Act::Overwrite(parse_f(f)?, parse_kx(rows)?),
                ["compact"] => Act::Compact,
                ["index"] => Act::Index,
                ["addcol", k] => {
                    let k = parse_nat9(k)?;
                    if k >= 100 {
                        return None;
                    }
                    Act::AddCol(k)
                }
                ["dropcol", c] => Act::DropCol(parse_col(c)?),
                _ => return None,
            };
            if h >= NH {
                return None;
            }
            Some(Op::Do(h, act))
        }
        _ => None,
    }
}

fn show_kx(rows: &[(i64, Cell)]) -> String {
    show_rows(&rows.iter().map(|(k, x)| vec![Some(*k), *x]).collect::<Vec<_>>())
}

fn show_keys(ks: &[i64]) -> String {
    ks.iter().map(|k| k.to_string()).collect::<Vec<_>>().join(",")
}

fn show_act(a: &Act) -> String {
    match a {
        Act::Append(rows) => format!("append {}", show_kx(rows)),
        Act::Delete(ks) => format!("delete {}", show_keys(ks)),
        Act::Delx(v) => format!("delx {v}"),
        Act::Delall => "delall".into(),
        Act::Upd(ks, v) => format!("upd {} {v}", show_keys(ks)),
        Act::Overwrite(f, rows) => format!("overwrite f={f} {}", show_kx(rows)),
        Act::Compact => "compact".into(),
        Act::Index => "index".into(),
        Act::AddCol(k) => format!("addcol {k}"),
        Act::DropCol(c) => format!("dropcol {c}"),
    }
}

fn act_name(a: &Act) -> &'static str {
    match a {
        Act::Append(_) => "append",
        Act::Delete(_) => "delete",
        Act::Delx(_) => "delx",
        Act::Delall => "delall",
        Act::Upd(..) => "upd",
        Act::Overwrite(..) => "overwrite",
        Act::Compact => "compact",
        Act::Index => "index",
        Act::AddCol(_) => "addcol",
        Act::DropCol(_) => "dropcol",
    }
}

fn show_ids<I: IntoIterator<Item = u64>>(xs: I) -> String {
    let s: BTreeSet<u64> = xs.into_iter().collect();
    show_nat_list(s.into_iter().collect::<Vec<_>>())
}

fn join_or(sep: &str, v: Vec<String>) -> String {
    if v.is_empty() {
        "-".into()
    } else {
        v.join(sep)
    }
}

/// canonical form of a committed transaction (same as `Driver.showOp`)
fn show_txn(t: &Transaction) -> String {
    match &t.operation {
        Operation::Append { fragments } => format!("append:{}", fragments.len()),
        Operation::Delete { updated_fragments, deleted_fragment_ids, .. } => format!(
            "delete:u={}:r={}",
            show_ids(updated_fragments.iter().map(|f| f.id)),
            show_ids(deleted_fragment_ids.iter().copied())
        ),
        Operation::Update { removed_fragment_ids, updated_fragments, new_fragments, .. } => format!(
            "update:r={}:u={}:n={}",
            show_ids(removed_fragment_ids.iter().copied()),
            show_ids(updated_fragments.iter().map(|f| f.id)),
            new_fragments.len()
        ),
        Operation::Overwrite { fragments, .. } => format!("overwrite:{}", fragments.len()),
        Operation::Rewrite { groups, rewritten_indices, .. } => {
            let g: Vec<String> = groups
                .iter()
                .map(|g| format!("{}>{}", show_ids(g.old_fragments.iter().map(|f| f.id)), show_ids(g.new_fragments.iter().map(|f| f.id))))
                .collect();
            format!("rewrite:{}:ri={}", join_or("+", g), rewritten_indices.len())
        }
        Operation::CreateIndex { new_indices, removed_indices } => {
            let n: Vec<String> = new_indices
                .iter()
                .map(|i| {
                    format!(
                        "{}/{}/{}",
                        i.name,
                        show_ids(i.fields.iter().map(|f| *f as u64)),
                        i.fragment_bitmap.as_ref().map(|b| show_ids(b.iter().map(|x| x as u64))).unwrap_or_else(|| "none".into())
                    )
                })
                .collect();
            format!("createindex:new={}:rm={}", join_or("+", n), removed_indices.len())
        }
        Operation::ReserveFragments { num_fragments } => format!("reserve:{num_fragments}"),
        Operation::Merge { fragments, schema } => format!(
            "merge:{}:{}",
            fragments.len(),
            join_or(",", schema.fields.iter().map(|f| f.name.clone()).collect())
        ),
        Operation::Project { schema } => {
            format!("project:{}", join_or(",", schema.fields.iter().map(|f| f.name.clone()).collect()))
        }
        other => format!("other:{}", other.name()),
    }
}

/// value a writer stores in column `name` for a new row (key, x) — same as `Build.newCell`
fn new_cell(name: &str, k: i64, x: Cell) -> Cell {
    match name {
        "c0" => Some(k),
        "c1" => x,
        _ => {
            let code: i64 = if let Some(i) = name.strip_prefix('c') {
                i.parse().unwrap_or(0)
            } else {
                10 + name[1..].parse::<i64>().unwrap_or(0)
            };
            Some(100 * k + code)
        }
    }
}

struct Obs {
    version: u64,
    cols: Vec<String>,
    frags: String,
    idx: String,
    scan: Vec<Row>,
}

/// the reference table of the serial-replay oracle: rows by key
#[derive(Clone, Debug, Default, PartialEq)]
struct RefTbl {
    cols: Vec<String>,
    rows: BTreeMap<i64, BTreeMap<String, Cell>>,
}

impl RefTbl {
    fn from_scan(cols: &[String], scan: &[Row]) -> Option<Self> {
        let mut rows = BTreeMap::new();
        for r in scan {
            let k = r.first().copied().flatten()?;
            let m: BTreeMap<String, Cell> = cols.iter().cloned().zip(r.iter().copied()).collect();
            if rows.insert(k, m).is_some() {
                return None;
            }
        }
        Some(Self { cols: cols.to_vec(), rows })
    }
    fn canon(&self) -> Vec<Row> {
        self.rows.values().map(|m| self.cols.iter().map(|c| m.get(c).copied().flatten()).collect()).collect()
    }
}

/// row-level effect of one operation, computed at its read version
#[derive(Clone, Debug)]
enum Effect {
    Insert(Vec<BTreeMap<String, Cell>>),
    DeleteKeys(BTreeSet<i64>),
    Replace(Vec<BTreeMap<String, Cell>>),
    ReplaceAll(Vec<String>, Vec<BTreeMap<String, Cell>>),
    AddCol(String, BTreeMap<i64, Cell>),
    DropCol(String),
    Nothing,
}

fn key_of(m: &BTreeMap<String, Cell>) -> i64 {
    m.get("c0").copied().flatten().unwrap_or(i64::MIN)
}

/// apply an effect; `Err` = the effect cannot be applied as a serial step (a replaced row is gone)
fn apply_effect(t: &mut RefTbl, e: &Effect) -> Result<(), String> {
    match e {
        Effect::Insert(rows) => {
            for r in rows {
                if t.rows.insert(key_of(r), r.clone()).is_some() {
                    return Err(format!("inserted key {} exists", key_of(r)));
                }
            }
        }
        Effect::DeleteKeys(ks) => {
            for k in ks {
                t.rows.remove(k);
            }
        }
        Effect::Replace(rows) => {
            for r in rows {
                if t.rows.insert(key_of(r), r.clone()).is_none() {
                    return Err(format!("replaced row with key {} was not in the table any more", key_of(r)));
                }
            }
        }
        Effect::ReplaceAll(cols, rows) => {
            t.cols = cols.clone();
            t.rows = rows.iter().map(|r| (key_of(r), r.clone())).collect();
        }
        Effect::AddCol(name, vals) => {
            t.cols.push(name.clone());
            for (k, m) in t.rows.iter_mut() {
                m.insert(name.clone(), vals.get(k).copied().flatten());
            }
        }
        Effect::DropCol(name) => {
            t.cols.retain(|c| c != name);
            for m in t.rows.values_mut() {
                m.remove(name);
            }
        }
        Effect::Nothing => {}
    }
    Ok(())
}

impl C03 {
    fn fresh_session(&mut self) {
        let reg = self.kit.session.store_registry();
        self.kit.session = Arc::new(Session::new(64 << 20, 64 << 20, reg));
    }

    fn observe(&self, ds: &Dataset) -> Result<Obs, KitError> {
        let kit = &self.kit;
        let mut fr: Vec<String> = vec![];
        for f in ds.get_fragments() {
            let m = f.metadata();
            let dv = kit.block_on(f.get_deletion_vector()).map_err(KitError::from)?;
            let phys = m.physical_rows.unwrap_or(usize::MAX);
            let dels: Vec<u64> = match &dv {
                Some(d) => (0..phys as u64).filter(|i| d.contains(*i as u32)).collect(),
                None => vec![],
            };
            fr.push(format!("{}:{}:{}", m.id, phys, show_nat_list(dels)));
        }
        let loaded = kit.lance_call("load_indices", ds.load_indices())?;
        let mut names: Vec<String> = vec![];
        for i in loaded.iter() {
            names.push(format!(
                "{}/{}/{}",
                i.name,
                show_ids(i.fields.iter().map(|f| *f as u64)),
                i.fragment_bitmap.as_ref().map(|b| show_ids(b.iter().map(|x| x as u64))).unwrap_or_else(|| "none".into())
            ));
        }
        let mut sc = ds.scan();
        sc.scan_in_order(true);
        let batch = kit.lance_call("scan", sc.try_into_batch())?;
        let cols: Vec<String> = batch.schema().fields().iter().map(|f| f.name().clone()).collect();
        let mut scan: Vec<Row> = vec![vec![]; batch.num_rows()];
        for c in 0..batch.num_columns() {
            let a = batch
                .column(c)
                .as_any()
                .downcast_ref::<Int64Array>()
                .ok_or_else(|| KitError::other(format!("column {} is not Int64", cols[c])))?;
            for (i, row) in scan.iter_mut().enumerate() {
                row.push(if a.is_null(i) { None } else { Some(a.value(i)) });
            }
        }
        // the columns of an empty table come from the manifest schema
        let cols = if batch.num_columns() == 0 { ds.schema().fields.iter().map(|f| f.name.clone()).collect() } else { cols };
        Ok(Obs { version: ds.manifest().version, cols, frags: join_or(",", fr), idx: join_or("+", names), scan })
    }

    fn batch_for(cols: &[String], rows: &[(i64, Cell)]) -> (Arc<ArrowSchema>, RecordBatch) {
        let schema = Arc::new(ArrowSchema::new(cols.iter().map(|c| Field::new(c, DataType::Int64, true)).collect::<Vec<_>>()));
        let arrays: Vec<Arc<dyn Array>> = cols
            .iter()
            .map(|c| Arc::new(Int64Array::from(rows.iter().map(|(k, x)| new_cell(c, *k, *x)).collect::<Vec<_>>())) as Arc<dyn Array>)
            .collect();
        let b = RecordBatch::try_new(schema.clone(), arrays).expect("batch");
        (schema, b)
    }

    fn run_act(&self, h: &Dataset, act: &Act) -> Result<Dataset, KitError> {
        let kit = &self.kit;
        let keys_sql = |ks: &[i64]| format!("c0 IN ({})", ks.iter().map(|k| k.to_string()).collect::<Vec<_>>().join(", "));
        let delete = |pred: String| -> Result<Dataset, KitError> {
            let d = kit.lance_call("delete", DeleteBuilder::new(Arc::new(h.clone()), pred).conflict_retries(0).execute())?;
            Ok(d.as_ref().clone())
        };
        match act {
            Act::Append(rows) => {
                let cols: Vec<String> = h.schema().fields.iter().map(|f| f.name.clone()).collect();
                let (schema, b) = Self::batch_for(&cols, rows);
                let reader = RecordBatchIterator::new(vec![Ok(b)].into_iter(), schema);
                let params = WriteParams { mode: WriteMode::Append, session: Some(kit.session.clone()), ..Default::default() };
                kit.lance_call("append", Dataset::write(reader, WriteDestination::Dataset(Arc::new(h.clone())), Some(params)))
            }
            Act::Overwrite(f, rows) => {
                let cols: Vec<String> = vec!["c0".into(), "c1".into(), "c2".into()];
                let (schema, b) = Self::batch_for(&cols, rows);
                let reader = RecordBatchIterator::new(vec![Ok(b)].into_iter(), schema);
                let params = WriteParams {
                    mode: WriteMode::Overwrite,
                    max_rows_per_file: *f,
                    session: Some(kit.session.clone()),
                    ..Default::default()
                };
                kit.lance_call("overwrite", Dataset::write(reader, WriteDestination::Dataset(Arc::new(h.clone())), Some(params)))
            }
            Act::Delete(ks) => delete(keys_sql(ks)),
            Act::Delx(v) => delete(format!("c1 = {v}")),
            Act::Delall => delete("true".into()),
            Act::Upd(ks, v) => {
                let d = h.clone();
                let r = kit.lance_call("update", async {
                    UpdateBuilder::new(Arc::new(d))
                        .update_where(&keys_sql(ks))?
                        .set("c1", &v.to_string())?
                        .conflict_retries(0)
                        .build()?
                        .execute()
                        .await
                })?;
                Ok(r.new_dataset.as_ref().clone())
            }
            Act::Compact => {
                let mut d = h.clone();
                let opts = CompactionOptions {
                    target_rows_per_fragment: 1 << 20,
                    materialize_deletions: true,
                    materialize_deletions_threshold: 0.0,
                    num_threads: Some(1),
                    ..Default::default()
                };
                kit.lance_call("compact_files", compact_files(&mut d, opts, None))?;
                Ok(d)
            }
            Act::Index => {
                let mut d = h.clone();
                kit.lance_call(
                    "create_index",
                    d.create_index(&["c1"], IndexType::BTree, Some("ix".to_string()), &ScalarIndexParams::default(), true),
                )?;
                Ok(d)
            }
            Act::AddCol(k) => {
                let mut d = h.clone();
                let tr = NewColumnTransform::SqlExpressions(vec![(format!("d{k}"), format!("c0 + {k}"))]);
                kit.lance_call("add_columns", d.add_columns(tr, None, None))?;
                Ok(d)
            }
            Act::DropCol(c) => {
                let mut d = h.clone();
                kit.lance_call("drop_columns", d.drop_columns(&[c.as_str()]))?;
                Ok(d)
            }
        }
    }

    /// the row-level effect of `act`, computed from the table as it is at the read version
    fn effect(at: &RefTbl, act: &Act) -> Effect {
        let row_map = |cols: &[String], k: i64, x: Cell| -> BTreeMap<String, Cell> {
            cols.iter().map(|c| (c.clone(), new_cell(c, k, x))).collect()
        };
        match act {
            Act::Append(rows) => Effect::Insert(rows.iter().map(|(k, x)| row_map(&at.cols, *k, *x)).collect()),
            Act::Delete(ks) => Effect::DeleteKeys(ks.iter().copied().filter(|k| at.rows.contains_key(k)).collect()),
            Act::Delx(v) => Effect::DeleteKeys(
                at.rows.iter().filter(|(_, m)| m.get("c1").copied().flatten() == Some(*v)).map(|(k, _)| *k).collect(),
            ),
            Act::Delall => Effect::DeleteKeys(at.rows.keys().copied().collect()),
            Act::Upd(ks, v) => Effect::Replace(
                at.rows
                    .iter()
                    .filter(|(k, _)| ks.contains(k))
                    .map(|(_, m)| {
                        let mut m = m.clone();
                        m.insert("c1".into(), Some(*v));
                        m
                    })
                    .collect(),
            ),
            Act::Overwrite(_, rows) => {
                let cols: Vec<String> = vec!["c0".into(), "c1".into(), "c2".into()];
                Effect::ReplaceAll(cols.clone(), rows.iter().map(|(k, x)| row_map(&cols, *k, *x)).collect())
            }
            Act::Compact | Act::Index => Effect::Nothing,
            Act::AddCol(k) => Effect::AddCol(format!("d{k}"), at.rows.keys().map(|key| (*key, Some(*key + *k as i64))).collect()),
            Act::DropCol(c) => Effect::DropCol(c.clone()),
        }
    }
}

// ---------------------------------------------------------------------------------------------- generator

/// generator-side picture of the table at creation time (only used to make the generated ops meaningful)
#[derive(Clone, Debug, Default)]
struct Sim {
    /// fragment -> keys, as created
    frags: Vec<Vec<i64>>,
    next_key: i64,
    next_col: u64,
    added: Vec<u64>,
}

const KINDS: [&str; 10] = ["append", "delete", "delx", "upd", "overwrite", "compact", "index", "addcol", "dropcol", "delall"];

impl Sim {
    fn new_rows(&mut self, n: usize, rng: &mut Rng) -> Vec<(i64, Cell)> {
        (0..n)
            .map(|_| {
                let k = self.next_key;
                self.next_key += 1;
                (k, if rng.chance(1, 12) { None } else { Some(10 * (1 + rng.below(3)) as i64) })
            })
            .collect()
    }
    /// keys of fragment `f` (all of them with probability 1/4)
    fn keys_in(&self, f: usize, rng: &mut Rng) -> Vec<i64> {
        let ks = &self.frags[f % self.frags.len()];
        if rng.chance(1, 4) {
            return ks.clone();
        }
        let mut out = vec![*rng.pick(ks)];
        if rng.chance(1, 3) {
            let k = *rng.pick(ks);
            if !out.contains(&k) {
                out.push(k);
            }
        }
        out
    }
    fn gen_act(&mut self, rng: &mut Rng, kind: &str, frag: usize) -> Act {
        match kind {
            "append" => {
                let n = 1 + rng.usize(2);
                Act::Append(self.new_rows(n, rng))
            }
            "delete" => {
                let mut ks = self.keys_in(frag, rng);
                if rng.chance(1, 10) {
                    ks.push(9000 + rng.below(5) as i64);
                }
                Act::Delete(ks)
            }
            "delx" => Act::Delx(10 * (1 + rng.below(3)) as i64),
            "delall" => Act::Delall,
            "upd" => Act::Upd(self.keys_in(frag, rng), 10 * (5 + rng.below(3)) as i64),
            "overwrite" => {
                let n = 1 + rng.usize(3);
                Act::Overwrite(1 + rng.usize(2), self.new_rows(n, rng))
            }
            "compact" => Act::Compact,
            "index" => Act::Index,
            "addcol" => {
                let k = self.next_col;
                self.next_col += 1;
                self.added.push(k);
                Act::AddCol(k)
            }
            _ => {
                if !self.added.is_empty() && rng.chance(1, 2) {
                    Act::DropCol(format!("d{}", rng.pick(&self.added)))
                } else {
                    Act::DropCol("c2".into())
                }
            }
        }
    }
}

impl Prop for C03 {
    fn id(&self) -> &'static str {
        "C03"
    }

    fn budget(&self, tier: Tier) -> usize {
        match tier {
            Tier::Quick => 1400,
            Tier::Thorough => 20000,
            Tier::Search => 6000,
        }
    }

    fn gen_case(&mut self, rng: &mut Rng, _tier: Tier, idx: usize) -> Vec<String> {
        let nk = KINDS.len();
        let mut sim = Sim { next_key: 1, next_col: 1, ..Default::default() };
        let mut lines: Vec<String> = vec![];
        let push = |lines: &mut Vec<String>, h: usize, a: &Act| lines.push(format!("{h} {}", show_act(a)));
        // table: 3 fragments of 2-3 rows
        let f = 2 + rng.usize(2);
        let rows = sim.new_rows(3 * f, rng);
        for c in rows.chunks(f) {
            sim.frags.push(c.iter().map(|r| r.0).collect());
        }
        lines.push(format!("create f={f} {}", show_kx(&rows)));
        // optional preparation through handle 0: an index that covers the first fragments only, a deletion, a column
        let prep = |lines: &mut Vec<String>, sim: &mut Sim, rng: &mut Rng, variant: u64| {
            if variant & 1 == 1 {
                push(lines, 0, &Act::Index);
                let a = sim.gen_act(rng, "append", 0);
                if let Act::Append(r) = &a {
                    sim.frags.push(r.iter().map(|x| x.0).collect());
                }
                push(lines, 0, &a);
            }
            if variant & 2 == 2 {
                let k = sim.frags[0][0];
                push(lines, 0, &Act::Delete(vec![k]));
                sim.frags[0].remove(0);
            }
            if variant & 4 == 4 {
                let a = sim.gen_act(rng, "addcol", 0);
                push(lines, 0, &a);
            }
        };
        if idx < 2 * nk * nk {
            // every ordered pair of op kinds, built at the same version, on the same fragment / on different fragments
            let same = idx < nk * nk;
            let (a, b) = ((idx % (nk * nk)) / nk, idx % nk);
            let variant = rng.below(8);
            prep(&mut lines, &mut sim, rng, variant);
            for h in 0..NH {
                lines.push(format!("open {h}"));
            }
            let a1 = sim.gen_act(rng, KINDS[a], 1);
            push(&mut lines, 1, &a1);
            let a2 = sim.gen_act(rng, KINDS[b], if same { 1 } else { 2 });
            push(&mut lines, 2, &a2);
            // a third, later-built transaction sees the outcome
            if rng.chance(1, 2) {
                lines.push("open 3".into());
                let k = *rng.pick(&KINDS[..7]);
                let fr = rng.usize(3);
                let a3 = sim.gen_act(rng, k, fr);
                push(&mut lines, 3, &a3);
            }
            return lines;
        }
        // 3-4 transactions built at (mostly) the same version, committed in a random order, sometimes re-opened
        let variant = rng.below(8);
        prep(&mut lines, &mut sim, rng, variant);
        if rng.chance(1, 16) {
            // field-id re-use shape: add a column, leave handles 1..3 at that version, drop the column (its data files
            // go and the maximum field id falls back), add another column (same field id), then the stale handles
            // write.  A stale append is the open finding `append_after_field_id_reuse`; every other stale writer
            // (update, delete, compaction, index, drop / add column) must still serialise.
            let a = sim.gen_act(rng, "addcol", 0);
            let k = match &a {
                Act::AddCol(k) => *k,
                _ => 0,
            };
            push(&mut lines, 0, &a);
            for h in 1..NH {
                lines.push(format!("open {h}"));
            }
            push(&mut lines, 0, &Act::DropCol(format!("d{k}")));
            let b = sim.gen_act(rng, "addcol", 0);
            push(&mut lines, 0, &b);
            sim.added.retain(|x| *x != k);
            for h in 1..NH {
                let kind = match rng.below(8) {
                    0..=2 => "append",
                    3 => "upd",
                    4 => "delete",
                    5 => "compact",
                    6 => "index",
                    _ => "addcol",
                };
                let fr = rng.usize(3);
                let act = sim.gen_act(rng, kind, fr);
                push(&mut lines, h, &act);
            }
            lines.push("open 0".into());
            let fr = rng.usize(3);
            let act = sim.gen_act(rng, "delete", fr);
            push(&mut lines, 0, &act);
            return lines;
        }
        for h in 0..NH {
            lines.push(format!("open {h}"));
        }
        let n = 3 + rng.usize(4);
        let mut order: Vec<usize> = (0..NH).collect();
        for i in (1..NH).rev() {
            order.swap(i, rng.usize(i + 1));
        }
        for i in 0..n {
            let h = order[i % NH];
            if i >= NH || rng.chance(1, 8) {
                if rng.chance(2, 3) {
                    lines.push(format!("open {h}"));
                }
            }
            let kind = match rng.below(24) {
                0..=3 => "delete",
                4..=5 => "delx",
                6..=9 => "upd",
                10..=12 => "append",
                13..=15 => "compact",
                16..=17 => "index",
                18..=19 => "addcol",
                20..=21 => "dropcol",
                22 => "overwrite",
                _ => "delall",
            };
            let fr = rng.usize(3);
            let a = sim.gen_act(rng, kind, fr);
            push(&mut lines, h, &a);
        }
        // malformed stream (<= 15 %)
        if rng.chance(1, 8) && lines.len() > 2 {
            let i = 1 + rng.usize(lines.len() - 1);
            lines[i] = match rng.below(7) {
                0 => format!("{} extra", lines[i]),
                1 => "7 compact".into(),
                2 => "0 append 1,n,3".into(),
                3 => "1 dropcol c1".into(),
                4 => "0 append n,5".into(),
                5 => "2 addcol 100".into(),
                _ => "0 append 1,2".into(),
            };
        }
        lines
    }

    fn exec_case(&mut self, lines: &[String]) -> CaseResult {
        self.kit.reset_session();
        let uri = self.kit.fresh_uri();
        let mut res = CaseResult::default();
        let debug = std::env::var("C03_DEBUG").is_ok();
        let mut handles: Vec<Option<Dataset>> = vec![None; NH];
        let mut anchor: Option<Dataset> = None;
        let mut used_keys: BTreeSet<i64> = BTreeSet::new();
        // the table as scanned at every version that was the latest after a step
        let mut snapshots: BTreeMap<u64, RefTbl> = BTreeMap::new();
        let mut reference = RefTbl::default();
        let mut seen_version = 0u64;
        let mut n_stale_commits = 0usize;
        let mut n_conflicts = 0usize;

        for (ln, line) in lines.iter().enumerate() {
            let Some(op) = parse_op(line) else {
                res.outputs.push("err parse".into());
                res.tags.push("err:parse".into());
                continue;
            };
            let (h, act) = match op {
                Op::Create { f, rows } => {
                    if anchor.is_some() {
                        res.outputs.push("err no_table".into());
                        continue;
                    }
                    let keys: Vec<i64> = rows.iter().map(|r| r.0).collect();
                    if keys.iter().collect::<BTreeSet<_>>().len() != keys.len() {
                        res.outputs.push("err keys".into());
                        continue;
                    }
                    let cols: Vec<String> = vec!["c0".into(), "c1".into(), "c2".into()];
                    let (schema, b) = Self::batch_for(&cols, &rows);
                    let reader = RecordBatchIterator::new(vec![Ok(b)].into_iter(), schema);
                    let params = WriteParams {
                        mode: WriteMode::Create,
                        max_rows_per_file: f,
                        session: Some(self.kit.session.clone()),
                        ..Default::default()
                    };
                    match self.kit.lance_call("create", Dataset::write(reader, uri.as_str(), Some(params))) {
                        Ok(d) => {
                            used_keys.extend(keys);
                            for hh in handles.iter_mut() {
                                *hh = Some(d.clone());
                            }
                            seen_version = d.manifest().version;
                            res.tags.push("op:create".into());
                            match self.observe(&d) {
                                Ok(o) => {
                                    if let Some(t) = RefTbl::from_scan(&o.cols, &o.scan) {
                                        reference = t.clone();
                                        snapshots.insert(o.version, t);
                                    }
                                    res.outputs.push(format!(
                                        "ok v={} txn=create cols={} frags={} idx={} scan={}",
                                        o.version,
                                        join_or(",", o.cols.clone()),
                                        o.frags,
                                        o.idx,
                                        show_rows(&o.scan)
                                    ))
                                }
                                Err(e) => res.outputs.push(format!("err observe {}", e.kind.as_str())),
                            }
                            anchor = Some(d);
                        }
                        Err(e) => {
                            if debug {
                                eprintln!("create: {}", e.msg);
                            }
                            res.outputs.push(format!("err {} v=0", e.kind.as_str()));
                        }
                    }
                    continue;
                }
                Op::Open(h) => {
                    if anchor.is_none() {
                        res.outputs.push("err no_table".into());
                        continue;
                    }
                    match self.kit.open(&uri, None) {
                        Ok(d) => {
                            res.outputs.push(format!("ok v={}", d.manifest().version));
                            handles[h] = Some(d);
                        }
                        Err(e) => res.outputs.push(format!("err {}", e.kind.as_str())),
                    }
                    res.tags.push("op:open".into());
                    continue;
                }
                Op::Do(h, act) => (h, act),
            };
            let Some(handle) = handles[h].clone() else {
                res.outputs.push("err no_table".into());
                continue;
            };
            let name = act_name(&act);
            res.tags.push(format!("op:{name}"));
            // ---- interpreter-level rejections (identical in the Lean driver)
            let has_col = |c: &str| handle.schema().fields.iter().any(|f| f.name == c);
            let reject: Option<&'static str> = match &act {
                Act::Append(rows) | Act::Overwrite(_, rows) => {
                    let keys: Vec<i64> = rows.iter().map(|r| r.0).collect();
                    if keys.iter().any(|k| used_keys.contains(k)) || keys.iter().collect::<BTreeSet<_>>().len() != keys.len() {
                        Some("keys")
                    } else {
                        None
                    }
                }
                Act::AddCol(k) => has_col(&format!("d{k}")).then_some("exists"),
                Act::DropCol(c) => (!has_col(c)).then_some("nocol"),
                _ => None,
            };
            if let Some(kind) = reject {
                res.outputs.push(format!("err {kind}"));
                res.tags.push(format!("err:{kind}"));
                continue;
            }
            if let Act::Append(rows) | Act::Overwrite(_, rows) = &act {
                used_keys.extend(rows.iter().map(|r| r.0));
            }
            let read_version = handle.manifest().version;
            let stale = read_version < seen_version;
            // ---- the effect, from the table as it was at the read version
            let effect = snapshots.get(&read_version).map(|at| Self::effect(at, &act));
            // ---- run on the real code
            let r = catch_unwind(AssertUnwindSafe(|| self.run_act(&handle, &act))).unwrap_or_else(|e| {
                let msg = e
                    .downcast_ref::<String>()
                    .cloned()
                    .or_else(|| e.downcast_ref::<&str>().map(|s| s.to_string()))
                    .unwrap_or_else(|| "panic".into());
                Err(KitError { kind: ErrKind::Other, msg: format!("PANIC {msg}") })
            });
            // ---- observe the latest version through fresh caches
            self.fresh_session();
            let latest = match self.kit.open(&uri, None) {
                Ok(d) => d,
                Err(e) => {
                    res.failures.push(OracleFailure { what: format!("re-opening failed: {}", e.msg), key: Some("reopen_error".into()), line: ln });
                    res.outputs.push("err reopen".into());
                    continue;
                }
            };
            let obs = match self.observe(&latest) {
                Ok(o) => o,
                Err(e) => {
                    res.failures.push(OracleFailure {
                        what: format!("observing v{} failed: {}", latest.manifest().version, e.msg),
                        key: Some("observe_error".into()),
                        line: ln,
                    });
                    res.outputs.push("err observe".into());
                    continue;
                }
            };
            let committed = r.is_ok();
            match &r {
                Err(e) => {
                    if debug {
                        eprintln!("line {ln} `{line}`: {:?}: {}", e.kind, e.msg);
                    }
                    if e.msg.starts_with("PANIC") {
                        res.failures.push(OracleFailure { what: format!("{name}: {}", e.msg), key: Some("panic".into()), line: ln });
                        res.outputs.push(format!("err panic v={}", obs.version));
                    } else {
                        res.outputs.push(format!("err {} v={}", e.kind.as_str(), obs.version));
                    }
                    if matches!(e.kind, ErrKind::ConflictRetryable | ErrKind::ConflictIncompatible) {
                        n_conflicts += 1;
                    }
                    res.tags.push(format!("err:{}:{}", e.kind.as_str(), name));
                }
                Ok(d) => {
                    handles[h] = Some(d.clone());
                    let moved = obs.version > seen_version;
                    let mut txn_text = "none".to_string();
                    if moved {
                        if let Ok(Some(t)) =
                            self.kit.lance_call("read_transaction_by_version", latest.read_transaction_by_version(obs.version))
                        {
                            txn_text = show_txn(&t);
                        }
                        if stale {
                            n_stale_commits += 1;
                            res.tags.push(format!("stale_ok:{name}"));
                        }
                    }
                    res.outputs.push(format!(
                        "ok v={} txn={} cols={} frags={} idx={} scan={}",
                        obs.version,
                        txn_text,
                        join_or(",", obs.cols.clone()),
                        obs.frags,
                        obs.idx,
                        show_rows(&obs.scan)
                    ));
                }
            }
            seen_version = obs.version;
            anchor = Some(latest.clone());
            // ---- property oracle: serial replay
            let mut replay_note = String::new();
            if committed {
                match &effect {
                    Some(e) => {
                        if let Err(msg) = apply_effect(&mut reference, e) {
                            replay_note = msg;
                        }
                    }
                    None => replay_note = format!("no snapshot of read version {read_version}"),
                }
            }
            let mut got = obs.scan.clone();
            got.sort();
            let mut want = reference.canon();
            want.sort();
            let observed = RefTbl::from_scan(&obs.cols, &obs.scan);
            if got != want || obs.cols != reference.cols || !replay_note.is_empty() || observed.is_none() {
                // classification from the REAL schemas: the transaction appended rows written against a schema one of
                // whose field ids now belongs to a column of another name, and only such columns differ
                let reused: Vec<String> = latest
                    .schema()
                    .fields
                    .iter()
                    .filter(|f| handle.schema().fields.iter().any(|g| g.id == f.id && g.name != f.name))
                    .map(|f| f.name.clone())
                    .collect();
                let only_reused_differ = obs.cols == reference.cols
                    && replay_note.is_empty()
                    && got.len() == want.len()
                    && got.iter().zip(want.iter()).all(|(a, b)| {
                        a.len() == b.len() && (0..a.len()).all(|i| a[i] == b[i] || reused.contains(&obs.cols[i]))
                    });
                let key = if !committed {
                    KEY_FAILED
                } else if matches!(act, Act::Append(_)) && !reused.is_empty() && only_reused_differ {
                    KEY_REUSE
                } else {
                    KEY_REPLAY
                };
                res.failures.push(OracleFailure {
                    what: format!(
                        "v{} after `{}` ({}, built at v{}): table has cols {:?} rows {} but the serial replay of the committed effects gives cols {:?} rows {} {}",
                        obs.version,
                        line,
                        if committed { "committed" } else { "failed" },
                        read_version,
                        obs.cols,
                        show_rows(&got),
                        reference.cols,
                        show_rows(&want),
                        replay_note
                    ),
                    key: Some(key.to_string()),
                    line: ln,
                });
                res.tags.push(format!("oracle:{key}"));
                // resynchronise so that one defect is reported once
                if let Some(t) = observed.clone() {
                    reference = t;
                }
            }
            if let Some(t) = observed {
                snapshots.insert(obs.version, t);
            }
        }
        res.nontrivial = n_stale_commits > 0 || n_conflicts > 0;
        if n_stale_commits > 0 {
            res.tags.push("stale_commit".into());
        }
        if n_conflicts > 0 {
            res.tags.push("conflict".into());
        }
        drop(handles);
        drop(anchor);
        res
    }

    fn rule(&self) -> String {
        "one memory:// table (key, x, y [, d<k>]) of 3-4 fragments and four handles that go stale: first every ordered pair \
         of {append, delete by key, delete by value, update, overwrite, compact, create index, add column, drop column, \
         delete all} built at the same version and committed one after the other, once with both touching the same \
         fragment and once different fragments, after a random preparation (index covering a prefix of the fragments, a \
         deletion, an added column), often followed by a third transaction built afterwards; then histories of 3-6 \
         transactions over the four handles in a random handle order with occasional re-opening (1/16 of them in the \
         field-id re-use shape: add column, stale handles, drop it, add another, stale writers); 1/8 of the random cases \
         get a malformed line. After every step the committed transaction, columns, fragments with deletion vectors, index \
         bitmaps and the ordered scan are compared with the model, and the sorted scan with the Rust-side serial replay \
         of the effects computed at the read versions. Non-trivial = a transaction built at a stale version was \
         committed, or a conflict was reported."
            .into()
    }
}

fn main() {
    run_main(C03 { kit: Kit::new() })
}
