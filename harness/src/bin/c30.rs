//! C30: the I/O scheduler returns exactly the requested bytes and always completes.
//!
//! Line protocol (one output line per op line):
//!   req  bs=<block> max=<max_iop> <ranges>            FileScheduler::submit_request over a memory store
//!   ereq chunk=<c> bs=<block> max=<max_iop> <ranges>  LanceEncodingsIo::submit_request (read_chunk_size = c) on top of it
//!        -> `ok n=<buffers> iops=<issued> <len>:<hash>;…` | `panic` | `err` | `hang`
//!   q …                                                IoQueue probe (see `exec_q`)
//!   conc cap=<c> buf=<b> bs=<block> max=<m> mode=<join|seq|drop> | <prio>:<ranges> | …   black-box: several requests in flight
//!   scen cap=<c> buf=<b> bs=<block> max=<m> <step> <step> …   black-box scripted scenario (see harness/src/c30_scen.rs)
//! <ranges> = `s-e,s-e,…` or `-` (no range).  The file is FILE_LEN bytes, byte i = (i*i + 7*i + 3) % 251.

use std::collections::HashMap;
use std::ops::Range;
use std::panic::{catch_unwind, AssertUnwindSafe};
use std::sync::Arc;
use std::time::Duration;

use bytes::Bytes;
use hcommon::*;
use lance_encoding::EncodingsIo;
use lance_file::LanceEncodingsIo;
use lance_io::object_store::ObjectStore;
use lance_io::scheduler::{FileScheduler, ScanScheduler, SchedulerConfig};
use lance_io::utils::CachedFileSize;
use object_store::memory::InMemory;
use object_store::path::Path;

#[path = "../c30_queue.rs"]
mod c30_queue;
#[path = "../c30_scen.rs"]
mod c30_scen;

const FILE_LEN: u64 = 4096;

fn file_byte(i: u64) -> u8 {
    ((i * i + 7 * i + 3) % 251) as u8
}

fn hash_buf(b: &[u8]) -> u64 {
    let mut h = 0u64;
    for x in b {
        h = (h * 31 + *x as u64 + 1) % 1_000_003;
    }
    h
}

pub fn parse_ranges(s: &str) -> Option<Vec<Range<u64>>> {
    if s == "-" {
        return Some(vec![]);
    }
    s.split(',')
        .map(|t| {
            let (a, b) = t.split_once('-')?;
            Some(a.parse().ok()?..b.parse().ok()?)
        })
        .collect()
}

pub fn show_ranges(rs: &[Range<u64>]) -> String {
    if rs.is_empty() {
        "-".into()
    } else {
        rs.iter().map(|r| format!("{}-{}", r.start, r.end)).collect::<Vec<_>>().join(",")
    }
}

fn kv<'a>(tok: &'a str, key: &str) -> Option<&'a str> {
    tok.strip_prefix(key)?.strip_prefix('=')
}

/// the precondition under which the (repaired) code meets the property: non-empty ranges ordered by start
fn nonempty_sorted(rs: &[Range<u64>]) -> bool {
    let ne: Vec<&Range<u64>> = rs.iter().filter(|r| r.start < r.end).collect();
    ne.windows(2).all(|w| w[0].start <= w[1].start)
}

struct Store {
    sched: Arc<ScanScheduler>,
    fs: FileScheduler,
    default_max: u64,
}

struct C30 {
    rt: tokio::runtime::Runtime,
    data: Vec<u8>,
    stores: HashMap<u64, Store>,
    reader: Arc<dyn lance_io::traits::Reader>,
}

impl C30 {
    fn new() -> Self {
        let rt = tokio::runtime::Builder::new_current_thread().enable_all().build().unwrap();
        let data: Vec<u8> = (0..FILE_LEN).map(file_byte).collect();
        let d2 = data.clone();
        let reader: Arc<dyn lance_io::traits::Reader> = rt.block_on(async move {
            let os = ObjectStore::memory();
            let path = Path::from("f.bin");
            os.put(&path, &d2).await.unwrap();
            Arc::from(os.open(&path).await.unwrap())
        });
        Self { rt, data, stores: HashMap::new(), reader }
    }

    fn make_store(&self, bs: u64, io_parallelism: usize, buffer: u64) -> Store {
        let data = self.data.clone();
        self.rt.block_on(async move {
            let os = Arc::new(ObjectStore::new(
                Arc::new(InMemory::new()),
                url::Url::parse("memory:///").unwrap(),
                Some(bs as usize),
                None,
                false,
                true,
                io_parallelism,
                3,
                None,
            ));
            let path = Path::from("f.bin");
            os.put(&path, &data).await.unwrap();
            let default_max = os.max_iop_size();
            let sched = ScanScheduler::new(os, SchedulerConfig { io_buffer_size_bytes: buffer });
            let fs = sched.open_file(&path, &CachedFileSize::unknown()).await.unwrap();
            Store { sched, fs, default_max }
        })
    }

    fn fs_for(&mut self, bs: u64, max: u64) -> (FileScheduler, Arc<ScanScheduler>) {
        if !self.stores.contains_key(&bs) {
            let st = self.make_store(bs, 8, 1 << 28);
            self.stores.insert(bs, st);
        }
        let st = &self.stores[&bs];
        let fs = if max == st.default_max {
            st.fs.clone() // the unhooked path: max_iop_size from LANCE_MAX_IOP_SIZE
        } else {
            lance_io::scheduler::verif_hooks::with_max_iop_size(&st.fs, max)
        };
        (fs, st.sched.clone())
    }

    /// property oracle for one response: one buffer per range, in order, equal to the file slice
    fn judge(&self, ranges: &[Range<u64>], bufs: &[Bytes]) -> Option<String> {
        if bufs.len() != ranges.len() {
            return Some(format!("{} buffers for {} ranges {}", bufs.len(), ranges.len(), show_ranges(ranges)));
        }
        for (i, (b, r)) in bufs.iter().zip(ranges).enumerate() {
            if b.as_ref() != &self.data[r.start as usize..r.end as usize] {
                return Some(format!("buffer {i} is not the file slice {}-{} (len {})", r.start, r.end, b.len()));
            }
        }
        None
    }

    fn exec_req(&mut self, toks: &[&str], line_no: usize, res: &mut CaseResult) -> String {
        let enc = toks[0] == "ereq";
        let mut i = 1;
        let chunk = if enc {
            i += 1;
            kv(toks[1], "chunk").and_then(|v| v.parse::<u64>().ok())
        } else {
            Some(0)
        };
        if toks.len() != i + 3 {
            return "bad-op".into();
        }
        let (Some(chunk), Some(bs), Some(max), Some(ranges)) = (
            chunk,
            kv(toks[i], "bs").and_then(|v| v.parse::<u64>().ok()),
            kv(toks[i + 1], "max").and_then(|v| v.parse::<u64>().ok()),
            parse_ranges(toks[i + 2]),
        ) else {
            return "bad-op".into();
        };
        if max == 0 || (enc && chunk == 0) || ranges.iter().any(|r| r.start > r.end || r.end > FILE_LEN) {
            return "bad-op".into();
        }
        let (fs, sched) = self.fs_for(bs, max);
        let iops0 = sched.stats().iops;
        let rq = ranges.clone();
        let rt = &self.rt;
        let out = catch_unwind(AssertUnwindSafe(|| {
            rt.block_on(async move {
                if enc {
                    let io = LanceEncodingsIo::new(fs).with_read_chunk_size(chunk);
                    tokio::time::timeout(Duration::from_secs(10), io.submit_request(rq, 0)).await
                } else {
                    tokio::time::timeout(Duration::from_secs(10), fs.submit_request(rq, 0)).await
                }
            })
        }));
        let iops = sched.stats().iops - iops0;
        let sorted = nonempty_sorted(&ranges);
        let fail_key = |enc_split_unsorts: bool| -> String {
            if !sorted {
                "unsorted_ranges".into()
            } else if enc_split_unsorts {
                "encodings_io_chunks_unsorted".into()
            } else {
                "response_mismatch".into()
            }
        };
        // for `ereq`: does the chunk split itself produce a list that is not ordered by start?
        let enc_unsorts = enc && {
            let mut split = vec![];
            for r in &ranges {
                let sz = r.end - r.start;
                if sz > chunk {
                    let n = sz.div_ceil(chunk);
                    let cs = sz / n;
                    for k in 0..n {
                        let s = r.start + k * cs;
                        split.push(s..if k == n - 1 { r.end } else { s + cs });
                    }
                } else {
                    split.push(r.clone());
                }
            }
            !nonempty_sorted(&split)
        };
        if ranges.iter().any(|r| r.start == r.end) {
            res.tags.push("has_empty_range".into());
        }
        if !sorted {
            res.tags.push("malformed_unsorted".into());
        }
        if ranges.windows(2).any(|w| w[1].start < w[0].end && w[1].start >= w[0].start && w[1].start < w[1].end) {
            res.tags.push("overlapping_or_nested".into());
        }
        let nonempty = ranges.iter().filter(|r| r.start < r.end).count() as u64;
        if iops < nonempty {
            res.tags.push("coalesced".into());
        }
        if ranges.iter().any(|r| r.end - r.start > max) {
            res.tags.push("split".into());
        }
        match out {
            Err(_) => {
                res.tags.push("out_panic".into());
                res.failures.push(OracleFailure {
                    what: format!("submit_request panicked on {} (bs={bs} max={max})", show_ranges(&ranges)),
                    key: Some(fail_key(enc_unsorts)),
                    line: line_no,
                });
                "panic".into()
            }
            Ok(Err(_elapsed)) => {
                res.failures.push(OracleFailure {
                    what: format!("request did not complete within 10 s: {}", show_ranges(&ranges)),
                    key: Some("hang".into()),
                    line: line_no,
                });
                "hang".into()
            }
            Ok(Ok(Err(e))) => {
                res.tags.push("out_err".into());
                res.failures.push(OracleFailure {
                    what: format!("in-file request failed: {e}"),
                    key: Some(fail_key(enc_unsorts)),
                    line: line_no,
                });
                "err".into()
            }
            Ok(Ok(Ok(bufs))) => {
                if let Some(what) = self.judge(&ranges, &bufs) {
                    res.failures.push(OracleFailure {
                        what: format!("{what} (bs={bs} max={max}{})", if enc { format!(" chunk={chunk}") } else { String::new() }),
                        key: Some(fail_key(enc_unsorts)),
                        line: line_no,
                    });
                }
                if ranges.len() >= 2 && (iops != nonempty || ranges.iter().any(|r| r.start == r.end)) {
                    res.nontrivial = true;
                }
                let body: Vec<String> = bufs.iter().map(|b| format!("{}:{}", b.len(), hash_buf(b))).collect();
                format!("ok n={} iops={} {}", bufs.len(), iops, if body.is_empty() { "-".into() } else { body.join(";") })
            }
        }
    }
}

// ---------------------------------------------------------------- generators

fn gen_sorted_ranges(r: &mut Rng, small: bool, max: u64, bs: u64) -> Vec<Range<u64>> {
    let n = match r.below(10) {
        0 => 0,
        1 => 1,
        2..=4 => 2,
        5..=7 => 3,
        _ => 4 + r.below(3),
    };
    let lim = if small { 12 } else { FILE_LEN };
    let mut out: Vec<Range<u64>> = vec![];
    let mut s = if small { r.below(4) } else { r.below(200) };
    for _ in 0..n {
        let len = if small {
            r.below(7)
        } else {
            match r.below(10) {
                0 => 0,
                1 => 1,
                2..=4 => 1 + r.below(12),
                5..=6 => max.min(600) + r.below(3) - 1.min(max),          // around the split threshold
                7 => (2 * max.min(400) + r.below(max.min(400) + 1)).max(1), // split into several pieces
                _ => 1 + r.below(120),
            }
        };
        let s0 = s.min(lim);
        let e0 = (s0 + len).min(lim);
        out.push(s0..e0);
        // next start: same start / inside the previous range / adjacent / within the block / far away
        s = match r.below(10) {
            0 => s0,
            1..=2 => s0 + r.below(len + 1),
            3 => e0,
            4..=5 => e0 + r.below(bs + 2),
            6 => e0 + bs + 1 + r.below(3),
            _ => e0 + bs + 1 + r.below(if small { 3 } else { 300 }),
        };
    }
    // empty ranges may sit anywhere (they take no part in coalescing): sprinkle a few at arbitrary offsets
    if r.chance(1, 4) {
        let k = 1 + r.usize(2);
        for _ in 0..k {
            let p = r.below(lim + 1);
            let at = r.usize(out.len() + 1);
            out.insert(at, p..p);
        }
    }
    out
}

fn pick_params(r: &mut Rng, small: bool, default_max: u64) -> (u64, u64) {
    let bs = if small { *r.pick(&[0, 0, 1, 2]) } else { *r.pick(&[0, 1, 2, 4, 8, 16, 64, 4096]) };
    let max = if small {
        *r.pick(&[1, 2, 3, 5, 100])
    } else {
        *r.pick(&[1, 2, 3, 5, 7, 16, 50, 64, 100, 1000, default_max, default_max])
    };
    (bs, max)
}

impl Prop for C30 {
    fn id(&self) -> &'static str {
        "C30"
    }
    fn budget(&self, tier: Tier) -> usize {
        match tier {
            Tier::Quick => 20_000,
            Tier::Thorough => 600_000,
            Tier::Search => 150_000,
        }
    }
    fn rule(&self) -> String {
        "three case kinds by index mod 4. (0,1) range cases: 6-10 `req`/`ereq` lines, each a range list over a 4096-byte file with \
         block size in {0,1,2,4,8,16,64,4096} and max_iop_size in {1,2,3,5,7,16,50,64,100,1000,$LANCE_MAX_IOP_SIZE} (the env value goes \
         through the unhooked FileScheduler); lists are generated ordered by start with equal starts, nested, overlapping, adjacent, \
         within-block and far-apart successors, lengths around and above the split threshold, and empty ranges sprinkled at arbitrary \
         offsets; every second such case uses a 12-byte universe (near-exhaustive small scope); <=12% of the lines are a labelled malformed \
         stream (non-empty ranges not ordered by start). (2) queue cases: 20-60 events on the IoQueue probe (push/next/iop_done/consumed/close) \
         with capacities 1-3 and byte budgets 0-64, priorities with ties. (3) black-box cases, alternating: `conc` = 2-5 concurrent requests with priorities through \
         a ScanScheduler with io_parallelism 1-3 and a byte budget of 1-200 (join / priority-ordered await / scheduler dropped first); `scen` = scripted \
         scenarios (submit / let the I/O loop run until it parks / await the most urgent outstanding request / drop the scheduler) over budgets 1-64: \
         priority inversion behind a throttled request, a failing read (range past EOF) followed by less urgent traffic, dropping the scheduler and \
         its last FileScheduler with a queued throttled request, and random scripts; every await and the drop run under a 5 s hang watchdog. Non-trivial: a request with >=2 ranges \
         where coalescing/splitting/empty ranges occur; a queue case where next was refused at least once and later succeeded; distinct = \
         distinct op-line text."
            .into()
    }
    fn gen_case(&mut self, r: &mut Rng, _tier: Tier, idx: usize) -> Vec<String> {
        let default_max = *lance_io::object_store::DEFAULT_MAX_IOP_SIZE;
        match idx % 4 {
            2 => c30_queue::gen_queue_case(r, &self.reader),
            3 if (idx / 4) % 2 == 0 => c30_queue::gen_conc_case(r, default_max),
            3 => c30_scen::gen_scen_case(r, default_max),
            k => {
                let small = k == 1;
                let n = 6 + r.usize(5);
                let mut l = vec![];
                for _ in 0..n {
                    let (bs, max) = pick_params(r, small, default_max);
                    let mut rs = gen_sorted_ranges(r, small, max, bs);
                    if r.chance(12, 100) && rs.len() >= 2 {
                        // malformed stream: move one non-empty range in front of an earlier one
                        let i = r.usize(rs.len());
                        let x = rs.remove(i);
                        let j = r.usize(rs.len() + 1);
                        rs.insert(j, x);
                    }
                    if r.chance(1, 4) {
                        let chunk = if small { *r.pick(&[1, 2, 3, 4, 50]) } else { *r.pick(&[1, 3, 10, 30, 100, 1000]) };
                        l.push(format!("ereq chunk={chunk} bs={bs} max={max} {}", show_ranges(&rs)));
                    } else {
                        l.push(format!("req bs={bs} max={max} {}", show_ranges(&rs)));
                    }
                }
                l
            }
        }
    }
    fn exec_case(&mut self, lines: &[String]) -> CaseResult {
        let mut res = CaseResult::default();
        let mut q = c30_queue::QState::default();
        for (n, line) in lines.iter().enumerate() {
            let toks: Vec<&str> = line.split(' ').filter(|t| !t.is_empty()).collect();
            let out = match toks.first().copied() {
                Some("req") | Some("ereq") => self.exec_req(&toks, n, &mut res),
                Some("q") => c30_queue::exec_q(&mut q, &self.reader, &toks, n, &mut res),
                Some("conc") => c30_queue::exec_conc(self, &toks, n, &mut res),
                Some("scen") => c30_scen::exec_scen(self, &toks, n, &mut res),
                _ => "bad-op".into(),
            };
            if out.contains("hang") {
                // after a hang the old runtime may hold blocked tasks / locked queues: abandon it
                self.reset_runtime();
            }
            res.outputs.push(out);
        }
        res
    }
}

impl C30 {
    pub fn rt(&self) -> &tokio::runtime::Runtime {
        &self.rt
    }
    fn reset_runtime(&mut self) {
        let rt = tokio::runtime::Builder::new_current_thread().enable_all().build().unwrap();
        std::mem::forget(std::mem::replace(&mut self.rt, rt));
        for (_, st) in self.stores.drain() {
            std::mem::forget(st);
        }
    }
    pub fn store_with(&self, bs: u64, io_parallelism: usize, buffer: u64) -> (FileScheduler, Arc<ScanScheduler>, u64) {
        let st = self.make_store(bs, io_parallelism, buffer);
        (st.fs, st.sched, st.default_max)
    }
}

fn main() {
    run_main(C30::new())
}
