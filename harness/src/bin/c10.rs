//! C10: external manifest store protocol (rust/lance-table/src/io/commit/external_manifest.rs).
//!
//! The REAL `ExternalManifestCommitHandler::{commit, resolve_version_location, resolve_latest_location}`
//! run as tasks under the gate controller (`gatekit.rs`): every object-store call (gated wrapper around an
//! in-memory `object_store`) and every external-store call (gated in-memory `ExternalManifestStore`) is a
//! yield point that the schedule of the case releases one at a time, with a fault decision.
//!
//! Line protocol (one output line per op line; the Lean driver `drv_c10` prints the same):
//!   cfg <W> <R> <L> <big>   W writers (tasks 0..W), R version readers, L latest readers, all for version slot V; big=1:
//!                           writers report a manifest size of 6 MiB
//!   s <task> <fault>        release the parked call of <task>; fault = ok | fb | lr | alt0 | alt1
//!   c <task>                crash <task> where it stands
//!   end                     crash every task that is still running
//!   pv / pl                 a fresh reader (resolve_version_location / resolve_latest_location) run alone, fault free
//! Output: `<what> | ext=<-|S<i>|F> | objs=<S…,F:<content>> | t0=<next call or =result> t1=…`
//! Staging manifests are named by the writer that put them (`S<i>`), the final path is `F`, contents are writer ids.

#[path = "../gatekit.rs"]
mod gatekit;

use std::collections::{BTreeMap, HashMap};
use std::sync::{Arc, Mutex};

use async_trait::async_trait;
use futures::future::BoxFuture;
use gatekit::{Controller, Fault, GateHandle, GatedObjectStore, Stepped};
use hcommon::*;
use lance_core::datatypes::Schema;
use lance_core::{Error, Result};
use lance_io::object_store::ObjectStore;
use lance_io::object_writer::WriteResult;
use lance_table::format::{DataStorageFormat, IndexMetadata, Manifest, Transaction};
use lance_table::io::commit::external_manifest::{ExternalManifestCommitHandler, ExternalManifestStore};
use lance_table::io::commit::{
    write_manifest_file_to_path, CommitError, CommitHandler, ManifestLocation, ManifestNamingScheme,
};
use lance_table::io::manifest::read_manifest;
use object_store::memory::InMemory;
use object_store::path::Path;
use snafu::location;

const V: u64 = 7;
const BASE: &str = "t";

// ---------------------------------------------------------------------------------------------
// gated in-memory external manifest store

#[derive(Default, Debug)]
struct ExtInner {
    map: HashMap<(String, u64), String>,
    /// every value a slot ever had, oldest first
    hist: HashMap<(String, u64), Vec<String>>,
}

#[derive(Debug)]
struct GatedExt {
    inner: Arc<Mutex<ExtInner>>,
    h: GateHandle,
}

fn injected(op: &str) -> Error {
    Error::io(format!("injected fault at {op}"), location!())
}

fn is_staging(p: &str) -> bool {
    !p.ends_with(".manifest")
}

impl GatedExt {
    /// value of the slot as answered under fault `f` (Alt(0): no entry; Alt(1): first registered staging path)
    fn read(&self, base: &str, version: u64, f: Fault) -> Option<String> {
        let g = self.inner.lock().unwrap();
        let k = (base.to_string(), version);
        match f {
            Fault::Alt(0) => None,
            Fault::Alt(1) => match g.hist.get(&k).and_then(|h| h.first()) {
                Some(p) if is_staging(p) => Some(p.clone()),
                _ => g.map.get(&k).cloned(),
            },
            _ => g.map.get(&k).cloned(),
        }
    }
}

#[async_trait]
impl ExternalManifestStore for GatedExt {
    async fn get(&self, base_uri: &str, version: u64) -> Result<String> {
        let f = self.h.enter(format!("ext.get {version}")).await;
        if f.errors() {
            return Err(injected("get"));
        }
        match self.read(base_uri, version, f) {
            Some(p) => Ok(p),
            None => Err(Error::NotFound { uri: format!("{base_uri}@{version}"), location: location!() }),
        }
    }

    async fn get_latest_version(&self, base_uri: &str) -> Result<Option<(u64, String)>> {
        let f = self.h.enter("ext.latest".to_string()).await;
        if f.errors() {
            return Err(injected("get_latest_version"));
        }
        let latest = {
            let g = self.inner.lock().unwrap();
            g.map.keys().filter(|(b, _)| b == base_uri).map(|(_, v)| *v).max()
        };
        // single slot per case: a stale answer is a stale answer for that slot
        let v = latest.unwrap_or(V);
        Ok(self.read(base_uri, v, f).map(|p| (v, p)))
    }

    async fn put_if_not_exists(&self, base_uri: &str, version: u64, path: &str, _size: u64, _e_tag: Option<String>) -> Result<()> {
        let f = self.h.enter(format!("ext.pine {version} {path}")).await;
        if !f.executes() {
            return Err(injected("put_if_not_exists"));
        }
        let res = {
            let mut g = self.inner.lock().unwrap();
            let k = (base_uri.to_string(), version);
            if g.map.contains_key(&k) {
                Err(Error::io(format!("manifest already exists for {base_uri}@{version}"), location!()))
            } else {
                g.map.insert(k.clone(), path.to_string());
                g.hist.entry(k).or_default().push(path.to_string());
                Ok(())
            }
        };
        if f.errors() {
            return Err(injected("put_if_not_exists"));
        }
        res
    }

    async fn put_if_exists(&self, base_uri: &str, version: u64, path: &str, _size: u64, _e_tag: Option<String>) -> Result<()> {
        let f = self.h.enter(format!("ext.pie {version} {path}")).await;
        if !f.executes() {
            return Err(injected("put_if_exists"));
        }
        let res = {
            let mut g = self.inner.lock().unwrap();
            let k = (base_uri.to_string(), version);
            if g.map.contains_key(&k) {
                g.map.insert(k.clone(), path.to_string());
                g.hist.entry(k).or_default().push(path.to_string());
                Ok(())
            } else {
                Err(Error::io(format!("no manifest for {base_uri}@{version}"), location!()))
            }
        };
        if f.errors() {
            return Err(injected("put_if_exists"));
        }
        res
    }
}

// ---------------------------------------------------------------------------------------------
// manifest writers (fn items of type `ManifestWriter`)

/// the real writer, but reporting a size ≥ 5 MiB (drives the `head(final)` branch of finalize_manifest)
fn big_writer<'a>(
    object_store: &'a ObjectStore,
    manifest: &'a mut Manifest,
    indices: Option<Vec<IndexMetadata>>,
    path: &'a Path,
    transaction: Option<Transaction>,
) -> BoxFuture<'a, Result<WriteResult>> {
    Box::pin(async move {
        let mut r = write_manifest_file_to_path(object_store, manifest, indices, path, transaction).await?;
        r.size = 6 * 1024 * 1024;
        Ok(r)
    })
}

// ---------------------------------------------------------------------------------------------

#[derive(Clone, Copy, PartialEq, Eq, Debug)]
enum Role {
    Writer,
    Reader,
    Latest,
}

/// the world of one case
struct World {
    raw: Arc<InMemory>,
    raw_os: ObjectStore,
    ext: Arc<Mutex<ExtInner>>,
    ctl: Controller<String>,
    roles: Vec<Role>,
    big: bool,
    /// staging path -> writer id
    names: HashMap<String, usize>,
    schema: Schema,
}

fn lance_store(inner: Arc<dyn object_store::ObjectStore>) -> ObjectStore {
    ObjectStore::new(inner, url::Url::parse("memory:///").unwrap(), None, None, false, true, 8, 0, None)
}

fn final_path() -> Path {
    ManifestNamingScheme::V2.manifest_path(&Path::from(BASE), V)
}
fn final_v1_path() -> Path {
    ManifestNamingScheme::V1.manifest_path(&Path::from(BASE), V)
}

fn class_of(e: &Error) -> &'static str {
    match e {
        Error::NotFound { .. } => "notfound",
        _ => "err",
    }
}

/// content id of the manifest stored at `p` (the writer id in its tag), read through the ungated store
async fn content_at(raw_os: &ObjectStore, p: &Path) -> Option<String> {
    match read_manifest(raw_os, p, None).await {
        Ok(m) => Some(m.tag.unwrap_or_else(|| "?".into()).trim_start_matches('w').to_string()),
        Err(_) => None,
    }
}

async fn loc_result(raw_os: &ObjectStore, loc: &ManifestLocation) -> String {
    let want = final_path();
    let what = if loc.path == want { String::new() } else { format!("@{}", loc.path) };
    if loc.version != V {
        return format!("=ok:badversion{}", loc.version);
    }
    match content_at(raw_os, &loc.path).await {
        Some(c) => format!("=ok:{c}{what}"),
        None => format!("=dangling{what}"),
    }
}

impl World {
    fn new(schema: Schema) -> Self {
        let raw = Arc::new(InMemory::new());
        Self {
            raw_os: lance_store(raw.clone()),
            raw,
            ext: Arc::new(Mutex::new(ExtInner::default())),
            ctl: Controller::new(),
            roles: vec![],
            big: false,
            names: HashMap::new(),
            schema,
        }
    }

    fn spawn(&mut self, role: Role) -> usize {
        let t = self.roles.len();
        self.roles.push(role);
        let h = self.ctl.handle(t);
        let os = lance_store(Arc::new(GatedObjectStore::new(self.raw.clone(), h.clone())));
        let handler = ExternalManifestCommitHandler {
            external_manifest_store: Arc::new(GatedExt { inner: self.ext.clone(), h }),
        };
        let raw_os = self.raw_os.clone();
        let base = Path::from(BASE);
        match role {
            Role::Writer => {
                let mut manifest = Manifest::new(self.schema.clone(), Arc::new(vec![]), DataStorageFormat::default(), HashMap::new());
                manifest.version = V;
                manifest.tag = Some(format!("w{t}"));
                let big = self.big;
                self.ctl.spawn(t, async move {
                    let writer = if big { big_writer } else { write_manifest_file_to_path };
                    let r = handler.commit(&mut manifest, None, &base, &os, writer, ManifestNamingScheme::V2, None).await;
                    match r {
                        Ok(loc) => loc_result(&raw_os, &loc).await,
                        Err(CommitError::CommitConflict) => "=conflict".to_string(),
                        Err(CommitError::OtherError(e)) => format!("={}", class_of(&e)),
                    }
                });
            }
            Role::Reader => {
                self.ctl.spawn(t, async move {
                    match handler.resolve_version_location(&base, V, os.inner.as_ref()).await {
                        Ok(loc) => loc_result(&raw_os, &loc).await,
                        Err(e) => format!("={}", class_of(&e)),
                    }
                });
            }
            Role::Latest => {
                self.ctl.spawn(t, async move {
                    match handler.resolve_latest_location(&base, &os).await {
                        Ok(loc) => loc_result(&raw_os, &loc).await,
                        Err(e) => format!("={}", class_of(&e)),
                    }
                });
            }
        }
        t
    }

    fn canon_path(&mut self, p: &str, seen_by: Option<usize>) -> String {
        let f = final_path().to_string();
        if p == f {
            return "F".into();
        }
        if p == final_v1_path().to_string() {
            return "F1".into();
        }
        if let Some(rest) = p.strip_prefix(&f) {
            if rest.starts_with('-') {
                if let Some(w) = self.names.get(p) {
                    return format!("S{w}");
                }
                if let Some(t) = seen_by {
                    self.names.insert(p.to_string(), t);
                    return format!("S{t}");
                }
                return "S?".into();
            }
        }
        p.to_string()
    }

    /// canonical form of a gate descriptor
    fn canon_desc(&mut self, d: &str, task: usize) -> String {
        let toks: Vec<&str> = d.split(' ').collect();
        let op = toks[0];
        let owner = if op == "os.put" { Some(task) } else { None };
        let mut out = vec![op.to_string()];
        for (k, t) in toks.iter().enumerate().skip(1) {
            if op.starts_with("ext.") && k == 1 && t.parse::<u64>().is_ok() {
                continue; // the version number (always V)
            }
            if op == "os.list" {
                continue;
            }
            out.push(self.canon_path(t, owner));
        }
        out.join(" ")
    }

    async fn ext_entry(&mut self) -> (String, Option<String>) {
        let e = self.ext.lock().unwrap().map.get(&(BASE.to_string(), V)).cloned();
        match e {
            None => ("-".into(), None),
            Some(p) => (self.canon_path(&p, None), Some(p)),
        }
    }

    /// (`objs=` text, final content, set of existing raw paths)
    async fn objs(&mut self) -> (String, Option<String>, Vec<String>) {
        let paths = gatekit::list_all(self.raw.as_ref()).await;
        let mut names: Vec<String> = vec![];
        let mut stag: Vec<usize> = vec![];
        let mut fin = None;
        let mut raw = vec![];
        for p in paths {
            raw.push(p.to_string());
            let c = self.canon_path(p.as_ref(), None);
            if c == "F" {
                fin = Some(content_at(&self.raw_os, &p).await.unwrap_or_else(|| "unreadable".into()));
            } else if let Some(w) = c.strip_prefix('S').and_then(|x| x.parse::<usize>().ok()) {
                stag.push(w);
            } else {
                names.push(c);
            }
        }
        stag.sort();
        let mut all: Vec<String> = stag.iter().map(|w| format!("S{w}")).collect();
        if let Some(c) = &fin {
            all.push(format!("F:{c}"));
        }
        all.extend(names);
        (if all.is_empty() { "-".into() } else { all.join(",") }, fin, raw)
    }

    fn task_state(&mut self, t: usize) -> String {
        if self.ctl.is_crashed(t) {
            return "crashed".into();
        }
        if let Some(r) = self.ctl.result(t) {
            return r;
        }
        match self.ctl.parked(t) {
            Some(d) => self.canon_desc(&d, t).replace(' ', "_"),
            None => "running".into(),
        }
    }

    async fn dump(&mut self) -> String {
        let (e, _) = self.ext_entry().await;
        let (o, _, _) = self.objs().await;
        let n = self.roles.len();
        let ts: Vec<String> = (0..n).map(|t| format!("t{t}={}", self.task_state(t))).collect();
        format!("ext={e} | objs={o} | {}", if ts.is_empty() { "-".to_string() } else { ts.join(" ") })
    }
}

// ---------------------------------------------------------------------------------------------
// property oracle state (independent of the Lean model)

#[derive(Default)]
struct Oracle {
    final_content: Option<String>,
    ok_content: Option<String>,
    success: Option<String>,
    failures: Vec<OracleFailure>,
}

impl Oracle {
    fn fail(&mut self, line: usize, key: &str, what: String) {
        if self.failures.len() < 8 {
            self.failures.push(OracleFailure { what, key: Some(key.into()), line });
        }
    }

    /// checks evaluated on the implementation state after every op line
    async fn check(&mut self, w: &mut World, line: usize) {
        let (ext_c, ext_raw) = w.ext_entry().await;
        let (_, fin, raw) = w.objs().await;
        // the external entry never dangles
        if let Some(p) = &ext_raw {
            if !raw.contains(p) {
                self.fail(line, "dangling_entry", format!("external store maps version to {ext_c} but that object does not exist: the version cannot be resolved or repaired"));
            }
        }
        // the final manifest is immutable and never disappears
        match (&self.final_content, &fin) {
            (Some(a), Some(b)) if a != b => self.fail(line, "final_mutated", format!("final manifest content changed from {a} to {b}")),
            (Some(a), None) => self.fail(line, "final_mutated", format!("final manifest with content {a} disappeared")),
            _ => {}
        }
        if self.final_content.is_none() {
            self.final_content = fin.clone();
        }
        // every successful return names the same content, which is the final manifest's content
        for t in 0..w.roles.len() {
            let Some(r) = w.ctl.result(t) else { continue };
            if r.starts_with("=dangling") {
                self.fail(line, "dangling_location", format!("task {t} returned a location without an object"));
            }
            if let Some(c) = r.strip_prefix("=ok:") {
                if c.contains('@') || c.starts_with("badversion") {
                    self.fail(line, "nonstandard_location", format!("task {t} returned {r}"));
                }
                match &self.ok_content {
                    Some(a) if a != c => self.fail(line, "two_contents", format!("version resolved to content {a} and to content {c}")),
                    None => self.ok_content = Some(c.to_string()),
                    _ => {}
                }
                if fin.as_deref() != Some(c) {
                    self.fail(line, "ok_not_final", format!("task {t} returned content {c} but the final path holds {fin:?}"));
                }
                if w.roles[t] == Role::Writer {
                    if c != t.to_string() {
                        self.fail(line, "writer_ok_foreign", format!("writer {t}'s commit succeeded with content {c}"));
                    }
                    self.success = Some(c.to_string());
                }
            }
        }
        if let (Some(s), Some(c)) = (&self.success, &self.ok_content) {
            if s != c {
                self.fail(line, "lost_success", format!("commit of content {s} returned success but the version resolves to {c}"));
            }
        }
    }
}

// ---------------------------------------------------------------------------------------------

struct C10 {
    rt: tokio::runtime::Runtime,
    schema: Schema,
}

impl C10 {
    fn new() -> Self {
        let arrow = arrow_schema::Schema::new(vec![arrow_schema::Field::new("x", arrow_schema::DataType::Int32, true)]);
        Self { rt: gatekit::runtime(), schema: Schema::try_from(&arrow).unwrap() }
    }
}

fn parse_fault(s: &str) -> Option<Fault> {
    match Fault::parse(s)? {
        Fault::Crash => None,
        Fault::Alt(k) if k > 1 => None,
        f => Some(f),
    }
}

async fn exec(schema: Schema, lines: &[String]) -> CaseResult {
    let mut res = CaseResult::default();
    let mut w = World::new(schema);
    let mut or = Oracle::default();
    let mut configured = false;
    let mut tags: BTreeMap<String, ()> = BTreeMap::new();
    let mut registered = false;
    for (ln, line) in lines.iter().enumerate() {
        let toks: Vec<&str> = line.split_whitespace().collect();
        let out: String = match toks.as_slice() {
            ["cfg", a, b, c, d] if !configured => {
                match (a.parse::<usize>(), b.parse::<usize>(), c.parse::<usize>(), d.parse::<u8>()) {
                    (Ok(nw), Ok(nr), Ok(nl), Ok(big)) if nw + nr + nl <= 8 && big <= 1 => {
                        configured = true;
                        w.big = big == 1;
                        for _ in 0..nw {
                            w.spawn(Role::Writer);
                        }
                        for _ in 0..nr {
                            w.spawn(Role::Reader);
                        }
                        for _ in 0..nl {
                            w.spawn(Role::Latest);
                        }
                        if !w.ctl.quiesce().await {
                            "stuck".to_string()
                        } else {
                            format!("init | {}", w.dump().await)
                        }
                    }
                    _ => "bad".to_string(),
                }
            }
            ["s", t, f] if configured => match (t.parse::<usize>(), parse_fault(f)) {
                (Ok(t), Some(f)) => {
                    let stepped = if t < w.roles.len() { w.ctl.step(t, f).await } else { Stepped::Noop };
                    match stepped {
                        Stepped::Noop => format!("noop | {}", w.dump().await),
                        Stepped::Released(d) => {
                            let d = w.canon_desc(&d, t);
                            tags.insert(format!("call:{}", d.split(' ').next().unwrap()), ());
                            tags.insert(format!("fault:{}", f.token()), ());
                            format!("{t} {} {d} | {}", f.token(), w.dump().await)
                        }
                    }
                }
                _ => "bad".to_string(),
            },
            ["c", t] if configured => match t.parse::<usize>() {
                Ok(t) => {
                    let r = if t < w.roles.len() { w.ctl.crash(t) } else { Stepped::Noop };
                    w.ctl.quiesce().await;
                    match r {
                        Stepped::Noop => format!("noop | {}", w.dump().await),
                        Stepped::Released(_) => {
                            tags.insert("crash".into(), ());
                            format!("crash {t} | {}", w.dump().await)
                        }
                    }
                }
                _ => "bad".to_string(),
            },
            ["end"] if configured => {
                w.ctl.abort_all();
                w.ctl.quiesce().await;
                format!("end | {}", w.dump().await)
            }
            [p @ ("pv" | "pl")] if configured && w.roles.len() < 64 => {
                // the registered content before the probe (what a repair has to reproduce)
                let (_, ext_raw) = w.ext_entry().await;
                let before = match &ext_raw {
                    Some(p) => content_at(&w.raw_os, &Path::from(p.as_str())).await,
                    None => None,
                };
                let had_entry = ext_raw.is_some();
                let (_, fin_before, _) = w.objs().await;
                let t = w.spawn(if *p == "pv" { Role::Reader } else { Role::Latest });
                w.ctl.quiesce().await;
                let mut n = 0;
                while !w.ctl.is_finished(t) && n < 12 {
                    w.ctl.step(t, Fault::None).await;
                    n += 1;
                }
                let r = w.task_state(t);
                tags.insert(format!("probe:{}", r.split(':').next().unwrap()), ());
                // repair oracle
                if had_entry {
                    match &before {
                        Some(c) => {
                            let (e_after, _) = w.ext_entry().await;
                            let (_, fin_after, _) = w.objs().await;
                            if r != format!("=ok:{c}") || fin_after.as_deref() != Some(c.as_str()) || e_after != "F" {
                                or.fail(ln, "repair_failed", format!("slot registered with content {c}; a fault-free reader returned {r}, final={fin_after:?}, ext={e_after}"));
                            }
                        }
                        None => or.fail(ln, "dangling_entry", format!("external entry points at a missing object; a fault-free reader returned {r}")),
                    }
                } else if fin_before.is_none() && r != "=notfound" {
                    or.fail(ln, "phantom_version", format!("nothing registered, no final manifest, but a reader returned {r}"));
                }
                format!("probe {r} | {}", w.dump().await)
            }
            _ => "bad".to_string(),
        };
        if configured {
            or.check(&mut w, ln).await;
            if w.ext.lock().unwrap().map.len() > 0 {
                registered = true;
            }
        }
        res.outputs.push(out);
    }
    if configured {
        for t in 0..w.roles.len() {
            if let Some(r) = w.ctl.result(t) {
                tags.insert(format!("result:{}", r.split(':').next().unwrap().trim_start_matches('=')), ());
            }
        }
        tags.insert(format!("tasks:{}", w.roles.len().min(6)), ());
        if w.big {
            tags.insert("big".into(), ());
        }
    } else {
        tags.insert("malformed".into(), ());
    }
    w.ctl.abort_all();
    res.failures = or.failures;
    res.tags = tags.into_keys().collect();
    res.nontrivial = registered;
    res
}

impl Prop for C10 {
    fn id(&self) -> &'static str {
        "C10"
    }

    fn budget(&self, tier: Tier) -> usize {
        match tier {
            Tier::Quick => EXH_QUICK + 4000,
            Tier::Thorough => EXH_ALL + 60000,
            Tier::Search => EXH_ALL + 20000,
        }
    }

    fn gen_case(&mut self, rng: &mut Rng, tier: Tier, idx: usize) -> Vec<String> {
        let exh = if tier == Tier::Quick { EXH_QUICK } else { EXH_ALL };
        if idx < exh {
            return gen_exhaustive(idx);
        }
        gen_random(rng)
    }

    fn exec_case(&mut self, lines: &[String]) -> CaseResult {
        let schema = self.schema.clone();
        self.rt.block_on(exec(schema, lines))
    }

    fn rule(&self) -> String {
        "two writers for the same version slot under every binary schedule of length 9 (512), fault free and with one fault (fail-before / lost response / crash) at every position; then seeded random cases: 1-3 writers, 0-2 version readers, 0-1 latest readers, 10% big manifests, random schedules with 20% faulty releases (fail-before, lost response, stale reads on readers, crashes), probes (fresh fault-free readers) in the middle and after the end; <= 10% malformed lines. Non-trivial = some writer got registered in the external store.".into()
    }
}

// ---- exhaustive part: 2 writers, all binary schedules of length EXH_LEN, one fault at every position
const EXH_LEN: usize = 9;
const EXH_SCHEDS: usize = 1 << EXH_LEN;
/// (no fault) + positions × kinds
const EXH_ALL: usize = EXH_SCHEDS * (1 + EXH_LEN * 3);
/// quick tier: all fault-free schedules, and every (position, kind) on a quarter of the schedules (rotating)
const EXH_QUICK: usize = EXH_SCHEDS + (EXH_SCHEDS / 4) * EXH_LEN * 3;

fn gen_exhaustive(idx: usize) -> Vec<String> {
    let (sched, fault): (usize, Option<(usize, usize)>) = if idx < EXH_SCHEDS {
        (idx, None)
    } else {
        let j = idx - EXH_SCHEDS;
        let pk = j % (EXH_LEN * 3);
        let s = j / (EXH_LEN * 3);
        // spread the visited schedules over the whole space when only a part is run
        let s = (s * 4 + (pk % 4)) % EXH_SCHEDS;
        (s, Some((pk / 3, pk % 3)))
    };
    let mut lines = vec!["cfg 2 0 0 0".to_string()];
    for p in 0..EXH_LEN {
        let t = (sched >> p) & 1;
        match fault {
            Some((fp, k)) if fp == p => match k {
                0 => lines.push(format!("s {t} fb")),
                1 => lines.push(format!("s {t} lr")),
                _ => lines.push(format!("c {t}")),
            },
            _ => lines.push(format!("s {t} ok")),
        }
    }
    lines.push("end".into());
    lines.push("pv".into());
    lines.push("pl".into());
    lines
}

fn gen_random(rng: &mut Rng) -> Vec<String> {
    let nw = rng.range(1, 3) as usize;
    let nr = rng.range(0, 2) as usize;
    let nl = rng.range(0, 1) as usize;
    let big = rng.chance(1, 10);
    let n = nw + nr + nl;
    let malformed = rng.chance(1, 10);
    let mut lines = vec![format!("cfg {nw} {nr} {nl} {}", big as u8)];
    let mut steps = vec![0usize; n];
    let len = rng.range(4, 8 * n as u64) as usize;
    let fault_pct = *rng.pick(&[0u64, 10, 20, 40]);
    for _ in 0..len {
        if malformed && rng.chance(1, 6) {
            let junk = ["s 9 ok", "s 0 zz", "c 12", "cfg 1 1 1 0", "x", "s 0", "s 1 alt7", "s -1 ok"];
            lines.push(rng.pick(&junk).to_string());
            continue;
        }
        if rng.chance(1, 25) {
            lines.push(if rng.chance(2, 3) { "pv" } else { "pl" }.to_string());
            continue;
        }
        // prefer tasks that can still be running
        let mut t = rng.usize(n);
        for _ in 0..3 {
            if steps[t] < 6 {
                break;
            }
            t = rng.usize(n);
        }
        steps[t] += 1;
        if rng.below(100) < fault_pct {
            let is_reader = t >= nw;
            let k = rng.below(if is_reader { 5 } else { 3 });
            match k {
                0 => lines.push(format!("s {t} fb")),
                1 => lines.push(format!("s {t} lr")),
                2 => lines.push(format!("c {t}")),
                3 => lines.push(format!("s {t} alt0")),
                _ => lines.push(format!("s {t} alt1")),
            }
        } else {
            lines.push(format!("s {t} ok"));
        }
    }
    lines.push("end".into());
    lines.push("pv".into());
    if rng.chance(1, 2) {
        lines.push("pl".into());
        lines.push("pv".into());
    }
    lines
}

fn main() {
    run_main(C10::new())
}
